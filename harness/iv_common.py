"""Helpers shared by the invocation checks C15, C16, C17 (python3 stdlib only)."""
import os, subprocess
import common

MODES = ['robsd', 'robsd-cross', 'robsd-ports', 'robsd-regress', 'canvas']
SHIMS = os.path.join(common.VERIF, 'tools', 'shims')


NAME_MAX = 255
PATH_MAX = 4096


def root_components(need):
    """path components ('p' * k, k <= NAME_MAX) whose '/'-joined length is exactly need (>= 1): padding directories
    that give a root a spelled length at a buffer boundary (254..256, 1023..1025, PATH_MAX - 1 - name)"""
    comps = []
    rem = need
    while rem > NAME_MAX:
        take = NAME_MAX if rem - NAME_MAX - 1 >= 1 else rem - 2
        comps.append(take)
        rem -= take + 1
    comps.append(rem)
    return ['p' * k for k in comps]


def write_conf(path, mode, rootstr, aux, extra=''):
    """A minimal valid configuration per mode, as tests/util.sh robsd_config makes
    them.  rootstr is the robsddir exactly as it should be spelled in the file
    (str, no quotes/backslashes/'$'), aux an existing directory."""
    if mode == 'robsd':
        body = ('robsddir "%s"\ndestdir "%s"\nbsd-srcdir "%s"\ncvs-root "example.com:/cvs"\n'
                'cvs-user "nobody"\nx11-srcdir "%s"\n' % (rootstr, aux, aux, aux))
    elif mode == 'robsd-cross':
        body = 'robsddir "%s"\ncrossdir "%s"\nbsd-srcdir "%s"\n' % (rootstr, aux, aux)
    elif mode == 'robsd-ports':
        body = ('robsddir "%s"\nchroot "%s"\ncvs-root "example.com:/cvs"\ncvs-user "nobody"\n'
                'ports-dir "/ports"\nports-user "nobody"\nports {}\n' % (rootstr, aux))
    elif mode == 'robsd-regress':
        body = 'robsddir "%s"\nbsd-srcdir "%s"\ncvs-user "nobody"\nregress "test"\n' % (rootstr, aux)
    elif mode == 'canvas':
        body = 'canvas-name "test"\ncanvas-dir "%s"\nstep "a" command { "true" }\n' % rootstr
    else:
        raise ValueError(mode)
    open(path, 'w').write(body + extra)


def scan(rootb):
    """readdir view of a directory: [(name bytes, type letter)] with the d_type
    classes of Inv/LsDefs.v"""
    res = []
    with os.scandir(rootb) as it:
        for e in it:
            if e.is_symlink():
                t = 'L'
            elif e.is_dir(follow_symlinks=False):
                t = 'D'
            elif e.is_file(follow_symlinks=False):
                t = 'R'
            else:
                t = 'O'
            res.append((e.name, t))
    return res


def snapshot(top):
    """whole tree below top (bytes path) as {relative path: ('d',) | ('f', content) | ('l', target) | ('o',)}"""
    res = {}
    for d, dirs, files in os.walk(top, followlinks=False):
        for n in dirs + files:
            p = os.path.join(d, n)
            rel = os.path.relpath(p, top)
            if os.path.islink(p):
                res[rel] = ('l', os.readlink(p))
            elif os.path.isdir(p):
                res[rel] = ('d',)
            elif os.path.isfile(p):
                res[rel] = ('f', open(p, 'rb').read())
            else:
                res[rel] = ('o',)
    return res


def build_preload(ctx):
    d = ctx.mkscratch('ivpre')
    so = os.path.join(d, 'iv_dtype_preload.so')
    r = common.sh(['cc', '-shared', '-fPIC', '-O1', '-o', so,
                   os.path.join(common.VERIF, 'tools', 'iv_dtype_preload.c'), '-ldl'])
    if r.returncode != 0:
        raise common.BuildFailure('iv_dtype_preload.c does not build:\n' + r.stdout[-1500:])
    return so


def build_iv_driver(ctx):
    """The three invocation checks share one extraction (coq/extract/ExtractIV.v): before the driver is built
    every library it imports must be compiled against the current sources, whichever property is being
    checked.  Runs make under the framework's lock."""
    targets = ['theories/Inv/LsSpec.vo', 'theories/Inv/NameSpec.vo', 'theories/Inv/PurgeSpec.vo', 'theories/Inv/NameNewDefs.vo',
               'gen/Gen_Util.vo']
    with common.Lock(os.path.join(common.COQ, '.lock')):
        common.refresh_coqproject()
        r = common.sh(['timeout', '900', 'make', '-j8'] + targets, cwd=common.COQ)
    if r.returncode != 0:
        raise common.BuildFailure('libraries of the iv driver do not build:\n' + r.stdout[-1500:])
    return big_stack(ctx.build_driver('iv'))


def big_stack(drv):
    """the extracted model is a list program (getlines, ++ and map are not tail recursive in the extracted OCaml): a
    listing of 65 paths of PATH_MAX - 1 bytes, or a tree with a 64 KiB file, overflows the default 8 MiB stack.  The
    driver is started without a stack limit (same wrapper as rp_common.big_stack)."""
    w = drv + '.sh'
    text = '#!/bin/sh\nulimit -s unlimited 2>/dev/null || ulimit -s $(ulimit -Hs)\nexec "%s" "$@"\n' % drv
    if not os.path.exists(w) or open(w).read() != text:
        open(w + '.tmp', 'w').write(text)
        os.chmod(w + '.tmp', 0o755)
        os.rename(w + '.tmp', w)
    return w
