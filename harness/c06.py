"""C06 - step and hook commands get their exact arguments; exit status is faithful.

Correspondence, process level: the real robsd-exec / robsd-hook (rebuilt from the working tree)
run generated configurations whose commands are tools/argvprobe.c (also installed as `sh` on
PATH, so the script template of the script modes reaches it), which dumps its argument vector
NUL-separated and then exits with a requested code, kills itself with a requested signal or
outlives regress-timeout.  The extracted Coq model (Exec/ArgvDefs.v through driver `av`) is run
on the abstract view of the same configuration; the extracted oracles spec_ok_step /
spec_ok_hook (Exec/ArgvSpec.v) are applied to what the IMPLEMENTATION did.

Tie of the translated leaf function: harness/c06_exitstatus.c #includes step-exec.c and prints
the compiled exitstatus() for every 16-bit status (and wider ones) x {0, SIGALRM, SIGTERM};
every line is compared with the Gallina translation (Gen_Exec.exitstatus) and with exit_spec.
"""
import glob, hashlib, json, os, re, shutil, signal, subprocess, time
from concurrent.futures import ThreadPoolExecutor
import common
from common import hexs
import conf_common as cc

TRANSLATORS = ['t_interp', 't_exec']
TRUSTED = [
    'translator t_exec.py (clang JSON AST of exitstatus via the T2 translator of t_arith.py + (signed char) casts; anchored regular '
    'expressions for the argv template, the step tables, the grammar keyword lists and the two known bodies of find_step), '
    'validated per run against the compiled exitstatus() on 196k (status, signal) pairs',
    'ASSUMED, not verified: the kernel (fork, setsid, execvp, waitpid, signal delivery) - it enters the theorems as the universally '
    'quantified function from an argument vector to "execvp failed" or a wait status, and gotsig; glibc encodes wait statuses as '
    'bits/waitstatus.h says',
    'the configuration is abstracted as a view (variables as config_interpolate_lookup renders them, rendered defaults, step list, '
    'hook list); Exec/SchedBridge.v proves that the runner on the PARSED configuration (C08/C10 model of the file) is this runner on '
    'the view of the parsed configuration; the view the harness builds by hand next to every file (cfg_view) is compared on every '
    'step case with what the parser model makes of the file (driver cf `resolve`, lane "view vs parsed configuration")',
    'tools/argvdelay.c (LD_PRELOAD: setsid sleeps) stands for a child that is not scheduled within the second step_fork waits',
    'tools/argvnullexec.c: what execvp(NULL, {NULL}) does on THIS platform (glibc: the caller dies from SIGSEGV; other C libraries '
    'return -1) is measured once per check and handed to the model as the kernel\'s answer for the empty vector; the property\'s '
    '"rather than a crash" is judged on the runner\'s status (128+N = the forked child of robsd-exec died from signal N)',
    'C09\'s model of interpolate.c (Interp/InterpDefs.v) is reused for every argument',
    'tools/argvprobe.c (probe), harness/c06_exitstatus.c; a stopped (SIGSTOP/SIGTSTP/...) step is not exercised (the runner waits for it)',
    'kernel limits taken as facts: MAX_ARG_STRLEN 131072 (an argument of that size makes execve fail: the model is told "execvp '
    'fails"; a step name or environment string of that size cannot reach the runner at all), PATH_MAX 4096 for the command path; '
    'the core-dump flag of a wait status is inferred from the core file the probe leaves; the environment handed to the command is '
    'compared by the harness itself (signature environment-not-passed-through), not by an extracted oracle',
    'CAP: the lane "view vs parsed configuration" skips configurations with quoted strings beyond about 4 KiB (sum of squared '
    'lengths > 2 * 4097^2; the parser model of driver cf is quadratic in the length of a string: 64 KiB = 90 s); those cases still run '
    'against the runner model and the oracles',
]

KINDS = {"expected '{'": 'brace', "expected '}'": 'close', 'empty variable name': 'empty',
         'unknown variable': 'unknown', 'recursion too deep': 'deep'}
MODES = ['robsd', 'robsd-cross', 'robsd-ports', 'robsd-regress', 'canvas']
MAX_ARG_STRLEN = 131072                    # linux: 32 pages, per argv / environment string incl. the NUL
STOP_SIGNALS = {19, 20, 21, 22}
IGNORED_SIGNALS = {17, 18, 23, 28}          # default action: ignore / continue
ALL_SIGNALS = [s for s in range(1, 65) if s not in STOP_SIGNALS]
INTERESTING_EXITS = [0, 1, 2, 3, 64, 123, 124, 125, 126, 127, 128, 129, 137, 139, 143, 254, 255]


def B(s):
    """str -> bytes; raw bytes >= 0x80 travel through the JSON cases as lone surrogates (surrogateescape)"""
    return s if isinstance(s, bytes) else s.encode('utf-8', 'surrogateescape')


def H(s):
    return B(s).hex()


# ---- generators ---------------------------------------------------------------------------------

PLAIN = ['a', 'b', '-x', '-eu', '--flag=value', 'k=v', '=', '==x', 'two words', ' lead', 'trail ', 'a  b', 'tab\there',
         'l1\nl2', "it's", "'q'", 'back\\slash', '\\', '`id`', '*', '?', '[a-z]*', '*.c', '~', '{a,b}', '#c', ';', '&&', '|', '>',
         '<', '!', '%s%n', '-', '--', '0', 'x' * 300]
# arguments around and beyond the sizes at which the buffers behind interpolation grow (1 KiB, 2 KiB, ...)
LONG = ['y' * 1023, 'y' * 1024, 'z' * 1500, 'w' * 2048, 'v' * 5000, ('ab ' * 400), '${canvas-dir}/' + 'p' * 1100, 'q' * 1010 + '${canvas-name}']
REF_OK = ['${canvas-name}', '${canvas-dir}', '${robsddir}', '${keep}', '${skip}', '${keep-dir}', '${exec-dir}', '${trace}',
          '${stat-interval}', '${keep-attic}', '${hook}']
REF_EMPTYISH = ['${skip}', '${trace}', '${hook}']
REF_BAD = ['$', '${', '${}', '$x', '$$', '${nope}', '${step}', 'kill -9 $$', '$(id)', '${canvas-name', 'a$', '${ keep}', '${a b}',
           '${builddir}', '${tmp-dir}']


def gen_arg(rng, allow_bad):
    r = rng.random()
    if r < 0.05:
        return rng.choice(LONG)
    if r < 0.40:
        return rng.choice(PLAIN)
    if r < 0.55:
        return rng.choice(REF_OK)
    if r < 0.65:
        return rng.choice(REF_EMPTYISH)
    if r < 0.85:
        return rng.choice(PLAIN[:14]) + rng.choice(REF_OK) + rng.choice(['', 'post', ' ', '/x y', rng.choice(REF_OK)])
    if allow_bad:
        return rng.choice(REF_BAD)
    return rng.choice(REF_EMPTYISH) + rng.choice(REF_EMPTYISH)


def gen_cmd0(rng):
    r = rng.random()
    if r < 0.62:
        return '@PROBE@'
    if r < 0.70:
        return 'sh'
    if r < 0.78:
        return '${canvas-dir}/argvprobe'
    if r < 0.84:
        return rng.choice(['@BIN@/missing', '/nonexistent/dir/x', 'no-such-command', '@ROOT@'])
    if r < 0.90:
        return '@BIN@/noexec'
    if r < 0.97:
        return '${skip}'            # renders empty: dropped, the next element becomes the command
    return rng.choice(['${nope}', '$'])


def gen_probe(rng, thorough_pool=None):
    if thorough_pool:
        return thorough_pool.pop()
    r = rng.random()
    if r < 0.30:
        return {'exit': 0}
    if r < 0.65:
        return {'exit': rng.choice(INTERESTING_EXITS) if rng.random() < 0.5 else rng.randint(0, 255)}
    return {'signal': rng.choice(ALL_SIGNALS), 'exit': rng.choice([0, 7])}


def gen_canvas_conf(rng, want):
    """want: 'ok' | 'badother' | 'badself' | 'any'"""
    conf = {'mode': 'canvas', 'canvas_name': rng.choice(['t', 'my canvas', "it's *", 'N-${keep}', 'n${skip}', '${canvas-dir}/x']),
            'keep': rng.choice([None, None, 0, 3, 2147483647]),
            'skip': rng.choice([None, None, [], ['a b', 'c'], ['*'], ['x']]),
            'hook': rng.choice([None, None, None, [], ['h1', 'h 2']]),
            'running': rng.choice([None, None, None, '@ROOT@/2024-01-01.1', 'b d']),
            'steps': []}
    n = rng.randint(1, 4)
    names = ['s1', 's2', 'two words', 'end', 'ENV', 'x*', 's1']
    for i in range(n):
        k = rng.randint(0, 5)
        args = [gen_cmd0(rng) if want != 'ok' or rng.random() < 0.9 else '@PROBE@'] + [gen_arg(rng, False) for _ in range(k)]
        if rng.random() < 0.08:
            args = [rng.choice(REF_EMPTYISH) for _ in range(rng.randint(1, 3))]      # everything dropped
        conf['steps'].append({'name': rng.choice(names) if rng.random() < 0.5 else 's%d' % (i + 1), 'args': args,
                              'parallel': rng.random() < 0.2})
    if want == 'ok':
        for s in conf['steps']:
            s['args'] = [a for a in s['args'] if a not in ('${nope}', '$')] or ['@PROBE@']
    if want in ('badother', 'badself'):
        victim = rng.randrange(len(conf['steps']))
        s = conf['steps'][victim]
        s['args'].insert(rng.randint(0, len(s['args'])), rng.choice(REF_BAD))
        conf['_bad'] = victim
    if rng.random() < 0.03:
        conf['trace_cached'] = True          # canvas-dir "${trace}<root>": ${trace} evaluated (and stored) while parsing
    return conf


def gen_step_case(rng, probe=None):
    r = rng.random()
    trace = 1 if rng.random() < 0.4 else 0
    if r < 0.62:
        want = rng.choice(['ok'] * 6 + ['any', 'any', 'badother', 'badself'])
        conf = gen_canvas_conf(rng, want)
        names = [s['name'] for s in conf['steps']]
        bad = conf.pop('_bad', None)
        q = rng.random()
        if want == 'badself':
            name = names[bad]
        elif want == 'badother' and len(names) > 1:
            name = rng.choice([n for i, n in enumerate(names) if i != bad] or names)
        elif q < 0.72:
            name = rng.choice(names)
        elif q < 0.82:
            name = 'end'
        else:
            name = rng.choice(['nein', '', 'S1', 's1 ', 's', 'end ', 'two', '*'])
        execdir = rng.choice([None, '@ROOT@/exec', '/x y'])
    else:
        mode = rng.choice(MODES[:4])
        conf = {'mode': mode, 'hook': rng.choice([None, None, ['h']]), 'running': None}
        static = {'robsd': ['env', 'cvs', 'patch', 'kernel', 'reboot', 'base', 'release', 'checkflist', 'xbase', 'xrelease', 'image',
                            'hash', 'revert', 'distrib', 'dmesg', 'end'],
                  'robsd-cross': ['env', 'dirs', 'tools', 'distrib', 'dmesg', 'end'],
                  'robsd-ports': ['env', 'cvs', 'clean', 'proot', 'patch', 'dpb', 'distrib', 'revert', 'dmesg', 'end'],
                  'robsd-regress': ['env', 'pkg-add', 'cvs', 'patch', 'obj', 'mount', 'umount', 'revert', 'pkg-del', 'dmesg', 'end']}[mode]
        names = list(static)
        if mode == 'robsd-regress':
            pool = ['bin/ls', 'test/one', 'a b', 'x${keep}', 'env', 'umount', 'usr.bin/*', "q'uote", 'k=v', 'lib/libc/sys']
            if rng.random() < 0.12:
                pool += ['$', 'a${nope}']
            regress = []
            for _ in range(rng.randint(1, 4)):
                regress.append([rng.choice(pool), rng.random() < 0.4])
            conf['regress'] = regress
            names += [r_[0] for r_ in regress] * 3
            conf['timeout'] = None
        q = rng.random()
        name = rng.choice(names) if q < 0.85 else rng.choice(['nein', '', 'ENV', 'env ', 'en', 'envx'])
        execdir = rng.choice([None, '', '@ROOT@/exec', '@ROOT@/exec', '/x y', '/tmp/*', "/it's", '${robsddir}/libexec', '/a=b', '/d\\e']
                             + (['/usr/$x', '${nope}'] if rng.random() < 0.25 else []))
    return {'kind': 'step', 'conf': conf, 'trace': trace, 'name': H(name), 'execdir': execdir,
            'probe': probe or gen_probe(rng)}


def gen_run_case(rng, probe):
    """a case whose command certainly runs: carries one exit code / signal of the pool"""
    for _ in range(200):
        c = gen_step_case(rng, probe=probe)
        conf = c['conf']
        if conf['mode'] == 'canvas':
            name = bytes.fromhex(c['name']).decode()
            first = next((s for s in conf['steps'] if s['name'] == name), None)
            if first is None or first['args'][0] not in ('@PROBE@', 'sh', '${canvas-dir}/argvprobe'):
                continue
            if any(a in REF_BAD or a in ('${nope}', '$') for s in conf['steps'] for a in s['args']):
                continue
            return c
        if c['execdir'] in ('/usr/$x', '${nope}'):
            continue
        if conf['mode'] == 'robsd-regress' and any('$' in n and n != 'x${keep}' for n, _ in conf['regress']):
            continue
        if bytes.fromhex(c['name']).decode() in ('nein', '', 'ENV', 'env ', 'en', 'envx'):
            continue
        return c
    return c


def gen_slow_case(rng):
    """the forked child is held up before setsid(): step_fork's wait for the process group times out"""
    pr = rng.choice([{'exit': 0}, {'exit': 0}, {'exit': 3}, {'exit': 255}, {'exit': rng.randint(1, 254)}])
    c = gen_run_case(rng, pr)
    c['slow_ms'] = 4000
    return c


def gen_slow_term_case(rng):
    """... and while the parent waits for the held-up child on the "process group failure" path, a SIGTERM reaches it
    (model run_fork/HsLateIntr; C07's window signal-during-group-failure seen from C06's side)"""
    c = gen_slow_case(rng)
    c['term_ms'] = 2200
    return c


def gen_multifail_case(rng):
    """robsd-regress with two or more names that fail to interpolate in DIFFERENT ways (and names written twice with
    and without no-parallel): which diagnostic robsd-exec prints depends on the order in which config_get_steps meets
    the commands - fixed steps up to mount, tests without a no-parallel option on any of their entries in
    configuration order, then the others, then the fixed rest"""
    bad = ['$', 'a${nope}', '${', 'b${}', 'c${x', '$$', 'x${builddir}']
    good = ['test/one', 'x${keep}', 'bin/ls']
    k = rng.randint(2, 5)
    names = [rng.choice(bad) for _ in range(rng.randint(2, 3))] + [rng.choice(good) for _ in range(max(0, k - 2))]
    if rng.random() < 0.6:
        names.append(rng.choice(names))          # one path twice, the flags drawn independently
    rng.shuffle(names)
    regress = [[n, rng.random() < 0.5] for n in names]
    conf = {'mode': 'robsd-regress', 'hook': None, 'running': None, 'regress': regress, 'timeout': None}
    name = rng.choice(['env', 'end', 'umount', 'nein'] + [n for n, _ in regress])
    return {'kind': 'step', 'conf': conf, 'trace': rng.randint(0, 1), 'name': H(name),
            'execdir': rng.choice([None, '@ROOT@/exec', '/x y']), 'probe': gen_probe(rng)}


def gen_timeout_case(rng):
    conf = {'mode': 'robsd-regress', 'hook': None, 'running': None, 'regress': [['bin/slow', rng.random() < 0.5]], 'timeout': 1}
    return {'kind': 'step', 'conf': conf, 'trace': rng.randint(0, 1), 'name': H('bin/slow'), 'execdir': '@ROOT@/exec',
            'probe': {'timeout': 1}}


HOOK_VALUES = ['x', '', 'x y', 'a=b', '=', '*', "it's", '${other}', '${robsddir}', '$', '${nope}', 'l1\nl2', '-n', '${v1}']


def gen_hook_case(rng):
    mode = rng.choice(MODES)
    names = ['v1', 'v2', 'other', 'exit', 'step-name', 'prog']
    defined = rng.sample(names, rng.randint(2, len(names)))
    vs = []
    for n in defined:
        v = '@PROBE@' if n == 'prog' else rng.choice(HOOK_VALUES if rng.random() < 0.5 else HOOK_VALUES[:7])
        vs.append(n + '=' + v)
    refs = [n for n in defined if n != 'prog'] + ['robsddir', 'keep', 'skip', 'trace', 'exec-dir']
    q = rng.random()
    if q < 0.10:
        hook = None
    elif q < 0.17:
        hook = []
    else:
        first = rng.choice(['@PROBE@'] * 6 + ['${prog}' if 'prog' in defined else '@PROBE@', 'argvprobe', '@BIN@/missing', '@BIN@/noexec',
                                              '${skip}', '${v1}'])
        hook = [first]
        for _ in range(rng.randint(0, 5)):
            r = rng.random()
            if r < 0.35:
                hook.append(rng.choice(PLAIN))
            elif r < 0.80:
                ref = rng.choice(refs) if rng.random() < 0.9 else rng.choice(names)
                hook.append(rng.choice(['', '', 'p ', 'k=']) + '${' + ref + '}' + rng.choice(['', '', ' s']))
            elif r < 0.93:
                hook.append(rng.choice(REF_EMPTYISH))
            else:
                hook.append(rng.choice(REF_BAD[:9]))
    r = rng.random()
    if r < 0.06:
        vs.insert(rng.randint(0, len(vs)), rng.choice(['novalue', '', 'x y']))
    elif r < 0.12:
        vs.insert(rng.randint(0, len(vs)), rng.choice(['robsddir=/tmp', 'keep=1', 'hook=x', 'skip=', 'stat-interval=3']))
    elif r < 0.22:
        vs.insert(rng.randint(0, len(vs)), rng.choice(['trace=zz', 'exec-dir=/q r', 'builddir=/b', '=anon', 'v1=second', 'keep-dir=kd']))
    conf = {'mode': mode, 'hook': hook, 'running': None}
    if mode == 'canvas':
        conf.update({'canvas_name': 't', 'keep': rng.choice([None, 5]), 'skip': rng.choice([None, [], ['a b', 'c']]),
                     'steps': [{'name': 's', 'args': ['true'], 'parallel': False}]})
    if mode == 'robsd-regress':
        conf['regress'] = [['bin/ls', False]]
        conf['timeout'] = None
    return {'kind': 'hook', 'conf': conf, 'vs': [H(v) for v in vs], 'execdir': rng.choice([None, '/x y']),
            'probe': gen_probe(rng)}


# ---- boundary SIZE / SHAPE classes ------------------------------------------------------------------
# Where a generated field flows into code of this property:
#   * every ARGUMENT of a step command: lexer buffer -> arena_strdup -> config_interpolate_str (arena buffer of 1 KiB that
#     grows by doubling; the value of a referenced variable is rendered into a 128-byte buffer first) -> argv vector
#     (VECTOR_ALLOC per element, grows by doubling) -> execvp;
#   * the NUMBER of arguments (argv vector), of canvas steps / regress entries (steps vector, regress_no_parallel vector;
#     config_canvas_after_parse appends "end" with VECTOR_RESERVE(.., 1)), of hook elements and -v options (robsd-hook);
#   * step NAMES: compared with strcmp in find_step, passed on the runner's command line;
#   * EXECDIR (environment) -> ${exec-dir} -> the script path argument; the command path itself -> execvp (PATH_MAX);
#   * regress-timeout (int, x 60 / x 3600 with overflow check) -> alarm((unsigned int)timeout).
# Cases use a compact notation that expand_case() unfolds just before a case is run (replay files stay small):
#   "@FILL(n,text)@" in any string = text repeated and cut to exactly n characters; "@DEEP(n)@" = the probe linked at a
#   path of exactly n bytes; "name_text" / "vs_text" instead of the hex fields; conf.steps_gen {n, name, args} (%d = index)
#   with explicit steps inserted at their "at"; step.args_gen {n, arg}; conf.regress_gen {n, name, nopar_mod};
#   conf.hook_gen {n, arg}; vs_gen {n, var}.
LEN_B = [1, 127, 128, 129, 254, 255, 256, 1023, 1024, 1025, 2047, 2048, 2049, 4095, 4096, 4097, 8191, 8192, 8193, 65535, 65536,
         131071, 131072]
CNT_B = [1, 2, 15, 16, 17, 31, 32, 33, 63, 64, 65, 255, 256]
STEPS_B = [1, 14, 15, 16, 17, 30, 31, 32, 33, 62, 63, 64, 65]
IDX_B = [15, 16, 31, 32, 63, 64]
NAME_B = [1, 254, 255, 256, 1023, 1024, 1025, 4095, 4096, 4097, 65535, 65536]
PATH_B = [254, 255, 256, 1023, 1024, 1025, 4095, 4096, 4097]
FILL_RE = re.compile(r'@FILL\((\d+),(.*?)\)@', re.S)


def fill(n, text):
    return (text * (n // len(text) + 1))[:n] if n > 0 else ''


def F(n, text='y'):
    return '@FILL(%d,%s)@' % (n, text)


def expand_case(c):
    def walk(x):
        if isinstance(x, str):
            return FILL_RE.sub(lambda m: fill(int(m.group(1)), m.group(2)), x) if '@FILL(' in x else x
        if isinstance(x, list):
            return [walk(y) for y in x]
        if isinstance(x, dict):
            return {k: walk(v) for k, v in x.items()}
        return x
    if not any(k in json.dumps(c) for k in ('@FILL(', '_gen"', '_text"', '"at"')):
        return c
    e = walk(c)
    N = lambda s, i: s.replace('%d', str(i))
    if 'name_text' in e:
        e['name'] = H(e.pop('name_text'))
    vs = [H(v) for v in e.pop('vs_text', [])]
    g = e.pop('vs_gen', None)
    if g:
        vs = [H(N(g['var'], i)) for i in range(g['n'])] + vs
    if vs or 'vs' in e or e.get('kind') == 'hook':
        e['vs'] = e.get('vs', []) + vs
    conf = e['conf']
    g = conf.pop('steps_gen', None)
    if g:
        steps = [{'name': N(g['name'], i), 'args': [N(a, i) for a in g['args']], 'parallel': False} for i in range(g['n'])]
        for s in conf.get('steps', []):
            at = s.pop('at', None)
            if at is None:
                steps.append(s)
            else:
                steps.insert(at, s)
        conf['steps'] = steps
    for s in conf.get('steps', []):
        s.pop('at', None)
        g = s.pop('args_gen', None)
        if g:
            s['args'] = s['args'] + [N(g['arg'], i) for i in range(g['n'])]
    g = conf.pop('regress_gen', None)
    if g:
        conf['regress'] = [[N(g['name'], i), bool(g.get('nopar_mod')) and i % g['nopar_mod'] == 0] for i in range(g['n'])] \
            + conf.get('regress', [])
    g = conf.pop('hook_gen', None)
    if g:
        conf['hook'] = (conf.get('hook') or []) + [N(g['arg'], i) for i in range(g['n'])]
    return e


def classes_of(c, p, exp_argv, dump):
    """the boundary classes a case (expanded) falls into, read off the case itself - generated or from the corpus"""
    out = set(c.get('tags', []))
    conf = c['conf']
    S = lambda s: len(B(subst(s, p)))
    if c['kind'] == 'step':
        name = bytes.fromhex(c['name'])
        if len(name) in NAME_B[1:]:
            out.add('requested step name of %d bytes' % len(name))
        x = c.get('execdir')
        if x and S(x) in LEN_B[4:]:
            out.add('EXECDIR of %d bytes' % S(x))
        if conf['mode'] == 'canvas':
            steps = conf['steps']
            if len(steps) in STEPS_B[1:]:
                out.add('canvas steps: %d (+ end)' % len(steps))
            idx = next((i for i, s in enumerate(steps) if B(s['name']) == name), None)
            if idx is not None and len(steps) >= 14:
                out.add('requested step is %s' % ('the FIRST of >= 14' if idx == 0 else 'the LAST of >= 14' if idx == len(steps) - 1
                                                 else 'at index %d' % idx if idx in IDX_B else 'in the middle of >= 14'))
            if idx is None and name == b'end' and len(steps) >= 14:
                out.add('requested step is the appended "end" after >= 14 steps')
            if idx is not None:
                args = steps[idx]['args']
                if len(args) in CNT_B[2:]:
                    out.add('configured arguments: %d' % len(args))
                for a in args:
                    if S(a) in LEN_B[1:]:
                        out.add('configured argument of %d bytes' % S(a))
                    k = a.count('${')
                    if k in (16, 17, 64, 65):
                        out.add('argument made of %d references' % k)
            if S(conf['canvas_name']) in LEN_B[1:]:
                out.add('variable value of %d bytes' % S(conf['canvas_name']))
            for v in conf.get('skip') or []:
                if S(v) in LEN_B[1:]:
                    out.add('list element value of %d bytes' % S(v))
        elif conf['mode'] == 'robsd-regress':
            n = len(conf.get('regress', []))
            if n in CNT_B[2:]:
                out.add('regress entries: %d' % n)
            for nm, _ in conf.get('regress', []):
                if len(B(nm)) in [238, 239, 240] + LEN_B[4:]:
                    out.add('regress path of %d bytes' % len(B(nm)))
            if conf.get('timeout') is not None and 'timeout_unit' in conf:
                out.add('regress-timeout %d%s' % (conf['timeout'], conf['timeout_unit']))
        if c['trace'] and c.get('xpos'):
            out.add('-x position: ' + {1: 'first option', 2: 'between -m and -C', 3: 'glued to -m (-xm)', 4: 'last, then --'}[c['xpos']])
        elif c.get('xpos') == 4:
            out.add('-- before the step name')
    else:
        hook = conf.get('hook') or []
        if len(hook) in CNT_B[2:]:
            out.add('hook elements: %d' % len(hook))
        for a in hook:
            if S(a) in LEN_B[1:]:
                out.add('hook element of %d bytes' % S(a))
        if len(c['vs']) in CNT_B[2:]:
            out.add('-v options: %d' % len(c['vs']))
        for v in c['vs']:
            b = bytes.fromhex(v)
            k, _, val = b.partition(b'=')
            if len(val) in LEN_B[1:]:
                out.add('-v value of %d bytes' % len(val))
            if len(k) in NAME_B[1:]:
                out.add('-v name of %d bytes' % len(k))
    if exp_argv is not None:
        if len(exp_argv) in CNT_B[2:]:
            out.add('rendered arguments: %d' % len(exp_argv))
        for a in exp_argv[1:]:
            if len(a) in LEN_B[1:]:
                out.add('rendered argument of %d bytes' % len(a))
        if len(exp_argv[0]) in PATH_B and b'/' in exp_argv[0]:
            out.add('command path of %d bytes%s' % (len(exp_argv[0]), ' (PATH_MAX and beyond: the kernel refuses, ENAMETOOLONG)'
                                                  if len(exp_argv[0]) >= 4096 else ''))
    for k, v in (c.get('env_extra') or {}).items():
        if len(B(v)) in LEN_B[1:] or len(B(k)) + len(B(v)) + 2 == MAX_ARG_STRLEN:
            out.add('environment value of %d bytes' % len(B(v)))
    pr = c['probe']
    if pr.get('closefds'):
        out.add('command closes stdin/stdout/stderr before it ends')
    if pr.get('core'):
        out.add('death by signal %d with the core-dump flag %s' % (pr['signal'], 'SET (core file written)' if p.get('core') else 'not set'))
    return sorted(out)


def b_canvas(steps, name_text, **kw):
    conf = {'mode': 'canvas', 'canvas_name': kw.pop('canvas_name', 't'), 'keep': kw.pop('keep', None), 'skip': kw.pop('skip', None),
            'hook': None, 'running': None, 'steps': steps}
    conf.update(kw.pop('conf', {}))
    c = {'kind': 'step', 'conf': conf, 'trace': kw.pop('trace', 0), 'name_text': name_text, 'execdir': kw.pop('execdir', None),
         'probe': kw.pop('probe', {'exit': 0})}
    c.update(kw)
    return c


def step(name, args, **kw):
    s = {'name': name, 'args': args, 'parallel': False}
    s.update(kw)
    return s


def b_arglen(n, text='y', pos=1, before=1, after=1):
    """one configured argument of exactly n bytes, at position pos of the requested step's command; neighbours before and
    after it in the same arena"""
    args = ['@PROBE@'] + ['a%d' % i for i in range(before)]
    args.insert(pos, F(n, text))
    steps = [step('pre', ['@PROBE@', 'before', F(min(n, 2000), 'b')]), step('big', args + ['z'] * after), step('post', ['@PROBE@', 'after'])]
    return b_canvas(steps, 'big')


def b_rendered(how, n, k=16):
    """arguments that INTERPOLATE to a given size"""
    if how == 'var':            # the value of one referenced variable has n bytes
        return b_canvas([step('s', ['@PROBE@', '${canvas-name}', 'x${canvas-name}'])], 's', canvas_name=F(n, 'v'))
    if how == 'sum':            # literal text + a reference = exactly n bytes
        return b_canvas([step('s', ['@PROBE@', F(n - n // 3, 'p') + '${canvas-name}', 'tail'])], 's', canvas_name=F(n // 3, 'v'))
    if how == 'refs':           # one argument made of k references to a value of n bytes
        return b_canvas([step('s', ['@PROBE@', '${canvas-name}' * k, '-${canvas-name}' * k])], 's', canvas_name=F(n, 'r'))
    if how == 'list':           # a list variable of k elements of n bytes, rendered joined by blanks into one argument
        return b_canvas([step('s', ['@PROBE@', '${skip}', 'end'])], 's', skip=[F(n, chr(97 + i % 26)) for i in range(k)])
    raise ValueError(how)


def b_nargs(n, empties=0, where='mid'):
    """n configured elements (the command included) + `empties` elements that render empty and are dropped"""
    s = step('many', ['@PROBE@'], args_gen={'n': n - 1, 'arg': 'a%d'})
    c = b_canvas([step('pre', ['@PROBE@', 'p']), s, step('post', ['@PROBE@', 'q'])], 'many', skip=[])
    if empties:
        # before the command (the next element becomes the command) or right after it
        s['args'] = ['${skip}'] * empties + ['@PROBE@'] if where == 'first' else ['@PROBE@'] + ['${skip}'] * empties
    return c


def b_nsteps(n, idx):
    """n canvas steps k0..k<n-1>, each with its own argument; the requested one by index, 'end' or 'missing'"""
    name = 'k%d' % idx if isinstance(idx, int) else {'end': 'end', 'missing': 'k%d' % n}[idx]
    return b_canvas([], name, conf={'steps_gen': {'n': n, 'name': 'k%d', 'args': ['@PROBE@', 'i%d']}})


NAME_FAMILIES = {
    'prefix': ['ab', 'a', 'abc', 'abcd', 'abc d'],
    'case': ['ab', 'AB', 'Ab', 'aB'],
    'adjacent': ['ab', 'ac', 'aa', 'ab!', 'ab\x01', 'ab\x7f', 'ab\udc80', 'ab\udcff'],
    'separator': ['a=b', 'a,b', 'a-b', 'a.b', 'a/b', 'a b', 'a\nb', 'a', 'b', 'a=', '=b', 'a=b=c', 'a,b,c', 'a-b-c', 'a.b.', 'a/b/', 'a b '],
}
NEAR_MISSES = {'prefix': ['abcde', '', 'ab '], 'case': ['aBc', 'A'], 'adjacent': ['ad', 'ab\x02', 'ab\udc81'],
               'separator': ['a;b', 'a=c', 'a\tb', 'b=a', 'a  b']}


def b_names(family, order, want):
    """steps whose names are prefixes of each other / differ in case / are byte-adjacent / contain the separator characters,
    in the given order; `want` = the requested name (one of them, or a near miss that must not be found)"""
    steps = [step(nm, ['@PROBE@', 'i%d' % i, nm]) for i, nm in enumerate(order)]
    c = b_canvas(steps, want)
    c['tags'] = ['step names: %s family, requested %s' % (family, 'one of them' if want in order else 'a near miss')]
    return c


def b_namelen(n, want, first):
    """three steps named with n-1, n and n+1 times the same byte (each a prefix of the next), in an order that puts a
    wrong candidate FIRST; requested: the one of length n+want (want in -1, 0, 1)"""
    lens = [n - 1, n, n + 1] if first == 'short' else [n + 1, n, n - 1]
    steps = [step(F(k, 'n'), ['@PROBE@', 'len%d' % k]) for k in lens if k > 0]
    c = b_canvas(steps, F(n + want, 'n'))
    c['tags'] = ['step names of %d/%d/%d bytes, prefixes of each other, %s first' % (n - 1, n, n + 1, first)]
    return c


def b_bytes(lo, hi, split=False):
    """every byte lo..hi in the arguments (but '"', which ends a string of the configuration language, and '$')"""
    bs = [b for b in range(lo, hi + 1) if b not in (0x22, 0x24)]
    txt = lambda l: bytes(l).decode('utf-8', 'surrogateescape')
    args = [txt([b]) + 'x' for b in bs] if split else [txt(bs), 'x' + txt(bs) + 'x']
    c = b_canvas([step('s', ['@PROBE@'] + args)], 's')
    c['tags'] = ['arguments with every byte %d..%d%s' % (lo, hi, ', one byte per argument' if split else '')]
    return c


def b_execdir(n, mode, name='env'):
    """script modes: EXECDIR of n bytes -> ${exec-dir} -> the script path handed to sh.  The script is an ARGUMENT of sh
    (here the probe): the kernel's PATH_MAX does not apply to it, so 4096 and beyond are inside."""
    conf = {'mode': mode, 'hook': None, 'running': None}
    if mode == 'robsd-regress':
        conf.update({'regress': [['bin/ls', False]], 'timeout': None})
    return {'kind': 'step', 'conf': conf, 'trace': 0, 'name_text': name, 'execdir': '/' + F(n - 1, 'e'), 'probe': {'exit': 0}}


def b_deep(n):
    """canvas: the command path itself has n bytes (254..4095 exist; PATH_MAX = 4096 and beyond fail in the kernel with
    ENAMETOOLONG before any lookup - class "outside" what can be started, the runner must say so and exit 1)"""
    return b_canvas([step('s', ['@DEEP(%d)@' % n, 'x', '${canvas-name}'])], 's')


def b_regress_n(n, idx, nopar_mod=3, name='t/r%d'):
    """robsd-regress with n entries, every nopar_mod-th no-parallel (two passes over the list, a second vector)"""
    conf = {'mode': 'robsd-regress', 'hook': None, 'running': None, 'timeout': None, 'regress_gen': {'n': n, 'name': name, 'nopar_mod': nopar_mod}}
    want = name.replace('%d', str(idx)) if isinstance(idx, int) else idx
    return {'kind': 'step', 'conf': conf, 'trace': 0, 'name_text': want, 'execdir': '@ROOT@/exec', 'probe': {'exit': 0}}


def b_regress_path(n, nopar):
    conf = {'mode': 'robsd-regress', 'hook': None, 'running': None, 'timeout': None,
            'regress': [['bin/ls', False], [F(n, 'p/'), nopar], [F(n - 1, 'p/'), not nopar]]}
    return {'kind': 'step', 'conf': conf, 'trace': 0, 'name_text': F(n, 'p/'), 'execdir': '@ROOT@/exec', 'probe': {'exit': 0}}


def b_xpos(pos, trace=1):
    c = b_canvas([step('s', ['@PROBE@', '${trace}', 'x'])], 's', trace=trace)
    c['xpos'] = pos
    return c


def b_env(n):
    """an environment string NAME=value of the runner with a value of n bytes (at most MAX_ARG_STRLEN - 1 with name and =)"""
    c = b_canvas([step('s', ['@PROBE@', 'x'])], 's')
    c['env_extra'] = {'C06ENV': F(n, 'E'), 'C06_SMALL': 'v'}
    return c


def b_timeout(t, unit, sleep, code=3):
    """regress-timeout t<unit>, a command that sleeps `sleep` seconds and exits `code`"""
    conf = {'mode': 'robsd-regress', 'hook': None, 'running': None, 'regress': [['bin/slow', False]], 'timeout': t, 'timeout_unit': unit}
    return {'kind': 'step', 'conf': conf, 'trace': 0, 'name_text': 'bin/slow', 'execdir': '@ROOT@/exec', 'probe': {'sleep': sleep, 'exit': code}}


def b_status(pr):
    return b_canvas([step('s', ['@PROBE@', 'x'])], 's', probe=pr)


def b_slow(rel_ms, kind, code):
    """the forked child's setsid() delayed by handshake limit + rel_ms (limit read from the source when the case runs:
    slow_rel); kind: intime (well below) | either (at the limit) | late"""
    c = b_canvas([step('s', ['@PROBE@', 'x'])], 's', probe={'exit': code})
    c['slow_rel'] = rel_ms
    c['slow'] = kind
    return c


def b_hook(nhook=1, arglen=None, nvs=0, vlen=None, klen=None):
    """robsd-hook: number / size of hook elements, number of -v options, size of a -v value / name"""
    hook = ['@PROBE@']
    vs = []
    conf = {'mode': 'robsd-cross', 'hook': hook, 'running': None}
    if arglen:
        hook += [F(arglen, 'h'), 'x']
    if vlen:
        vs.append('big=' + F(vlen, 'V'))
        hook += ['${big}', 'p${big}s']
    if klen:
        vs.append(F(klen, 'k') + '=named')
        hook += ['${' + F(klen, 'k') + '}']
    c = {'kind': 'hook', 'conf': conf, 'vs_text': vs, 'execdir': None, 'probe': {'exit': 0}}
    if nhook > len(hook):
        conf['hook_gen'] = {'n': nhook - len(hook), 'arg': 'h%d'}
    if nvs:
        c['vs_gen'] = {'n': nvs, 'var': 'w%d=val%d'}
        hook += ['${w0}', '${w%d}' % (nvs - 1)]
    return c


def wpick(rng, values, big=65535, pbig=0.06):
    """a boundary value; the expensive ones (>= big) rarely"""
    small = [v for v in values if v < big]
    large = [v for v in values if v >= big]
    return rng.choice(large) if large and rng.random() < pbig else rng.choice(small)


def gen_boundary_case(rng):
    r = rng.random()
    if r < 0.14:
        n = wpick(rng, LEN_B)
        before = rng.randint(0, 3)
        return b_arglen(n, rng.choice(['y', 'ab ', "q'*", 'x=,-./', '\udc80\udcff', '\\']), rng.randint(1, before + 1), before, rng.randint(0, 2))
    if r < 0.28:
        how = rng.choice(['var', 'sum', 'refs', 'list'])
        if how == 'refs':
            return b_rendered(how, rng.choice([1, 8, 16, 63, 64, 128]), rng.choice([16, 17, 64, 65]))
        if how == 'list':
            return b_rendered(how, rng.choice([1, 127, 128, 255, 1023, 1024]), rng.choice([1, 2, 16, 17]))
        return b_rendered(how, wpick(rng, [v for v in LEN_B if v <= 65536 and (how != 'sum' or v > 2)]))
    if r < 0.38:
        if rng.random() < 0.3:
            return b_nargs(rng.choice([2, 16, 17, 32, 33]), rng.choice([1, 2, 15, 16, 17]), rng.choice(['first', 'mid']))
        return b_nargs(wpick(rng, CNT_B, 255, 0.1))
    if r < 0.52:
        n = rng.choice(STEPS_B)
        idx = rng.choice([0, n - 1, 'end', 'missing'] + [i for i in IDX_B if i < n] * 2)
        return b_nsteps(n, idx)
    if r < 0.64:
        fam = rng.choice(sorted(NAME_FAMILIES))
        order = list(NAME_FAMILIES[fam])
        rng.shuffle(order)
        order = order[:rng.randint(2, len(order))]
        return b_names(fam, order, rng.choice(order) if rng.random() < 0.75 else rng.choice(NEAR_MISSES[fam]))
    if r < 0.72:
        return b_namelen(wpick(rng, NAME_B[1:], 65535, 0.05), rng.choice([-1, 0, 1]), rng.choice(['short', 'long']))
    if r < 0.76:
        lo = rng.choice([1, 32, 128])
        return b_bytes(lo, {1: 31, 32: 127, 128: 255}[lo], rng.random() < 0.5)
    if r < 0.82:
        return b_execdir(wpick(rng, PATH_B + [65536], 65535, 0.05), rng.choice(MODES[:4]))
    if r < 0.86:
        return b_deep(rng.choice(PATH_B))
    if r < 0.91:
        if rng.random() < 0.5:
            n = rng.choice([15, 16, 17, 31, 32, 33, 63, 64, 65])
            return b_regress_n(n, rng.choice([0, n - 1, n // 2, 'end', 'umount', 'env']), rng.choice([0, 1, 2, 3]))
        return b_regress_path(rng.choice([238, 239, 240, 254, 255, 256, 1023, 1024, 1025, 4095, 4096, 4097]), rng.random() < 0.5)
    if r < 0.94:
        return b_xpos(rng.randint(1, 4), rng.randint(0, 1))
    if r < 0.96:
        return b_env(wpick(rng, LEN_B[:-2] + [MAX_ARG_STRLEN - 8], 65535, 0.1))
    q = rng.random()
    if q < 0.3:
        return b_hook(nhook=wpick(rng, CNT_B, 255, 0.1))
    if q < 0.55:
        return b_hook(arglen=wpick(rng, LEN_B[:-1]))
    if q < 0.75:
        return b_hook(nvs=wpick(rng, CNT_B, 255, 0.1))
    if q < 0.9:
        return b_hook(vlen=wpick(rng, LEN_B[:-1]))
    return b_hook(klen=rng.choice(NAME_B[1:10]))


def gen_status_case(rng):
    """exit status classes beyond the pool of run(): core-dump flag, closed descriptors, timeout values"""
    r = rng.random()
    if r < 0.3:
        return b_status({'signal': rng.choice([3, 4, 5, 6, 7, 8, 11, 24, 25, 31]), 'exit': 0, 'core': 1})
    if r < 0.5:
        pr = gen_probe(rng)
        pr['closefds'] = 1
        return b_status(pr)
    t, unit = rng.choice([(0, 's'), (0, 'h'), (2147483647, 's'), (35791394, 'm'), (596523, 'h'), (65536, 's'), (65537, 's'), (1092, 'm'),
                          (4, 's'), (1, 'm'), (1, 'h')])
    return b_timeout(t, unit, 2, rng.choice([0, 3, 255]))


def gen_slow_classes(rng, below, at):
    out = []
    for _ in range(below):
        out.append(b_slow(rng.choice([-700, -600, -500]), 'intime', rng.choice([0, 0, 3, 255])))
    for _ in range(at):
        # at or below the limit only commands that fail: either reading passes their status through
        rel = rng.choice([-50, 0, 50, 250])
        out.append(b_slow(rel, 'either', rng.choice([3, 255]) if rel <= 0 else rng.choice([0, 0, 7])))
    return out


# ---- configuration file + abstract view ----------------------------------------------------------

DEEP_RE = re.compile(r'@DEEP\((\d+)\)@')


def deep_path(root, n):
    """a path of exactly n bytes below <root> that ends in /argvprobe (components of at most 255 bytes)"""
    tail = '/argvprobe'
    left = n - len(root) - len(tail)
    if left < 0 or left == 1:
        return None
    out = root
    while left > 0:
        k = min(left - 1, 255)
        if left - 1 - k == 1:          # never leave a lone '/' for the next round
            k -= 1
        out += '/' + 'd' * k
        left -= k + 1
    return out + tail


def subst(s, paths):
    s = s.replace('@PROBE@', paths['probe']).replace('@BIN@', paths['bin']).replace('@ROOT@', paths['root'])
    if '@DEEP(' in s:
        s = DEEP_RE.sub(lambda m: deep_path(paths['root'], int(m.group(1))) or '/nonexistent/too-short', s)
    return s


def q(s):
    return '"' + s + '"'


def conf_ok_for_lexer(strings):
    return all(s != '' and '"' not in s and '\0' not in s for s in strings)


def cfg_view(case, paths, machine):
    """(configuration file text, CFG tokens for the driver).  vars follow the order in which the parser appends
    them to cf->variables; defaults are the grammar defaults the generated templates may mention."""
    conf = case['conf']
    mode = conf['mode']
    root = paths['root']
    S = lambda s: subst(s, paths)
    lines, vars_ = [], []
    if mode == 'canvas':
        cname = S(conf['canvas_name'])
        lines.append('canvas-name ' + q(cname))
        vars_.append(('canvas-name', cname))
        cdir = ('${trace}' + root) if conf.get('trace_cached') else root
        lines.append('canvas-dir ' + q(cdir))
        if conf.get('trace_cached'):
            vars_.append(('trace', ''))
        vars_ += [('canvas-dir', cdir), ('robsddir', cdir)]
    elif mode == 'robsd':
        for k, v in (('robsddir', root), ('destdir', root), ('bsd-srcdir', root), ('cvs-root', 'example.com:/cvs'),
                     ('cvs-user', 'nobody'), ('x11-srcdir', root)):
            lines.append('%s %s' % (k, q(v)))
            vars_.append((k, v))
    elif mode == 'robsd-cross':
        for k, v in (('robsddir', root), ('crossdir', root), ('bsd-srcdir', root)):
            lines.append('%s %s' % (k, q(v)))
            vars_.append((k, v))
    elif mode == 'robsd-ports':
        for k, v in (('robsddir', root), ('chroot', root), ('cvs-root', 'example.com:/cvs'), ('cvs-user', 'nobody'),
                     ('ports-dir', '/ports'), ('ports-user', 'nobody')):
            lines.append('%s %s' % (k, q(v)))
            vars_.append((k, v))
        lines.append('ports { "devel/robsd" }')
        vars_.append(('ports', 'devel/robsd'))
    elif mode == 'robsd-regress':
        for k, v in (('robsddir', root), ('bsd-srcdir', root), ('cvs-user', 'nobody')):
            lines.append('%s %s' % (k, q(v)))
            vars_.append((k, v))
    if conf.get('keep') is not None:
        lines.append('keep %d' % conf['keep'])
        vars_.append(('keep', str(conf['keep'])))
    if conf.get('skip') is not None:
        lines.append('skip { ' + ' '.join(q(S(x)) for x in conf['skip']) + ' }')
        vars_.append(('skip', ' '.join(S(x) for x in conf['skip'])))
    hook = None
    if conf.get('hook') is not None:
        hook = [S(x) for x in conf['hook']]
        lines.append('hook { ' + ' '.join(q(x) for x in hook) + ' }')
        vars_.append(('hook', ' '.join(hook)))
    regress_toks, canvas_toks = ['0'], ['0']
    if mode == 'robsd-regress':
        if conf.get('timeout') or (conf.get('timeout') == 0 and 'timeout_unit' in conf):
            # boundary classes: the value with a unit s / m / h (config_parse_regress_timeout multiplies, checked for int32
            # overflow); 0 is written only when a unit is given (older cases carry timeout None / 0 for "not configured")
            unit = conf.get('timeout_unit', 's')
            lines.append('regress-timeout %d%s' % (conf['timeout'], unit))
            vars_.append(('regress-timeout', str(conf['timeout'] * {'s': 1, 'm': 60, 'h': 3600}[unit])))
        regress_toks = [str(len(conf['regress']))]
        # no-parallel is stored as the variable regress-<path>-parallel: it belongs to the PATH, whichever of the
        # entries of that path carries it (is_parallel looks the variable up by name), so a path written twice runs
        # in the same pass both times
        nopar_paths = {name for name, nopar in conf['regress'] if nopar}
        for name, nopar in conf['regress']:
            lines.append('regress ' + q(name) + (' no-parallel' if nopar else ''))
            if nopar:
                vars_.append(('regress-%s-parallel' % name, '0'))
            regress_toks += [H(name), '0' if name in nopar_paths else '1']
        vars_.append(('regress', ' '.join(n for n, _ in conf['regress'])))
    if mode == 'canvas':
        canvas_toks = [str(len(conf['steps']))]
        for i, s in enumerate(conf['steps']):
            args = [S(a) for a in s['args']]
            lines.append('step %s command { %s }%s' % (q(s['name']), ' '.join(q(a) for a in args), ' parallel' if s['parallel'] else ''))
            canvas_toks += [H(s['name']), str(len(args))] + [H(a) for a in args]
    execdir = case.get('execdir')
    ed = S(execdir) if execdir else '/usr/local/libexec/robsd'
    defaults = [('exec-dir', ed), ('keep-dir', '${robsddir}/attic'), ('tmp-dir', '${builddir}/tmp'), ('stat-interval', '10'),
                ('keep-attic', '1'), ('keep', '0'), ('skip', ''), ('hook', ''), ('build-user', 'build'),
                ('comment-path', '${builddir}/comment'), ('report-path', '${builddir}/report'), ('tags-path', '${builddir}/tags'),
                ('arch', machine), ('machine', machine)]
    if conf.get('running') is not None:
        defaults.append(('builddir', S(conf['running'])))
    toks = [mode, str(len(vars_))]
    for k, v in vars_:
        toks += [H(k), H(v) if v else '-']
    toks.append(str(len(defaults)))
    for k, v in defaults:
        toks += [H(k), H(v) if v else '-']
    toks += regress_toks + canvas_toks
    toks += ['n'] if hook is None else [str(len(hook))] + [H(a) if a else '-' for a in hook]
    strings = [x for l in ([conf.get('canvas_name', 'x')], conf.get('skip') or [], conf.get('hook') or [],
                           [a for s in conf.get('steps', []) for a in s['args'] + [s['name']]],
                           [n for n, _ in conf.get('regress', [])]) for x in l]
    return '\n'.join(lines) + '\n', toks, conf_ok_for_lexer([S(x) for x in strings])


def case_ok(case):
    """cases the harness can express: no NUL in anything that travels through argv or the environment"""
    try:
        name = bytes.fromhex(case.get('name', ''))
    except ValueError:
        return False
    if b'\0' in name or name.startswith(b'-'):
        return False
    # KERNEL LIMIT: the runner itself cannot be started with an argument or environment string of MAX_ARG_STRLEN bytes
    if len(name) + 1 > MAX_ARG_STRLEN or any(len(B(k)) + len(B(v)) + 2 > MAX_ARG_STRLEN for k, v in (case.get('env_extra') or {}).items()):
        return False
    x = case.get('execdir')
    if x is not None and len(B(x)) + len('EXECDIR=') + 200 > MAX_ARG_STRLEN:
        return False
    for v in case.get('vs', []):
        if b'\0' in bytes.fromhex(v):
            return False
    return True


# ---- running the implementation ---------------------------------------------------------------------

class World:
    def __init__(self, ctx):
        self.ctx = ctx
        self.impl = ctx.build_impl()
        self.drv = ctx.build_driver('av', withz=True)
        self.work = ctx.mkscratch('c06')
        self.bin = os.path.join(self.work, 'bin')
        os.makedirs(self.bin)
        self.probe = os.path.join(self.bin, 'argvprobe')
        r = common.sh(['cc', '-O1', '-o', self.probe, os.path.join(common.VERIF, 'tools', 'argvprobe.c')])
        if r.returncode != 0:
            raise common.BuildFailure('argvprobe: ' + r.stdout[-1500:])
        shutil.copy(self.probe, os.path.join(self.bin, 'sh'))
        self.probe_bytes = open(self.probe, 'rb').read()
        open(os.path.join(self.bin, 'noexec'), 'w').write('#!/bin/sh\nexit 0\n')
        os.chmod(os.path.join(self.bin, 'noexec'), 0o644)
        m = re.search(r'#define\s+MACHINE\s+"([^"]*)"', open(os.path.join(self.impl, 'config.h')).read())
        self.machine = m.group(1) if m else 'unknown'
        self.n = 0
        self.delay_so = os.path.join(self.bin, 'argvdelay.so')
        r = common.sh(['cc', '-shared', '-fPIC', '-O1', '-o', self.delay_so, os.path.join(common.VERIF, 'tools', 'argvdelay.c'), '-ldl'])
        if r.returncode != 0:
            raise common.BuildFailure('argvdelay: ' + r.stdout[-1500:])
        # how long step_fork waits for the child's setsid(): waiteof(proc_pipe[0], <ms>)
        mm = re.search(r'waiteof\(proc_pipe\[0\],\s*(\d+)\)', open(os.path.join(common.REPO, 'step-exec.c')).read())
        if not mm:
            raise common.BuildFailure('step-exec.c: the handshake wait waiteof(proc_pipe[0], <ms>) was not found')
        self.handshake_ms = int(mm.group(1))
        # what execvp(NULL, {NULL}) does on this platform
        ne = os.path.join(self.bin, 'argvnullexec')
        r = common.sh(['cc', '-O1', '-w', '-o', ne, os.path.join(common.VERIF, 'tools', 'argvnullexec.c')])
        if r.returncode != 0:
            raise common.BuildFailure('argvnullexec: ' + r.stdout[-1500:])
        r = subprocess.run([ne], stdout=subprocess.PIPE, timeout=20)
        self.nullexec = r.stdout.decode().strip()
        if r.returncode != 0 or not re.fullmatch(r'x|w\d+', self.nullexec):
            raise common.BuildFailure('argvnullexec: no answer (%d, %r)' % (r.returncode, r.stdout))
        os.unlink(ne)
        # the parser model of C08/C10 (driver cf) and the facts about this machine it takes as inputs
        self.cf = ctx.build_driver('cf', withz=True)
        self.cw = cc.World(ctx, self.impl)

    def paths(self, i):
        d = os.path.join(self.work, 'c%d' % i)
        return {'dir': d, 'root': os.path.join(d, 'root'), 'probe': self.probe, 'bin': self.bin,
                'conf': os.path.join(d, 'conf'), 'dump': os.path.join(d, 'argv')}

    def prepare(self, case):
        self.n += 1
        p = self.paths(self.n)
        os.makedirs(p['root'])
        os.link(self.probe, os.path.join(p['root'], 'argvprobe'))
        # a command given as @DEEP(n)@: the probe linked at a path of exactly n bytes (only a path below PATH_MAX can exist)
        for m in DEEP_RE.finditer(json.dumps(case)):
            dp = deep_path(p['root'], int(m.group(1)))
            if dp is not None and len(dp) < 4096 and not os.path.exists(dp):
                os.makedirs(os.path.dirname(dp), exist_ok=True)
                os.link(self.probe, dp)
        text, toks, lexable = cfg_view(case, p, self.machine)
        open(p['conf'], 'wb').write(B(text))
        if case['conf'].get('running') is not None:
            open(os.path.join(p['root'], '.running'), 'wb').write(B(subst(case['conf']['running'], p) + '\n'))
        return p, toks, lexable

    def env(self, case, p):
        e = {'PATH': self.bin, 'ARGVPROBE_OUT': p['dump'], 'HOME': p['dir'], 'LC_ALL': 'C'}
        if case.get('execdir') is not None:
            e['EXECDIR'] = subst(case['execdir'], p)
        pr = case['probe']
        if 'exit' in pr:
            e['ARGVPROBE_EXIT'] = str(pr['exit'])
        if 'signal' in pr:
            e['ARGVPROBE_SIGNAL'] = str(pr['signal'])
        if 'timeout' in pr:
            e['ARGVPROBE_SLEEP'] = '30'
        if 'sleep' in pr:
            e['ARGVPROBE_SLEEP'] = str(pr['sleep'])
        if pr.get('closefds'):
            e['ARGVPROBE_CLOSEFDS'] = '1'
        if pr.get('core'):
            e['ARGVPROBE_CORE'] = '1'
        if case.get('slow_ms'):
            e['LD_PRELOAD'] = self.delay_so
            e['ARGVDELAY_SETSID_MS'] = str(case['slow_ms'])
        if case.get('env_extra'):
            # boundary class: environment strings of the given sizes must reach the command unchanged
            e.update(case['env_extra'])
            e['ARGVPROBE_ENVOUT'] = p['dump'] + '.env'
        return {B(k): B(v) for k, v in e.items()}

    def run(self, case, p):
        conf = case['conf']
        if case['kind'] == 'step':
            args = [os.path.join(self.impl, 'robsd-exec'), '-m', conf['mode'], '-C', p['conf']]
            xpos = case.get('xpos', 0)
            if case['trace']:
                # boundary class: where the trace flag stands among the options (getopt): last (default), first, between
                # -m and -C, glued to -m ("-xm"), last and followed by "--"
                if xpos == 1:
                    args.insert(1, '-x')
                elif xpos == 2:
                    args.insert(3, '-x')
                elif xpos == 3:
                    args[1:3] = ['-xm', conf['mode']]
                else:
                    args.append('-x')
            if xpos == 4:
                args.append('--')
            args.append(bytes.fromhex(case['name']))
        else:
            args = [os.path.join(self.impl, 'robsd-hook'), '-m', conf['mode'], '-C', p['conf']]
            for v in case['vs']:
                args += ['-v', bytes.fromhex(v)]
        try:
            if case.get('term_ms'):
                # a SIGTERM to the runner at a fixed time after its start (it has given up on the handshake by then and
                # is blocked in waitpid(pid)); the held-up child goes on and executes the command after the runner has left
                pr = subprocess.Popen(args, env=self.env(case, p), cwd=p['dir'], stdin=subprocess.DEVNULL,
                                      stdout=subprocess.PIPE, stderr=subprocess.PIPE)
                try:
                    out, err = pr.communicate(timeout=case['term_ms'] / 1000.0)
                except subprocess.TimeoutExpired:
                    pr.send_signal(signal.SIGTERM)
                    out, err = pr.communicate(timeout=40)
                rc = pr.returncode
                end = time.time() + case.get('slow_ms', 0) / 1000.0 + 2.0
                while not os.path.exists(p['dump']) and time.time() < end:
                    time.sleep(0.05)
                time.sleep(0.1)
            else:
                r = subprocess.run(args, env=self.env(case, p), cwd=p['dir'], stdin=subprocess.DEVNULL,
                                   stdout=subprocess.PIPE, stderr=subprocess.PIPE, timeout=40)
                rc, out, err = r.returncode, r.stdout, r.stderr
        except subprocess.TimeoutExpired:
            rc, out, err = -999, b'', b'harness timeout'
        dump = None
        if os.path.exists(p['dump']):
            raw = open(p['dump'], 'rb').read()
            dump = raw.split(b'\0')[:-1] if raw.endswith(b'\0') else None
        # the command left a core file in its working directory: the wait status carried the core-dump flag (0x80)
        p['core'] = any(f.startswith('core') for f in os.listdir(p['dir']))
        p['envdump'] = None
        if os.path.exists(p['dump'] + '.env'):
            p['envdump'] = open(p['dump'] + '.env', 'rb').read().split(b'\0')[:-1]
        return rc, out, err, dump


def classify_stderr(err, prog):
    """ordered list of diagnostic classes, in the vocabulary of the model.  A message starts at a line
    beginning with "<prog>: " and may span lines (configured strings may hold newlines)."""
    text = err.decode('latin1')
    starts = [m.start() for m in re.finditer(r'(?m)^%s: ' % re.escape(prog), text)]
    msgs = []
    if starts and text[:starts[0]].strip():
        msgs.append(text[:starts[0]])
    if not starts and text.strip():
        msgs.append(text)
    for i, st in enumerate(starts):
        msgs.append(text[st + len(prog) + 2:starts[i + 1] if i + 1 < len(starts) else len(text)])
    out = []
    for msg in msgs:
        msg = msg.rstrip('\n')
        mm = re.search(r'invalid substitution, (.*)$', msg, re.S)
        if mm:
            k = next((v for kk, v in KINDS.items() if mm.group(1).startswith(kk)), 'other')
            out.append('interp:' + k)
        elif msg.endswith(': step script not found'):
            out.append('notfound')
        elif msg.endswith(': empty step command'):
            out.append('emptycmd')
        elif re.match(r'^process group exited (-?\d+)$', msg):
            out.append('exited:' + re.match(r'^process group exited (-?\d+)$', msg).group(1))
        elif re.match(r'^(caught signal \d+, kill process group|sending term signal|sending kill signal)$', msg):
            continue
        elif msg == 'process group failure':
            out.append('groupfail')
        elif msg.startswith('missing variable separator in '):
            out.append('separator')
        elif re.match(r"^variable '.*' cannot be defined$", msg, re.S):
            out.append('reserved')
        elif re.search(r': (No such file or directory|Permission denied|Not a directory|Exec format error|Bad address|Is a directory|File name too long|Argument list too long)$', msg, re.S):
            out.append('exec')
        else:
            out.append('other')
    return out


def exec_target(argv0, w):
    """what the kernel does with execvp(argv0, ...) under PATH=<bin>: 'probe' or 'noexec'"""
    if argv0 is None:
        return 'noexec'
    a = os.fsdecode(argv0)
    if a == '' or '\0' in a:
        return 'noexec'
    c = a if '/' in a else os.path.join(w.bin, a)
    try:
        if os.path.isfile(c) and os.access(c, os.X_OK) and open(c, 'rb').read() == w.probe_bytes:
            return 'probe'
    except OSError:
        pass
    return 'noexec'


def obs_tokens(dump, rc, err):
    a = ['n'] if dump is None else [str(len(dump))] + [hexs(x) for x in dump]
    return a + [str(rc), '1' if err.strip() else '0']


def argv_tokens(a):
    return 'n' if a is None else ' '.join([str(len(a))] + [hexs(x) for x in a])


def effective_timeout(case):
    conf = case['conf']
    if conf['mode'] != 'robsd-regress' or not conf.get('timeout'):
        return 0
    return conf['timeout'] * {'s': 1, 'm': 60, 'h': 3600}[conf.get('timeout_unit', 's')]


def kernel_for(case, target, core=False):
    """(KX token for the oracle, kern token and gotsig for the model's run)"""
    pr = case['probe']
    if target == 'noexec':
        return 'x', 'x', 0
    if 'timeout' in pr:
        return 't', 'w15', 14             # the step is killed by the runner's SIGTERM after SIGALRM
    if 'sleep' in pr and 0 < effective_timeout(case) < pr['sleep']:
        return 't', 'w15', 14             # (generated with a margin of a second or more on either side)
    if 'signal' in pr and pr['signal'] not in IGNORED_SIGNALS:
        # a core file was written: the wait status carries the core-dump flag
        return 's%d' % pr['signal'], 'w%d' % (pr['signal'] + (128 if core else 0)), 0
    c = pr.get('exit', 0)
    return 'e%d' % c, 'w%d' % (c * 256), 0


VIEW_COST_CAP = 2 * 4097 ** 2


def view_cost(text, others=()):
    """the parser model of C08/C10 (driver cf) appends to its token buffer at the END of a list: quadratic in the length of a
    quoted string (measured: one string of 8 KiB 0.3 s per round, 16 KiB 1.6 s, 64 KiB 90 s, 128 KiB 8 min; two rounds
    per case).  The lane "view vs parsed configuration" is therefore CAPPED at configurations whose quoted strings have
    a sum of squared lengths of at most 2 * 8193^2; the larger classes are still run against the runner model and the
    oracles (driver av is linear: 128 KiB in 0.2 s), only this cross-check of the hand-built view is left out for them."""
    return sum(len(m) ** 2 for m in re.findall(rb'"([^"]*)"', text)) + sum(n ** 2 for n in others)


def run_driver_par(drv, lines, k=8):
    """common.run_driver over k processes: contiguous chunks of about equal weight (the 64 / 128 KiB classes make a few
    lines a thousand times heavier than the rest); answers in the order of the questions"""
    if len(lines) < 4 * k:
        return common.run_driver(drv, lines)
    total = sum(len(l) + 2000 for l in lines)
    chunks, cur, acc = [], [], 0
    for l in lines:
        cur.append(l)
        acc += len(l) + 2000
        if acc >= total / k and len(chunks) < k - 1:
            chunks.append(cur)
            cur, acc = [], 0
    if cur:
        chunks.append(cur)
    with ThreadPoolExecutor(k) as ex:
        return [a for part in ex.map(lambda c: common.run_driver(drv, c), chunks) for a in part]


def check_view(w, cases, prepared, a1, res, src=None):
    """the view the harness builds by hand (cfg_view) against what the parser model of C08/C10 makes of the same file:
    `resolve` of driver cf on the configuration text must give the vector `expect` of driver av gives on the view"""
    qs, envcases, idx = [], [], []
    for i, (c, (p, toks, lexable)) in enumerate(zip(cases, prepared)):
        if c['kind'] != 'step' or not lexable:
            continue
        text = open(p['conf'], 'rb').read()
        if view_cost(text, (len(c['name']) // 2, len(subst(c.get('execdir') or '', p)))) > VIEW_COST_CAP:
            res.count('view vs parsed configuration: CAPPED (a quoted string beyond ~8 KiB: the parser model is quadratic)')
            continue
        x = c.get('execdir')
        envcases.append({'execdir': None if x is None else H(subst(x, p))})
        qs.append((len(envcases) - 1, ['resolve', c['conf']['mode'], hexs(text), str(c['trace']), c['name'] or '-']))
        idx.append(i)
    if not qs:
        return
    answers, _ = cc.driver_rounds(w.cw, w.cf, qs, envcases, lambda pre, env: ' '.join(pre + env))
    for i, a in zip(idx, answers):
        view = a1[i]
        want = 'none' if view == 'E' else 'cmd' + view[1:]
        res.count('view vs parsed configuration: ' + ('agree' if a == want else 'DIFFER'))
        res.extra['view_checked'] = res.extra.get('view_checked', 0) + 1
        if a != want:
            res.disagreements.append({'case': (src or cases)[i], 'what': 'the hand-built configuration view and the parsed configuration file resolve differently',
                                      'model': 'view: ' + view[:200], 'impl': 'parsed text (model of C08/C10): ' + a[:200]})


def evaluate(ctx, cases, res, world=None):
    w = world or World(ctx)
    # cases arrive in the compact notation (@FILL(n,text)@, steps_gen, ...): `src` is what is reported and replayed,
    # `cases` what is run
    src = [c for c in cases if case_ok(expand_case(c))]
    cases = [expand_case(c) for c in src]
    for i, c in enumerate(cases):
        if 'slow_rel' in c:
            # delay relative to the time step_fork waits for the group (read from the source)
            cases[i] = dict(c, slow_ms=max(1, w.handshake_ms + c['slow_rel']))
    prepared = [w.prepare(c) for c in cases]
    with ThreadPoolExecutor(16) as ex:
        obs = list(ex.map(lambda cp: w.run(cp[0], cp[1][0]), zip(cases, prepared)))
    # pass 1: what does the specification expect to be executed (decides what the kernel will do with it)
    q1 = []
    for c, (p, toks, _) in zip(cases, prepared):
        if c['kind'] == 'step':
            q1.append(' '.join(['expect', str(c['trace']), c['name'] or '-'] + toks))
        else:
            q1.append(' '.join(['xhook', str(len(c['vs']))] + [v or '-' for v in c['vs']] + toks))
    a1 = run_driver_par(w.drv, q1)
    check_view(w, cases, prepared, a1, res, src)
    q2, meta, alt = [], [], {}
    for c, (p, toks, _), a, (rc, out, err, dump) in zip(cases, prepared, a1, obs):
        t = a.split()
        exp_argv = None
        if t and t[0] == 'R' and int(t[1]) > 0:
            exp_argv = [common.unhex(x) for x in t[2:]]
        target = exec_target(exp_argv[0] if exp_argv else None, w)
        if exp_argv and any(len(x) + 1 > MAX_ARG_STRLEN for x in exp_argv):
            # KERNEL LIMIT (class "outside" what a command can be handed): execve refuses a single argument string of
            # MAX_ARG_STRLEN (32 pages) bytes or more incl. the NUL with E2BIG - the model is told "execvp fails"
            target = 'noexec'
            res.count('class: rendered argument at MAX_ARG_STRLEN (131072 with the NUL): execve fails with E2BIG')
        kx, kern, gotsig = kernel_for(c, target, p.get('core', False))
        if c['kind'] == 'step' and a == 'R 0':
            # nothing is left of the command: the child calls execvp(NULL, {NULL}); the kernel function of the model
            # answers what this platform was measured to do (tools/argvnullexec.c)
            kern = w.nullexec
        meta.append((exp_argv, target, kx))
        if c['kind'] == 'step':
            late_line = ' '.join(['runfork', 'c', str(c['trace']), c['name'] or '-', kern, str(gotsig),
                                  'lateintr' if c.get('term_ms') else 'late'] + toks)
            if c.get('slow_ms') and c.get('slow') == 'intime':
                # the child is delayed, but clearly less than step_fork waits: nothing special may happen
                q2.append(' '.join(['run', 'c', str(c['trace']), c['name'] or '-', kern, str(gotsig)] + toks))
            elif c.get('slow_ms') and c.get('slow') == 'either':
                # the delay is AT the limit (within the jitter of 1000 x usleep(1 ms)): the runner must do what the model
                # does for a handshake in time or what it does for a late one - nothing else
                q2.append(' '.join(['run', 'c', str(c['trace']), c['name'] or '-', kern, str(gotsig)] + toks))
                alt[len(meta) - 1] = late_line
            elif c.get('slow_ms'):
                # the child reaches setsid() only after the parent has given up on the handshake
                q2.append(late_line)
            else:
                q2.append(' '.join(['run', 'c', str(c['trace']), c['name'] or '-', kern, str(gotsig)] + toks))
            q2.append(' '.join(['okstep', str(c['trace']), c['name'] or '-', kx] + obs_tokens(dump, rc, err) + toks))
        else:
            q2.append(' '.join(['hook', str(len(c['vs']))] + [v or '-' for v in c['vs']] + ['1' if target == 'probe' else '0'] + toks))
            q2.append(' '.join(['okhook', str(len(c['vs']))] + [v or '-' for v in c['vs']] + [kx] + obs_tokens(dump, rc, err) + toks))
    alt_i = sorted(alt)
    a2 = run_driver_par(w.drv, q2 + [alt[i] for i in alt_i])
    alt_ans = dict(zip(alt_i, a2[len(q2):]))
    for i, (c, (p, toks, lexable), (rc, out, err, dump), (exp_argv, target, kx)) in enumerate(zip(cases, prepared, obs, meta)):
        res.evaluations += 1
        c0 = src[i]
        model, ok = a2[2 * i], a2[2 * i + 1]
        if c['kind'] == 'step' and kx == 'x' and model.startswith('E ') and not model.startswith('E n '):
            # execvp failed in the child: the vector was built but no command ever saw it
            model = 'E n ' + ' '.join(model.split()[-2:])
        prog = 'robsd-exec' if c['kind'] == 'step' else 'robsd-hook'
        classes = classify_stderr(err, prog)
        if not lexable:
            # a configured string the lexer cannot carry (empty, or with a double quote): outside this harness
            res.count('skipped: string not expressible in the configuration language')
            continue
        if c['kind'] == 'step':
            if rc < 0:
                impl_s = 'C' if rc == -signal.SIGSEGV else 'K%d' % -rc
            else:
                impl_s = 'E %s %d %s' % (argv_tokens(dump), rc, ','.join(classes) if classes else '-')
            shape = ('crash' if model == 'C' else 'run' if model.startswith('E ') and not model.startswith('E n') else 'error')
            res.count('step mode=%s model=%s kx=%s' % (c['conf']['mode'], shape, kx[0]))
        else:
            if dump is not None:
                impl_s = 'X ' + argv_tokens(dump)
            elif rc == 0 and not err.strip():
                impl_s = 'N'
            else:
                impl_s = 'F %d %s' % (rc, classes[0] if classes else '-')
            res.count('hook mode=%s model=%s kx=%s' % (c['conf']['mode'], model.split()[0], kx[0]))
        empty_cmd = c['kind'] == 'step' and a1[i] == 'R 0'
        if empty_cmd:
            # PREDICATE ON THE CASE: the specification expects the empty vector (every element of the command rendered
            # empty).  Since /repo 8e76449 step_exec refuses it ("empty step command", status 1, nothing forked); the model
            # follows the source (switch Gen_Exec.empty_command_checked).  Without that test the child calls
            # execvp(NULL, {NULL}), undefined in POSIX: glibc dereferences the name (the forked child - still robsd-exec's
            # own code - dies from SIGSEGV, the runner reports 139), other C libraries return -1 and the child leaves
            # through err(1); the model is then given the measured platform answer, so the status IS compared, and the
            # property's "non-zero status with a diagnostic RATHER THAN A CRASH" is judged below (fires if the fix is reverted).
            res.count('step: every element rendered empty (execvp(NULL)); this platform: %s' % w.nullexec)
        if dump is not None and exp_argv is not None and dump == exp_argv:
            if kx[0] == 's':
                res.extra.setdefault('signals_delivered', set()).add(int(kx[1:]))
            elif kx[0] == 'e':
                res.extra.setdefault('exit_codes_passed', set()).add(int(kx[1:]))
        if nontrivial(c):
            res.nontrivial.add(hashlib.sha1(json.dumps(c0, sort_keys=True).encode()).hexdigest())
        for k in classes_of(c, p, exp_argv, dump):
            res.count('class: ' + k)
        late = bool(c.get('slow_ms')) and c.get('slow') != 'intime'
        if i in alt_ans:
            # delay at the limit: either model answer is right; which one it was decides how the case is read below
            late = model != impl_s and alt_ans[i] == impl_s
            res.count('class: setsid delayed AT the handshake limit (%d ms of %d): the runner %s' % (
                c['slow_ms'], w.handshake_ms, 'gave up' if late else 'saw the group in time' if model == impl_s else 'did NEITHER'))
            if late:
                model = alt_ans[i]
        elif c.get('slow') == 'intime':
            res.count('class: setsid delayed below the handshake limit (%d ms of %d)' % (c['slow_ms'], w.handshake_ms))
        if model != impl_s:
            res.disagreements.append({'case': c0, 'model': model, 'impl': impl_s, 'stderr': err[-300:].decode('latin1')})
        if late:
            res.count('step: fork handshake timed out (setsid delayed %d ms) kx=%s' % (c['slow_ms'], kx[0]))
            res.extra['handshake_cases'] = res.extra.get('handshake_cases', 0) + 1
        if c.get('env_extra') and dump is not None:
            # model-independent: the runner hands its own environment to the command, unchanged (the property's "and
            # nothing else"; observe_at: "argv/environment dumped by a probe")
            want = sorted(k + b'=' + v for k, v in w.env(c, p).items())
            if p['envdump'] is None or sorted(p['envdump']) != want:
                got = p['envdump'] or []
                res.oracle_failures.append({'case': c0, 'signature': 'environment-not-passed-through',
                                            'what': 'the command saw %d environment strings, the runner was started with %d; first '
                                                    'difference: %r' % (len(got), len(want), sorted(set(got) ^ set(want))[:1]),
                                            'impl': impl_s})
        if empty_cmd and c['kind'] == 'step' and rc >= 128 and 'exited:%d' % rc in classes:
            # the literal reading of "rather than a crash" (theorem C06_empty_argv_no_crash_refuted): nothing could be
            # started, and the outcome is the death of robsd-exec's own forked child from signal rc-128, reported only
            # as "process group exited <rc>"
            res.oracle_failures.append({'case': c0, 'signature': 'empty-command-child-crashes',
                                        'what': 'every element of the command of the step renders empty: the forked child of robsd-exec '
                                                'calls execvp(NULL, ...) and dies from signal %d (glibc); robsd-exec exits %d and names no '
                                                'reason ("process group exited %d")' % (rc - 128, rc, rc),
                                        'impl': impl_s, 'expected': a1[i], 'stderr': err[-300:].decode('latin1')})
        if c.get('term_ms'):
            # OUTSIDE the property's quantifier (inputs and configurations): a signal was sent to the RUNNER.  What a
            # SIGTERM does to the step is C07's subject (known finding signal-during-group-failure); here the oracle does
            # not judge the status, the model (run_fork/HsLateIntr, proved to be C07's transition system on this path:
            # C06_late_handshake_sigterm) is compared with the implementation above.
            res.count('outside: SIGTERM sent to the runner on the "process group failure" path (model compared, oracle not applied)')
        elif ok != '1':
            sig, what = classify_failure(c, rc, dump, err, exp_argv, kx, a1[i])
            f = {'case': c0, 'signature': sig, 'what': what, 'impl': impl_s, 'expected': a1[i], 'stderr': err[-300:].decode('latin1')}
            # KNOWN FINDING handshake-timeout-masks-exit-zero, recognised by a predicate on the CASE: the shim delayed the
            # child's setsid() beyond the time step_fork waits for it (read from the source) AND the command was arranged
            # to exit 0 - plus the exact shape the theorem C06_exit_zero_iff_refuted_handshake predicts (the command ran
            # with its vector, the runner said "process group failure" and exited 1).  Anything else on such a case keeps
            # its own signature.
            if (c.get('slow_ms', 0) > w.handshake_ms and kx == 'e0' and sig == 'exit-status-not-faithful'
                    and dump is not None and dump == exp_argv and rc == 1 and classes == ['groupfail']):
                f['signature'] = 'handshake-timeout-masks-exit-zero'
                f['what'] = ('the command ran and exited 0, robsd-exec printed "process group failure" and exited 1 '
                             '(step_fork gave up waiting %d ms for setsid() in the child, which the shim delayed by %d ms)'
                             % (w.handshake_ms, c['slow_ms']))
            res.oracle_failures.append(f)
        elif c['kind'] == 'hook' and dump is not None and exp_argv is not None:
            # the probe replaced robsd-hook: its status must be the requested one
            pr = c['probe']
            want = -pr['signal'] if ('signal' in pr and pr['signal'] not in IGNORED_SIGNALS) else pr.get('exit', 0)
            if rc != want:
                res.oracle_failures.append({'case': c0, 'signature': 'hook-status-not-the-commands',
                                            'what': 'robsd-hook ended with %d, the command with %d' % (rc, want), 'impl': impl_s})
    return w


def nontrivial(c):
    conf = c['conf']
    if c['kind'] == 'hook':
        return bool(conf.get('hook')) and any('$' in a or ' ' in a for a in conf['hook'])
    if conf['mode'] == 'canvas':
        return any(('$' in a or ' ' in a or '*' in a) for s in conf['steps'] for a in s['args'])
    return True


def classify_failure(c, rc, dump, err, exp_argv, kx, expectation):
    if rc < 0 and c['kind'] == 'step':
        if expectation == 'E':
            return ('exec-crash-on-uninterpolatable-command' if rc == -signal.SIGSEGV and b'invalid substitution' in err
                    else 'exec-runner-killed-by-signal',
                    'robsd-exec died from signal %d instead of reporting an error (stderr: %s)' % (-rc, err[-120:].decode('latin1')))
        return 'exec-runner-killed-by-signal', 'robsd-exec died from signal %d' % -rc
    if exp_argv is None or kx == 'x':
        if dump is not None:
            return 'executed-although-unresolvable', 'a command ran (%d arguments) where the specification has none' % len(dump)
        if rc == 0:
            return 'unresolvable-not-an-error', 'exit 0 where the step/hook cannot be resolved or started'
        return 'failure-without-diagnostic', 'exit %d and nothing on stderr' % rc
    if dump is None:
        return 'command-not-executed', 'the command was not executed (exit %d)' % rc
    if dump != exp_argv:
        if len(dump) > len(exp_argv) and [a for a in dump if a != b''] == [a for a in exp_argv if a != b'']:
            return 'empty-argument-not-dropped', 'argv holds empty strings the specification drops: %d vs %d arguments' % (len(dump), len(exp_argv))
        if len(dump) < len(exp_argv) and [a for a in exp_argv if a != b''] == [a for a in dump if a != b'']:
            return 'empty-argument-dropped', 'argv lacks empty strings the specification keeps: %d vs %d arguments' % (len(dump), len(exp_argv))
        if b' '.join(dump) == b' '.join(exp_argv):
            return 'argument-split-or-joined', 'same words, different argument boundaries: %d vs %d arguments' % (len(dump), len(exp_argv))
        return 'argv-differs', 'argv differs from the configured list rendered: got %r' % ([a[:40] for a in dump][:8],)
    return 'exit-status-not-faithful', 'exit status %d for a command that did %s' % (rc, kx)


# ---- the translated leaf function against the compiled one ----------------------------------------------

def check_exitstatus(ctx, w, res):
    exe = os.path.join(w.work, 'c06_exitstatus')
    objs = [o for o in sorted(glob.glob(os.path.join(w.impl, '*.o')))
            if not re.match(r'^(robsd-|fuzz-|step-exec\.o$)', os.path.basename(o))]
    r = common.sh(['cc', '-DROBSD_VERIF', '-w', '-I' + w.impl, '-o', exe, os.path.join(common.VERIF, 'harness', 'c06_exitstatus.c')] + objs)
    if r.returncode != 0:
        raise common.BuildFailure('c06_exitstatus: ' + r.stdout[-1500:])
    out = subprocess.run([exe], stdout=subprocess.PIPE, timeout=120).stdout.decode().split('\n')[:-1]
    rows = [tuple(int(x) for x in l.split()) for l in out]
    ans = common.run_driver(w.drv, ['exit %d %d' % (st, sg) for st, sg, _ in rows])
    bad_tr, bad_spec = [], []
    for (st, sg, v), a in zip(rows, ans):
        m, s = a.split()
        if m != str(v):
            bad_tr.append((st, sg, v, m))
        if s != str(v):
            bad_spec.append((st, sg, v, s))
    res.extra['exitstatus_pairs_compared'] = len(rows)
    res.count('exitstatus: (status, signal) pairs compiled vs translated vs exit_spec', len(rows))
    if bad_tr:
        res.tie_errors.append('exitstatus: the Gallina translation differs from the compiled function on %d of %d pairs, first %r'
                              % (len(bad_tr), len(rows), bad_tr[0]))
    # the compiled function against the arithmetic specification, on statuses waitpid() produces
    for st, sg, v, s in bad_spec:
        kernel = (st & 0x7f) == 0 and 0 <= st < 65536 or (1 <= (st & 0x7f) <= 126 and st < 256)
        if kernel:
            res.oracle_failures.append({'case': {'kind': 'exit', 'status': st, 'signal': sg}, 'signature': 'exit-status-mapping',
                                        'what': 'compiled exitstatus(%d, %d) = %d, the property demands %s' % (st, sg, v, s)})
            break
    return len(rows)


# ---- entry points ------------------------------------------------------------------------------------------

def load_corpus():
    d = os.path.join(common.VERIF, 'corpus', 'C06')
    files = sorted(glob.glob(os.path.join(d, '*.json')))
    if not files:
        raise common.BuildFailure('corpus/C06 is missing or empty: the cases of the repaired and known findings would not run')
    out = []
    for p in files:
        x = json.load(open(p))
        out += x if isinstance(x, list) else [x]         # b06_<class>.json: one list per class family
    return out


def run(ctx, n=None, exits_all=None):
    res = common.Result()
    res.rule = ('robsd-exec: canvas configurations (1-4 steps, commands of 1-6 elements over plain words with spaces, quotes, glob and shell '
                'characters, = and newlines; ${var} alone, embedded, twice, resolving to empty / to strings with spaces / to integers / '
                'through nested values / failing in 15 ways, in the requested step or in another one; first element the probe, `sh` via '
                'PATH, ${canvas-dir}/argvprobe, missing, not executable, rendering empty; duplicate and shadowing step names; unknown '
                'names) and the four script modes (every static step, regress entries incl. names colliding with static steps, EXECDIR '
                'with spaces, globs, =, nested ${robsddir}, failing; a stream of robsd-regress configurations with two or more names failing to '
                'interpolate in different ways and paths written twice with and without no-parallel), trace on/off; the command exits with a code in 0..255, dies from '
                'every signal but the stopping ones, or outlives regress-timeout; a few runs with the forked child held up before setsid() '
                '(LD_PRELOAD, tools/argvdelay.c) so that the fork handshake of step_fork times out (model run_fork/HsLate); every step case '
                'also resolved by the parser model of C08/C10 on the configuration FILE and compared with the hand-built view.  '
                'robsd-hook: all five modes, hook unset / empty / 1-6 '
                'elements, -v variables (empty, spaces, =, nested, failing, missing separator, reserved, shadowing defaults).  '
                'BOUNDARY CLASSES (generated with small probability + one corpus case per value, counted as "class: ..."): configured and '
                'rendered argument lengths 1, 127-129, 254-256, 1023-1025, 2047-2049, 4095-4097, 8191-8193, 65535/65536, 131071 and 131072 '
                '(MAX_ARG_STRLEN: execve fails, E2BIG); variable values and list elements of those sizes, arguments of 16/17/64/65 '
                'references; 1, 2, 15-17, 31-33, 63-65, 255/256 arguments (also after dropping empty ones), 1, 14-17, 30-33, 62-65 canvas '
                'steps with the requested one first / last / at 15, 16, 31, 32, 63, 64 / the appended end / missing, 15-17 ... 63-65, 256 '
                'regress entries; step names that are prefixes of each other, differ in case, are byte-adjacent, contain = , - . / blank '
                'newline, names of 254-256, 1023-1025, 4095-4097, 65535/65536 bytes that are prefixes of each other; regress paths of '
                '238-240 ... 4097 bytes; every byte 1..255 in arguments; EXECDIR of 254 ... 4097, 65536 bytes; a command path of '
                '254 ... 4095 bytes and 4096/4097 (PATH_MAX: ENAMETOOLONG); environment strings up to MAX_ARG_STRLEN - 1 handed through; '
                'position of -x; core-dump flag, closed descriptors; regress-timeout 0, 2^31-1 s, the largest m / h values, 257 / 65536 / '
                '65537 s against a 2 s command; setsid delayed below / at / above the handshake limit; robsd-hook with 1 ... 256 elements '
                'and -v options, elements / values / names up to 64 KiB.  '
                'non-trivial = the command of the case contains a reference, a blank or a glob character (script modes: always); '
                'distinct by content hash')
    w = World(ctx)
    check_exitstatus(ctx, w, res)
    n = n or ctx.budget(420, 40000)
    rng = ctx.rng
    cases = load_corpus()
    # every exit code / every signal at least once
    if exits_all is None:
        exits_all = ctx.tier == 'thorough'
    pool = [{'signal': s, 'exit': 0} for s in ALL_SIGNALS]
    pool += [{'exit': e} for e in (range(256) if exits_all else INTERESTING_EXITS + [rng.randint(0, 255) for _ in range(40)])]
    for pr in pool:
        cases.append(gen_run_case(rng, pr))
    for _ in range(n):
        cases.append(gen_step_case(rng))
    for _ in range(ctx.budget(16, 400)):
        cases.append(gen_multifail_case(rng))
    for _ in range(ctx.budget(2, 6)):
        cases.append(gen_timeout_case(rng))
    for _ in range(ctx.budget(5, 16)):
        cases.append(gen_slow_case(rng))
    for _ in range(ctx.budget(2, 8)):
        cases.append(gen_slow_term_case(rng))
    for _ in range(max(60, n // 2)):
        cases.append(gen_hook_case(rng))
    # boundary size / shape classes (one deterministic case per class value is in corpus/C06/b06_*.json)
    for _ in range(ctx.budget(70, 3000)):
        cases.append(gen_boundary_case(rng))
    for _ in range(ctx.budget(6, 60)):
        cases.append(gen_status_case(rng))
    cases += gen_slow_classes(rng, ctx.budget(2, 8), ctx.budget(3, 12))
    res.samples = [c for c in cases if c['kind'] == 'step'][1:3] + [c for c in cases if c['kind'] == 'hook'][:1]
    for i in range(0, len(cases), 2000):
        evaluate(ctx, cases[i:i + 2000], res, world=w)
        for d in glob.glob(os.path.join(w.work, 'c[0-9]*')):
            shutil.rmtree(d, ignore_errors=True)
    res.traces_validated = res.evaluations
    for k in ('signals_delivered', 'exit_codes_passed'):
        res.extra[k] = sorted(res.extra.get(k, []))
    missing = [s_ for s_ in ALL_SIGNALS if s_ not in IGNORED_SIGNALS and s_ not in res.extra['signals_delivered']]
    if missing and not res.oracle_failures and not res.disagreements:
        res.tie_errors.append('generator: no case delivered signal(s) %r to a command' % missing)
    res.extra['find_step_null_checked_in_source'] = common.run_driver(w.drv, ['variant'])[0] == '1'
    res.extra['empty_command_checked_in_source'] = common.run_driver(w.drv, ['emptychk'])[0] == '1'
    return res


def extended_search(ctx, res, proof):
    return run(ctx, n=4000, exits_all=True)


def replay(ctx, rep):
    if isinstance(rep, list):          # a corpus file with one case per class value
        res = common.Result()
        evaluate(ctx, rep, res)
        print('cases: %d, disagreements: %s' % (len(rep), json.dumps(res.disagreements, indent=1)[:3000]))
        print('oracle failures:', json.dumps([(f['signature'], f['what']) for f in res.oracle_failures], indent=1)[:3000])
        print('classes:', json.dumps({k: v for k, v in res.distribution.items() if k.startswith('class: ')}, indent=1))
        return 1 if (res.disagreements or res.tie_errors or
                     [f for f in res.oracle_failures if not common.match_known(ctx.pid, f.get('signature'))]) else 0
    case = rep.get('case') or (rep.get('first_disagreements') or [{}])[0].get('case') or (rep if 'kind' in rep else None)
    if case is None:
        print(json.dumps(rep, indent=1)[:3000])
        return 1
    res = common.Result()
    if case.get('kind') == 'exit':
        w = World(ctx)
        check_exitstatus(ctx, w, res)
        print('translator/tie:', res.tie_errors)
    else:
        w = evaluate(ctx, [case], res)
        p = w.paths(w.n)
        print('configuration file:\n' + open(p['conf']).read())
    print('case:', json.dumps(case))
    print('disagreements (model vs implementation):', json.dumps(res.disagreements, indent=1))
    print('oracle failures (spec_ok on the implementation):', json.dumps(res.oracle_failures, indent=1))
    unknown = []
    for f in res.oracle_failures:
        k = common.match_known(ctx.pid, f.get('signature'))
        if k:
            print('KNOWN-FINDING: property=%s %s' % (ctx.pid, k['what']))
        else:
            unknown.append(f)
    return 1 if (res.disagreements or unknown or res.tie_errors) else 0
