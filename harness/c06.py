"""C06 - step and hook commands get their exact arguments; exit status is faithful.

Correspondence, process level: the real robsd-exec / robsd-hook (rebuilt from the working tree)
run generated configurations whose commands are tools/argvprobe.c (also installed as `sh` on
PATH, so the script template of the script modes reaches it), which dumps its argument vector
NUL-separated and then exits with a requested code, kills itself with a requested signal or
outlives regress-timeout.  The extracted Coq model (Exec/ArgvDefs.v through driver `av`) is run
on the abstract view of the same configuration; the extracted oracles spec_ok_step /
spec_ok_hook (Exec/ArgvSpec.v) are applied to what the IMPLEMENTATION did.

Tie of the translated leaf function: harness/c06_exitstatus.c #includes step-exec.c and prints
the compiled exitstatus() for every 16-bit status (and wider ones) x {0, SIGALRM, SIGTERM};
every line is compared with the Gallina translation (Gen_Exec.exitstatus) and with exit_spec.
"""
import glob, hashlib, json, os, re, shutil, signal, subprocess, time
from concurrent.futures import ThreadPoolExecutor
import common
from common import hexs
import conf_common as cc

TRANSLATORS = ['t_interp', 't_exec']
TRUSTED = [
    'translator t_exec.py (clang JSON AST of exitstatus via the T2 translator of t_arith.py + (signed char) casts; anchored regular '
    'expressions for the argv template, the step tables, the grammar keyword lists and the two known bodies of find_step), '
    'validated per run against the compiled exitstatus() on 196k (status, signal) pairs',
    'ASSUMED, not verified: the kernel (fork, setsid, execvp, waitpid, signal delivery) - it enters the theorems as the universally '
    'quantified function from an argument vector to "execvp failed" or a wait status, and gotsig; glibc encodes wait statuses as '
    'bits/waitstatus.h says',
    'the configuration is abstracted as a view (variables as config_interpolate_lookup renders them, rendered defaults, step list, '
    'hook list); Exec/SchedBridge.v proves that the runner on the PARSED configuration (C08/C10 model of the file) is this runner on '
    'the view of the parsed configuration; the view the harness builds by hand next to every file (cfg_view) is compared on every '
    'step case with what the parser model makes of the file (driver cf `resolve`, lane "view vs parsed configuration")',
    'tools/argvdelay.c (LD_PRELOAD: setsid sleeps) stands for a child that is not scheduled within the second step_fork waits',
    'tools/argvnullexec.c: what execvp(NULL, {NULL}) does on THIS platform (glibc: the caller dies from SIGSEGV; other C libraries '
    'return -1) is measured once per check and handed to the model as the kernel\'s answer for the empty vector; the property\'s '
    '"rather than a crash" is judged on the runner\'s status (128+N = the forked child of robsd-exec died from signal N)',
    'C09\'s model of interpolate.c (Interp/InterpDefs.v) is reused for every argument',
    'tools/argvprobe.c (probe), harness/c06_exitstatus.c; a stopped (SIGSTOP/SIGTSTP/...) step is not exercised (the runner waits for it)',
]

KINDS = {"expected '{'": 'brace', "expected '}'": 'close', 'empty variable name': 'empty',
         'unknown variable': 'unknown', 'recursion too deep': 'deep'}
MODES = ['robsd', 'robsd-cross', 'robsd-ports', 'robsd-regress', 'canvas']
STOP_SIGNALS = {19, 20, 21, 22}
IGNORED_SIGNALS = {17, 18, 23, 28}          # default action: ignore / continue
ALL_SIGNALS = [s for s in range(1, 65) if s not in STOP_SIGNALS]
INTERESTING_EXITS = [0, 1, 2, 3, 64, 123, 124, 125, 126, 127, 128, 129, 137, 139, 143, 254, 255]


def H(s):
    return (s if isinstance(s, bytes) else s.encode()).hex()


# ---- generators ---------------------------------------------------------------------------------

PLAIN = ['a', 'b', '-x', '-eu', '--flag=value', 'k=v', '=', '==x', 'two words', ' lead', 'trail ', 'a  b', 'tab\there',
         'l1\nl2', "it's", "'q'", 'back\\slash', '\\', '`id`', '*', '?', '[a-z]*', '*.c', '~', '{a,b}', '#c', ';', '&&', '|', '>',
         '<', '!', '%s%n', '-', '--', '0', 'x' * 300]
# arguments around and beyond the sizes at which the buffers behind interpolation grow (1 KiB, 2 KiB, ...)
LONG = ['y' * 1023, 'y' * 1024, 'z' * 1500, 'w' * 2048, 'v' * 5000, ('ab ' * 400), '${canvas-dir}/' + 'p' * 1100, 'q' * 1010 + '${canvas-name}']
REF_OK = ['${canvas-name}', '${canvas-dir}', '${robsddir}', '${keep}', '${skip}', '${keep-dir}', '${exec-dir}', '${trace}',
          '${stat-interval}', '${keep-attic}', '${hook}']
REF_EMPTYISH = ['${skip}', '${trace}', '${hook}']
REF_BAD = ['$', '${', '${}', '$x', '$$', '${nope}', '${step}', 'kill -9 $$', '$(id)', '${canvas-name', 'a$', '${ keep}', '${a b}',
           '${builddir}', '${tmp-dir}']


def gen_arg(rng, allow_bad):
    r = rng.random()
    if r < 0.05:
        return rng.choice(LONG)
    if r < 0.40:
        return rng.choice(PLAIN)
    if r < 0.55:
        return rng.choice(REF_OK)
    if r < 0.65:
        return rng.choice(REF_EMPTYISH)
    if r < 0.85:
        return rng.choice(PLAIN[:14]) + rng.choice(REF_OK) + rng.choice(['', 'post', ' ', '/x y', rng.choice(REF_OK)])
    if allow_bad:
        return rng.choice(REF_BAD)
    return rng.choice(REF_EMPTYISH) + rng.choice(REF_EMPTYISH)


def gen_cmd0(rng):
    r = rng.random()
    if r < 0.62:
        return '@PROBE@'
    if r < 0.70:
        return 'sh'
    if r < 0.78:
        return '${canvas-dir}/argvprobe'
    if r < 0.84:
        return rng.choice(['@BIN@/missing', '/nonexistent/dir/x', 'no-such-command', '@ROOT@'])
    if r < 0.90:
        return '@BIN@/noexec'
    if r < 0.97:
        return '${skip}'            # renders empty: dropped, the next element becomes the command
    return rng.choice(['${nope}', '$'])


def gen_probe(rng, thorough_pool=None):
    if thorough_pool:
        return thorough_pool.pop()
    r = rng.random()
    if r < 0.30:
        return {'exit': 0}
    if r < 0.65:
        return {'exit': rng.choice(INTERESTING_EXITS) if rng.random() < 0.5 else rng.randint(0, 255)}
    return {'signal': rng.choice(ALL_SIGNALS), 'exit': rng.choice([0, 7])}


def gen_canvas_conf(rng, want):
    """want: 'ok' | 'badother' | 'badself' | 'any'"""
    conf = {'mode': 'canvas', 'canvas_name': rng.choice(['t', 'my canvas', "it's *", 'N-${keep}', 'n${skip}', '${canvas-dir}/x']),
            'keep': rng.choice([None, None, 0, 3, 2147483647]),
            'skip': rng.choice([None, None, [], ['a b', 'c'], ['*'], ['x']]),
            'hook': rng.choice([None, None, None, [], ['h1', 'h 2']]),
            'running': rng.choice([None, None, None, '@ROOT@/2024-01-01.1', 'b d']),
            'steps': []}
    n = rng.randint(1, 4)
    names = ['s1', 's2', 'two words', 'end', 'ENV', 'x*', 's1']
    for i in range(n):
        k = rng.randint(0, 5)
        args = [gen_cmd0(rng) if want != 'ok' or rng.random() < 0.9 else '@PROBE@'] + [gen_arg(rng, False) for _ in range(k)]
        if rng.random() < 0.08:
            args = [rng.choice(REF_EMPTYISH) for _ in range(rng.randint(1, 3))]      # everything dropped
        conf['steps'].append({'name': rng.choice(names) if rng.random() < 0.5 else 's%d' % (i + 1), 'args': args,
                              'parallel': rng.random() < 0.2})
    if want == 'ok':
        for s in conf['steps']:
            s['args'] = [a for a in s['args'] if a not in ('${nope}', '$')] or ['@PROBE@']
    if want in ('badother', 'badself'):
        victim = rng.randrange(len(conf['steps']))
        s = conf['steps'][victim]
        s['args'].insert(rng.randint(0, len(s['args'])), rng.choice(REF_BAD))
        conf['_bad'] = victim
    if rng.random() < 0.03:
        conf['trace_cached'] = True          # canvas-dir "${trace}<root>": ${trace} evaluated (and stored) while parsing
    return conf


def gen_step_case(rng, probe=None):
    r = rng.random()
    trace = 1 if rng.random() < 0.4 else 0
    if r < 0.62:
        want = rng.choice(['ok'] * 6 + ['any', 'any', 'badother', 'badself'])
        conf = gen_canvas_conf(rng, want)
        names = [s['name'] for s in conf['steps']]
        bad = conf.pop('_bad', None)
        q = rng.random()
        if want == 'badself':
            name = names[bad]
        elif want == 'badother' and len(names) > 1:
            name = rng.choice([n for i, n in enumerate(names) if i != bad] or names)
        elif q < 0.72:
            name = rng.choice(names)
        elif q < 0.82:
            name = 'end'
        else:
            name = rng.choice(['nein', '', 'S1', 's1 ', 's', 'end ', 'two', '*'])
        execdir = rng.choice([None, '@ROOT@/exec', '/x y'])
    else:
        mode = rng.choice(MODES[:4])
        conf = {'mode': mode, 'hook': rng.choice([None, None, ['h']]), 'running': None}
        static = {'robsd': ['env', 'cvs', 'patch', 'kernel', 'reboot', 'base', 'release', 'checkflist', 'xbase', 'xrelease', 'image',
                            'hash', 'revert', 'distrib', 'dmesg', 'end'],
                  'robsd-cross': ['env', 'dirs', 'tools', 'distrib', 'dmesg', 'end'],
                  'robsd-ports': ['env', 'cvs', 'clean', 'proot', 'patch', 'dpb', 'distrib', 'revert', 'dmesg', 'end'],
                  'robsd-regress': ['env', 'pkg-add', 'cvs', 'patch', 'obj', 'mount', 'umount', 'revert', 'pkg-del', 'dmesg', 'end']}[mode]
        names = list(static)
        if mode == 'robsd-regress':
            pool = ['bin/ls', 'test/one', 'a b', 'x${keep}', 'env', 'umount', 'usr.bin/*', "q'uote", 'k=v', 'lib/libc/sys']
            if rng.random() < 0.12:
                pool += ['$', 'a${nope}']
            regress = []
            for _ in range(rng.randint(1, 4)):
                regress.append([rng.choice(pool), rng.random() < 0.4])
            conf['regress'] = regress
            names += [r_[0] for r_ in regress] * 3
            conf['timeout'] = None
        q = rng.random()
        name = rng.choice(names) if q < 0.85 else rng.choice(['nein', '', 'ENV', 'env ', 'en', 'envx'])
        execdir = rng.choice([None, '', '@ROOT@/exec', '@ROOT@/exec', '/x y', '/tmp/*', "/it's", '${robsddir}/libexec', '/a=b', '/d\\e']
                             + (['/usr/$x', '${nope}'] if rng.random() < 0.25 else []))
    return {'kind': 'step', 'conf': conf, 'trace': trace, 'name': H(name), 'execdir': execdir,
            'probe': probe or gen_probe(rng)}


def gen_run_case(rng, probe):
    """a case whose command certainly runs: carries one exit code / signal of the pool"""
    for _ in range(200):
        c = gen_step_case(rng, probe=probe)
        conf = c['conf']
        if conf['mode'] == 'canvas':
            name = bytes.fromhex(c['name']).decode()
            first = next((s for s in conf['steps'] if s['name'] == name), None)
            if first is None or first['args'][0] not in ('@PROBE@', 'sh', '${canvas-dir}/argvprobe'):
                continue
            if any(a in REF_BAD or a in ('${nope}', '$') for s in conf['steps'] for a in s['args']):
                continue
            return c
        if c['execdir'] in ('/usr/$x', '${nope}'):
            continue
        if conf['mode'] == 'robsd-regress' and any('$' in n and n != 'x${keep}' for n, _ in conf['regress']):
            continue
        if bytes.fromhex(c['name']).decode() in ('nein', '', 'ENV', 'env ', 'en', 'envx'):
            continue
        return c
    return c


def gen_slow_case(rng):
    """the forked child is held up before setsid(): step_fork's wait for the process group times out"""
    pr = rng.choice([{'exit': 0}, {'exit': 0}, {'exit': 3}, {'exit': 255}, {'exit': rng.randint(1, 254)}])
    c = gen_run_case(rng, pr)
    c['slow_ms'] = 4000
    return c


def gen_slow_term_case(rng):
    """... and while the parent waits for the held-up child on the "process group failure" path, a SIGTERM reaches it
    (model run_fork/HsLateIntr; C07's window signal-during-group-failure seen from C06's side)"""
    c = gen_slow_case(rng)
    c['term_ms'] = 2200
    return c


def gen_multifail_case(rng):
    """robsd-regress with two or more names that fail to interpolate in DIFFERENT ways (and names written twice with
    and without no-parallel): which diagnostic robsd-exec prints depends on the order in which config_get_steps meets
    the commands - fixed steps up to mount, tests without a no-parallel option on any of their entries in
    configuration order, then the others, then the fixed rest"""
    bad = ['$', 'a${nope}', '${', 'b${}', 'c${x', '$$', 'x${builddir}']
    good = ['test/one', 'x${keep}', 'bin/ls']
    k = rng.randint(2, 5)
    names = [rng.choice(bad) for _ in range(rng.randint(2, 3))] + [rng.choice(good) for _ in range(max(0, k - 2))]
    if rng.random() < 0.6:
        names.append(rng.choice(names))          # one path twice, the flags drawn independently
    rng.shuffle(names)
    regress = [[n, rng.random() < 0.5] for n in names]
    conf = {'mode': 'robsd-regress', 'hook': None, 'running': None, 'regress': regress, 'timeout': None}
    name = rng.choice(['env', 'end', 'umount', 'nein'] + [n for n, _ in regress])
    return {'kind': 'step', 'conf': conf, 'trace': rng.randint(0, 1), 'name': H(name),
            'execdir': rng.choice([None, '@ROOT@/exec', '/x y']), 'probe': gen_probe(rng)}


def gen_timeout_case(rng):
    conf = {'mode': 'robsd-regress', 'hook': None, 'running': None, 'regress': [['bin/slow', rng.random() < 0.5]], 'timeout': 1}
    return {'kind': 'step', 'conf': conf, 'trace': rng.randint(0, 1), 'name': H('bin/slow'), 'execdir': '@ROOT@/exec',
            'probe': {'timeout': 1}}


HOOK_VALUES = ['x', '', 'x y', 'a=b', '=', '*', "it's", '${other}', '${robsddir}', '$', '${nope}', 'l1\nl2', '-n', '${v1}']


def gen_hook_case(rng):
    mode = rng.choice(MODES)
    names = ['v1', 'v2', 'other', 'exit', 'step-name', 'prog']
    defined = rng.sample(names, rng.randint(2, len(names)))
    vs = []
    for n in defined:
        v = '@PROBE@' if n == 'prog' else rng.choice(HOOK_VALUES if rng.random() < 0.5 else HOOK_VALUES[:7])
        vs.append(n + '=' + v)
    refs = [n for n in defined if n != 'prog'] + ['robsddir', 'keep', 'skip', 'trace', 'exec-dir']
    q = rng.random()
    if q < 0.10:
        hook = None
    elif q < 0.17:
        hook = []
    else:
        first = rng.choice(['@PROBE@'] * 6 + ['${prog}' if 'prog' in defined else '@PROBE@', 'argvprobe', '@BIN@/missing', '@BIN@/noexec',
                                              '${skip}', '${v1}'])
        hook = [first]
        for _ in range(rng.randint(0, 5)):
            r = rng.random()
            if r < 0.35:
                hook.append(rng.choice(PLAIN))
            elif r < 0.80:
                ref = rng.choice(refs) if rng.random() < 0.9 else rng.choice(names)
                hook.append(rng.choice(['', '', 'p ', 'k=']) + '${' + ref + '}' + rng.choice(['', '', ' s']))
            elif r < 0.93:
                hook.append(rng.choice(REF_EMPTYISH))
            else:
                hook.append(rng.choice(REF_BAD[:9]))
    r = rng.random()
    if r < 0.06:
        vs.insert(rng.randint(0, len(vs)), rng.choice(['novalue', '', 'x y']))
    elif r < 0.12:
        vs.insert(rng.randint(0, len(vs)), rng.choice(['robsddir=/tmp', 'keep=1', 'hook=x', 'skip=', 'stat-interval=3']))
    elif r < 0.22:
        vs.insert(rng.randint(0, len(vs)), rng.choice(['trace=zz', 'exec-dir=/q r', 'builddir=/b', '=anon', 'v1=second', 'keep-dir=kd']))
    conf = {'mode': mode, 'hook': hook, 'running': None}
    if mode == 'canvas':
        conf.update({'canvas_name': 't', 'keep': rng.choice([None, 5]), 'skip': rng.choice([None, [], ['a b', 'c']]),
                     'steps': [{'name': 's', 'args': ['true'], 'parallel': False}]})
    if mode == 'robsd-regress':
        conf['regress'] = [['bin/ls', False]]
        conf['timeout'] = None
    return {'kind': 'hook', 'conf': conf, 'vs': [H(v) for v in vs], 'execdir': rng.choice([None, '/x y']),
            'probe': gen_probe(rng)}


# ---- configuration file + abstract view ----------------------------------------------------------

def subst(s, paths):
    return s.replace('@PROBE@', paths['probe']).replace('@BIN@', paths['bin']).replace('@ROOT@', paths['root'])


def q(s):
    return '"' + s + '"'


def conf_ok_for_lexer(strings):
    return all(s != '' and '"' not in s and '\0' not in s for s in strings)


def cfg_view(case, paths, machine):
    """(configuration file text, CFG tokens for the driver).  vars follow the order in which the parser appends
    them to cf->variables; defaults are the grammar defaults the generated templates may mention."""
    conf = case['conf']
    mode = conf['mode']
    root = paths['root']
    S = lambda s: subst(s, paths)
    lines, vars_ = [], []
    if mode == 'canvas':
        cname = S(conf['canvas_name'])
        lines.append('canvas-name ' + q(cname))
        vars_.append(('canvas-name', cname))
        cdir = ('${trace}' + root) if conf.get('trace_cached') else root
        lines.append('canvas-dir ' + q(cdir))
        if conf.get('trace_cached'):
            vars_.append(('trace', ''))
        vars_ += [('canvas-dir', cdir), ('robsddir', cdir)]
    elif mode == 'robsd':
        for k, v in (('robsddir', root), ('destdir', root), ('bsd-srcdir', root), ('cvs-root', 'example.com:/cvs'),
                     ('cvs-user', 'nobody'), ('x11-srcdir', root)):
            lines.append('%s %s' % (k, q(v)))
            vars_.append((k, v))
    elif mode == 'robsd-cross':
        for k, v in (('robsddir', root), ('crossdir', root), ('bsd-srcdir', root)):
            lines.append('%s %s' % (k, q(v)))
            vars_.append((k, v))
    elif mode == 'robsd-ports':
        for k, v in (('robsddir', root), ('chroot', root), ('cvs-root', 'example.com:/cvs'), ('cvs-user', 'nobody'),
                     ('ports-dir', '/ports'), ('ports-user', 'nobody')):
            lines.append('%s %s' % (k, q(v)))
            vars_.append((k, v))
        lines.append('ports { "devel/robsd" }')
        vars_.append(('ports', 'devel/robsd'))
    elif mode == 'robsd-regress':
        for k, v in (('robsddir', root), ('bsd-srcdir', root), ('cvs-user', 'nobody')):
            lines.append('%s %s' % (k, q(v)))
            vars_.append((k, v))
    if conf.get('keep') is not None:
        lines.append('keep %d' % conf['keep'])
        vars_.append(('keep', str(conf['keep'])))
    if conf.get('skip') is not None:
        lines.append('skip { ' + ' '.join(q(S(x)) for x in conf['skip']) + ' }')
        vars_.append(('skip', ' '.join(S(x) for x in conf['skip'])))
    hook = None
    if conf.get('hook') is not None:
        hook = [S(x) for x in conf['hook']]
        lines.append('hook { ' + ' '.join(q(x) for x in hook) + ' }')
        vars_.append(('hook', ' '.join(hook)))
    regress_toks, canvas_toks = ['0'], ['0']
    if mode == 'robsd-regress':
        if conf.get('timeout'):
            lines.append('regress-timeout %ds' % conf['timeout'])
            vars_.append(('regress-timeout', str(conf['timeout'])))
        regress_toks = [str(len(conf['regress']))]
        # no-parallel is stored as the variable regress-<path>-parallel: it belongs to the PATH, whichever of the
        # entries of that path carries it (is_parallel looks the variable up by name), so a path written twice runs
        # in the same pass both times
        nopar_paths = {name for name, nopar in conf['regress'] if nopar}
        for name, nopar in conf['regress']:
            lines.append('regress ' + q(name) + (' no-parallel' if nopar else ''))
            if nopar:
                vars_.append(('regress-%s-parallel' % name, '0'))
            regress_toks += [H(name), '0' if name in nopar_paths else '1']
        vars_.append(('regress', ' '.join(n for n, _ in conf['regress'])))
    if mode == 'canvas':
        canvas_toks = [str(len(conf['steps']))]
        for i, s in enumerate(conf['steps']):
            args = [S(a) for a in s['args']]
            lines.append('step %s command { %s }%s' % (q(s['name']), ' '.join(q(a) for a in args), ' parallel' if s['parallel'] else ''))
            canvas_toks += [H(s['name']), str(len(args))] + [H(a) for a in args]
    execdir = case.get('execdir')
    ed = S(execdir) if execdir else '/usr/local/libexec/robsd'
    defaults = [('exec-dir', ed), ('keep-dir', '${robsddir}/attic'), ('tmp-dir', '${builddir}/tmp'), ('stat-interval', '10'),
                ('keep-attic', '1'), ('keep', '0'), ('skip', ''), ('hook', ''), ('build-user', 'build'),
                ('comment-path', '${builddir}/comment'), ('report-path', '${builddir}/report'), ('tags-path', '${builddir}/tags'),
                ('arch', machine), ('machine', machine)]
    if conf.get('running') is not None:
        defaults.append(('builddir', S(conf['running'])))
    toks = [mode, str(len(vars_))]
    for k, v in vars_:
        toks += [H(k), H(v) if v else '-']
    toks.append(str(len(defaults)))
    for k, v in defaults:
        toks += [H(k), H(v) if v else '-']
    toks += regress_toks + canvas_toks
    toks += ['n'] if hook is None else [str(len(hook))] + [H(a) if a else '-' for a in hook]
    strings = [x for l in ([conf.get('canvas_name', 'x')], conf.get('skip') or [], conf.get('hook') or [],
                           [a for s in conf.get('steps', []) for a in s['args'] + [s['name']]],
                           [n for n, _ in conf.get('regress', [])]) for x in l]
    return '\n'.join(lines) + '\n', toks, conf_ok_for_lexer([S(x) for x in strings])


def case_ok(case):
    """cases the harness can express: no NUL in anything that travels through argv or the environment"""
    try:
        name = bytes.fromhex(case.get('name', ''))
    except ValueError:
        return False
    if b'\0' in name or name.startswith(b'-'):
        return False
    for v in case.get('vs', []):
        if b'\0' in bytes.fromhex(v):
            return False
    return True


# ---- running the implementation ---------------------------------------------------------------------

class World:
    def __init__(self, ctx):
        self.ctx = ctx
        self.impl = ctx.build_impl()
        self.drv = ctx.build_driver('av', withz=True)
        self.work = ctx.mkscratch('c06')
        self.bin = os.path.join(self.work, 'bin')
        os.makedirs(self.bin)
        self.probe = os.path.join(self.bin, 'argvprobe')
        r = common.sh(['cc', '-O1', '-o', self.probe, os.path.join(common.VERIF, 'tools', 'argvprobe.c')])
        if r.returncode != 0:
            raise common.BuildFailure('argvprobe: ' + r.stdout[-1500:])
        shutil.copy(self.probe, os.path.join(self.bin, 'sh'))
        self.probe_bytes = open(self.probe, 'rb').read()
        open(os.path.join(self.bin, 'noexec'), 'w').write('#!/bin/sh\nexit 0\n')
        os.chmod(os.path.join(self.bin, 'noexec'), 0o644)
        m = re.search(r'#define\s+MACHINE\s+"([^"]*)"', open(os.path.join(self.impl, 'config.h')).read())
        self.machine = m.group(1) if m else 'unknown'
        self.n = 0
        self.delay_so = os.path.join(self.bin, 'argvdelay.so')
        r = common.sh(['cc', '-shared', '-fPIC', '-O1', '-o', self.delay_so, os.path.join(common.VERIF, 'tools', 'argvdelay.c'), '-ldl'])
        if r.returncode != 0:
            raise common.BuildFailure('argvdelay: ' + r.stdout[-1500:])
        # how long step_fork waits for the child's setsid(): waiteof(proc_pipe[0], <ms>)
        mm = re.search(r'waiteof\(proc_pipe\[0\],\s*(\d+)\)', open(os.path.join(common.REPO, 'step-exec.c')).read())
        if not mm:
            raise common.BuildFailure('step-exec.c: the handshake wait waiteof(proc_pipe[0], <ms>) was not found')
        self.handshake_ms = int(mm.group(1))
        # what execvp(NULL, {NULL}) does on this platform
        ne = os.path.join(self.bin, 'argvnullexec')
        r = common.sh(['cc', '-O1', '-w', '-o', ne, os.path.join(common.VERIF, 'tools', 'argvnullexec.c')])
        if r.returncode != 0:
            raise common.BuildFailure('argvnullexec: ' + r.stdout[-1500:])
        r = subprocess.run([ne], stdout=subprocess.PIPE, timeout=20)
        self.nullexec = r.stdout.decode().strip()
        if r.returncode != 0 or not re.fullmatch(r'x|w\d+', self.nullexec):
            raise common.BuildFailure('argvnullexec: no answer (%d, %r)' % (r.returncode, r.stdout))
        os.unlink(ne)
        # the parser model of C08/C10 (driver cf) and the facts about this machine it takes as inputs
        self.cf = ctx.build_driver('cf', withz=True)
        self.cw = cc.World(ctx, self.impl)

    def paths(self, i):
        d = os.path.join(self.work, 'c%d' % i)
        return {'dir': d, 'root': os.path.join(d, 'root'), 'probe': self.probe, 'bin': self.bin,
                'conf': os.path.join(d, 'conf'), 'dump': os.path.join(d, 'argv')}

    def prepare(self, case):
        self.n += 1
        p = self.paths(self.n)
        os.makedirs(p['root'])
        os.link(self.probe, os.path.join(p['root'], 'argvprobe'))
        text, toks, lexable = cfg_view(case, p, self.machine)
        open(p['conf'], 'w', newline='').write(text)
        if case['conf'].get('running') is not None:
            open(os.path.join(p['root'], '.running'), 'w').write(subst(case['conf']['running'], p) + '\n')
        return p, toks, lexable

    def env(self, case, p):
        e = {'PATH': self.bin, 'ARGVPROBE_OUT': p['dump'], 'HOME': p['dir'], 'LC_ALL': 'C'}
        if case.get('execdir') is not None:
            e['EXECDIR'] = subst(case['execdir'], p)
        pr = case['probe']
        if 'exit' in pr:
            e['ARGVPROBE_EXIT'] = str(pr['exit'])
        if 'signal' in pr:
            e['ARGVPROBE_SIGNAL'] = str(pr['signal'])
        if 'timeout' in pr:
            e['ARGVPROBE_SLEEP'] = '30'
        if case.get('slow_ms'):
            e['LD_PRELOAD'] = self.delay_so
            e['ARGVDELAY_SETSID_MS'] = str(case['slow_ms'])
        return e

    def run(self, case, p):
        conf = case['conf']
        if case['kind'] == 'step':
            args = [os.path.join(self.impl, 'robsd-exec'), '-m', conf['mode'], '-C', p['conf']]
            if case['trace']:
                args.append('-x')
            args.append(bytes.fromhex(case['name']))
        else:
            args = [os.path.join(self.impl, 'robsd-hook'), '-m', conf['mode'], '-C', p['conf']]
            for v in case['vs']:
                args += ['-v', bytes.fromhex(v)]
        try:
            if case.get('term_ms'):
                # a SIGTERM to the runner at a fixed time after its start (it has given up on the handshake by then and
                # is blocked in waitpid(pid)); the held-up child goes on and executes the command after the runner has left
                pr = subprocess.Popen(args, env=self.env(case, p), cwd=p['dir'], stdin=subprocess.DEVNULL,
                                      stdout=subprocess.PIPE, stderr=subprocess.PIPE)
                try:
                    out, err = pr.communicate(timeout=case['term_ms'] / 1000.0)
                except subprocess.TimeoutExpired:
                    pr.send_signal(signal.SIGTERM)
                    out, err = pr.communicate(timeout=40)
                rc = pr.returncode
                end = time.time() + case.get('slow_ms', 0) / 1000.0 + 2.0
                while not os.path.exists(p['dump']) and time.time() < end:
                    time.sleep(0.05)
                time.sleep(0.1)
            else:
                r = subprocess.run(args, env=self.env(case, p), cwd=p['dir'], stdin=subprocess.DEVNULL,
                                   stdout=subprocess.PIPE, stderr=subprocess.PIPE, timeout=40)
                rc, out, err = r.returncode, r.stdout, r.stderr
        except subprocess.TimeoutExpired:
            rc, out, err = -999, b'', b'harness timeout'
        dump = None
        if os.path.exists(p['dump']):
            raw = open(p['dump'], 'rb').read()
            dump = raw.split(b'\0')[:-1] if raw.endswith(b'\0') else None
        return rc, out, err, dump


def classify_stderr(err, prog):
    """ordered list of diagnostic classes, in the vocabulary of the model.  A message starts at a line
    beginning with "<prog>: " and may span lines (configured strings may hold newlines)."""
    text = err.decode('latin1')
    starts = [m.start() for m in re.finditer(r'(?m)^%s: ' % re.escape(prog), text)]
    msgs = []
    if starts and text[:starts[0]].strip():
        msgs.append(text[:starts[0]])
    if not starts and text.strip():
        msgs.append(text)
    for i, st in enumerate(starts):
        msgs.append(text[st + len(prog) + 2:starts[i + 1] if i + 1 < len(starts) else len(text)])
    out = []
    for msg in msgs:
        msg = msg.rstrip('\n')
        mm = re.search(r'invalid substitution, (.*)$', msg, re.S)
        if mm:
            k = next((v for kk, v in KINDS.items() if mm.group(1).startswith(kk)), 'other')
            out.append('interp:' + k)
        elif msg.endswith(': step script not found'):
            out.append('notfound')
        elif msg.endswith(': empty step command'):
            out.append('emptycmd')
        elif re.match(r'^process group exited (-?\d+)$', msg):
            out.append('exited:' + re.match(r'^process group exited (-?\d+)$', msg).group(1))
        elif re.match(r'^(caught signal \d+, kill process group|sending term signal|sending kill signal)$', msg):
            continue
        elif msg == 'process group failure':
            out.append('groupfail')
        elif msg.startswith('missing variable separator in '):
            out.append('separator')
        elif re.match(r"^variable '.*' cannot be defined$", msg, re.S):
            out.append('reserved')
        elif re.search(r': (No such file or directory|Permission denied|Not a directory|Exec format error|Bad address|Is a directory|File name too long)$', msg, re.S):
            out.append('exec')
        else:
            out.append('other')
    return out


def exec_target(argv0, w):
    """what the kernel does with execvp(argv0, ...) under PATH=<bin>: 'probe' or 'noexec'"""
    if argv0 is None:
        return 'noexec'
    a = os.fsdecode(argv0)
    if a == '' or '\0' in a:
        return 'noexec'
    c = a if '/' in a else os.path.join(w.bin, a)
    try:
        if os.path.isfile(c) and os.access(c, os.X_OK) and open(c, 'rb').read() == w.probe_bytes:
            return 'probe'
    except OSError:
        pass
    return 'noexec'


def obs_tokens(dump, rc, err):
    a = ['n'] if dump is None else [str(len(dump))] + [hexs(x) for x in dump]
    return a + [str(rc), '1' if err.strip() else '0']


def argv_tokens(a):
    return 'n' if a is None else ' '.join([str(len(a))] + [hexs(x) for x in a])


def kernel_for(case, target):
    """(KX token for the oracle, kern token and gotsig for the model's run)"""
    pr = case['probe']
    if target == 'noexec':
        return 'x', 'x', 0
    if 'timeout' in pr:
        return 't', 'w15', 14             # the step is killed by the runner's SIGTERM after SIGALRM
    if 'signal' in pr and pr['signal'] not in IGNORED_SIGNALS:
        return 's%d' % pr['signal'], 'w%d' % pr['signal'], 0
    c = pr.get('exit', 0)
    return 'e%d' % c, 'w%d' % (c * 256), 0


def check_view(w, cases, prepared, a1, res):
    """the view the harness builds by hand (cfg_view) against what the parser model of C08/C10 makes of the same file:
    `resolve` of driver cf on the configuration text must give the vector `expect` of driver av gives on the view"""
    qs, envcases, idx = [], [], []
    for i, (c, (p, toks, lexable)) in enumerate(zip(cases, prepared)):
        if c['kind'] != 'step' or not lexable:
            continue
        text = open(p['conf'], 'rb').read()
        x = c.get('execdir')
        envcases.append({'execdir': None if x is None else subst(x, p).encode().hex()})
        qs.append((len(envcases) - 1, ['resolve', c['conf']['mode'], hexs(text), str(c['trace']), c['name'] or '-']))
        idx.append(i)
    if not qs:
        return
    answers, _ = cc.driver_rounds(w.cw, w.cf, qs, envcases, lambda pre, env: ' '.join(pre + env))
    for i, a in zip(idx, answers):
        view = a1[i]
        want = 'none' if view == 'E' else 'cmd' + view[1:]
        res.count('view vs parsed configuration: ' + ('agree' if a == want else 'DIFFER'))
        res.extra['view_checked'] = res.extra.get('view_checked', 0) + 1
        if a != want:
            res.disagreements.append({'case': cases[i], 'what': 'the hand-built configuration view and the parsed configuration file resolve differently',
                                      'model': 'view: ' + view[:200], 'impl': 'parsed text (model of C08/C10): ' + a[:200]})


def evaluate(ctx, cases, res, world=None):
    w = world or World(ctx)
    cases = [c for c in cases if case_ok(c)]
    prepared = [w.prepare(c) for c in cases]
    with ThreadPoolExecutor(16) as ex:
        obs = list(ex.map(lambda cp: w.run(cp[0], cp[1][0]), zip(cases, prepared)))
    # pass 1: what does the specification expect to be executed (decides what the kernel will do with it)
    q1 = []
    for c, (p, toks, _) in zip(cases, prepared):
        if c['kind'] == 'step':
            q1.append(' '.join(['expect', str(c['trace']), c['name'] or '-'] + toks))
        else:
            q1.append(' '.join(['xhook', str(len(c['vs']))] + [v or '-' for v in c['vs']] + toks))
    a1 = common.run_driver(w.drv, q1)
    check_view(w, cases, prepared, a1, res)
    q2, meta = [], []
    for c, (p, toks, _), a, (rc, out, err, dump) in zip(cases, prepared, a1, obs):
        t = a.split()
        exp_argv = None
        if t and t[0] == 'R' and int(t[1]) > 0:
            exp_argv = [common.unhex(x) for x in t[2:]]
        target = exec_target(exp_argv[0] if exp_argv else None, w)
        kx, kern, gotsig = kernel_for(c, target)
        if c['kind'] == 'step' and a == 'R 0':
            # nothing is left of the command: the child calls execvp(NULL, {NULL}); the kernel function of the model
            # answers what this platform was measured to do (tools/argvnullexec.c)
            kern = w.nullexec
        meta.append((exp_argv, target, kx))
        if c['kind'] == 'step':
            if c.get('slow_ms'):
                # the child reaches setsid() only after the parent has given up on the handshake
                q2.append(' '.join(['runfork', 'c', str(c['trace']), c['name'] or '-', kern, str(gotsig),
                                    'lateintr' if c.get('term_ms') else 'late'] + toks))
            else:
                q2.append(' '.join(['run', 'c', str(c['trace']), c['name'] or '-', kern, str(gotsig)] + toks))
            q2.append(' '.join(['okstep', str(c['trace']), c['name'] or '-', kx] + obs_tokens(dump, rc, err) + toks))
        else:
            q2.append(' '.join(['hook', str(len(c['vs']))] + [v or '-' for v in c['vs']] + ['1' if target == 'probe' else '0'] + toks))
            q2.append(' '.join(['okhook', str(len(c['vs']))] + [v or '-' for v in c['vs']] + [kx] + obs_tokens(dump, rc, err) + toks))
    a2 = common.run_driver(w.drv, q2)
    for i, (c, (p, toks, lexable), (rc, out, err, dump), (exp_argv, target, kx)) in enumerate(zip(cases, prepared, obs, meta)):
        res.evaluations += 1
        model, ok = a2[2 * i], a2[2 * i + 1]
        if c['kind'] == 'step' and kx == 'x' and model.startswith('E ') and not model.startswith('E n '):
            # execvp failed in the child: the vector was built but no command ever saw it
            model = 'E n ' + ' '.join(model.split()[-2:])
        prog = 'robsd-exec' if c['kind'] == 'step' else 'robsd-hook'
        classes = classify_stderr(err, prog)
        if not lexable:
            # a configured string the lexer cannot carry (empty, or with a double quote): outside this harness
            res.count('skipped: string not expressible in the configuration language')
            continue
        if c['kind'] == 'step':
            if rc < 0:
                impl_s = 'C' if rc == -signal.SIGSEGV else 'K%d' % -rc
            else:
                impl_s = 'E %s %d %s' % (argv_tokens(dump), rc, ','.join(classes) if classes else '-')
            shape = ('crash' if model == 'C' else 'run' if model.startswith('E ') and not model.startswith('E n') else 'error')
            res.count('step mode=%s model=%s kx=%s' % (c['conf']['mode'], shape, kx[0]))
        else:
            if dump is not None:
                impl_s = 'X ' + argv_tokens(dump)
            elif rc == 0 and not err.strip():
                impl_s = 'N'
            else:
                impl_s = 'F %d %s' % (rc, classes[0] if classes else '-')
            res.count('hook mode=%s model=%s kx=%s' % (c['conf']['mode'], model.split()[0], kx[0]))
        empty_cmd = c['kind'] == 'step' and a1[i] == 'R 0'
        if empty_cmd:
            # PREDICATE ON THE CASE: the specification expects the empty vector (every element of the command rendered
            # empty).  Since /repo 8e76449 step_exec refuses it ("empty step command", status 1, nothing forked); the model
            # follows the source (switch Gen_Exec.empty_command_checked).  Without that test the child calls
            # execvp(NULL, {NULL}), undefined in POSIX: glibc dereferences the name (the forked child - still robsd-exec's
            # own code - dies from SIGSEGV, the runner reports 139), other C libraries return -1 and the child leaves
            # through err(1); the model is then given the measured platform answer, so the status IS compared, and the
            # property's "non-zero status with a diagnostic RATHER THAN A CRASH" is judged below (fires if the fix is reverted).
            res.count('step: every element rendered empty (execvp(NULL)); this platform: %s' % w.nullexec)
        if dump is not None and exp_argv is not None and dump == exp_argv:
            if kx[0] == 's':
                res.extra.setdefault('signals_delivered', set()).add(int(kx[1:]))
            elif kx[0] == 'e':
                res.extra.setdefault('exit_codes_passed', set()).add(int(kx[1:]))
        if nontrivial(c):
            res.nontrivial.add(hashlib.sha1(json.dumps(c, sort_keys=True).encode()).hexdigest())
        if model != impl_s:
            res.disagreements.append({'case': c, 'model': model, 'impl': impl_s, 'stderr': err[-300:].decode('latin1')})
        if c.get('slow_ms'):
            res.count('step: fork handshake timed out (setsid delayed %d ms) kx=%s' % (c['slow_ms'], kx[0]))
            res.extra['handshake_cases'] = res.extra.get('handshake_cases', 0) + 1
        if empty_cmd and c['kind'] == 'step' and rc >= 128 and 'exited:%d' % rc in classes:
            # the literal reading of "rather than a crash" (theorem C06_empty_argv_no_crash_refuted): nothing could be
            # started, and the outcome is the death of robsd-exec's own forked child from signal rc-128, reported only
            # as "process group exited <rc>"
            res.oracle_failures.append({'case': c, 'signature': 'empty-command-child-crashes',
                                        'what': 'every element of the command of the step renders empty: the forked child of robsd-exec '
                                                'calls execvp(NULL, ...) and dies from signal %d (glibc); robsd-exec exits %d and names no '
                                                'reason ("process group exited %d")' % (rc - 128, rc, rc),
                                        'impl': impl_s, 'expected': a1[i], 'stderr': err[-300:].decode('latin1')})
        if c.get('term_ms'):
            # OUTSIDE the property's quantifier (inputs and configurations): a signal was sent to the RUNNER.  What a
            # SIGTERM does to the step is C07's subject (known finding signal-during-group-failure); here the oracle does
            # not judge the status, the model (run_fork/HsLateIntr, proved to be C07's transition system on this path:
            # C06_late_handshake_sigterm) is compared with the implementation above.
            res.count('outside: SIGTERM sent to the runner on the "process group failure" path (model compared, oracle not applied)')
        elif ok != '1':
            sig, what = classify_failure(c, rc, dump, err, exp_argv, kx, a1[i])
            f = {'case': c, 'signature': sig, 'what': what, 'impl': impl_s, 'expected': a1[i], 'stderr': err[-300:].decode('latin1')}
            # KNOWN FINDING handshake-timeout-masks-exit-zero, recognised by a predicate on the CASE: the shim delayed the
            # child's setsid() beyond the time step_fork waits for it (read from the source) AND the command was arranged
            # to exit 0 - plus the exact shape the theorem C06_exit_zero_iff_refuted_handshake predicts (the command ran
            # with its vector, the runner said "process group failure" and exited 1).  Anything else on such a case keeps
            # its own signature.
            if (c.get('slow_ms', 0) > w.handshake_ms and kx == 'e0' and sig == 'exit-status-not-faithful'
                    and dump is not None and dump == exp_argv and rc == 1 and classes == ['groupfail']):
                f['signature'] = 'handshake-timeout-masks-exit-zero'
                f['what'] = ('the command ran and exited 0, robsd-exec printed "process group failure" and exited 1 '
                             '(step_fork gave up waiting %d ms for setsid() in the child, which the shim delayed by %d ms)'
                             % (w.handshake_ms, c['slow_ms']))
            res.oracle_failures.append(f)
        elif c['kind'] == 'hook' and dump is not None and exp_argv is not None:
            # the probe replaced robsd-hook: its status must be the requested one
            pr = c['probe']
            want = -pr['signal'] if ('signal' in pr and pr['signal'] not in IGNORED_SIGNALS) else pr.get('exit', 0)
            if rc != want:
                res.oracle_failures.append({'case': c, 'signature': 'hook-status-not-the-commands',
                                            'what': 'robsd-hook ended with %d, the command with %d' % (rc, want), 'impl': impl_s})
    return w


def nontrivial(c):
    conf = c['conf']
    if c['kind'] == 'hook':
        return bool(conf.get('hook')) and any('$' in a or ' ' in a for a in conf['hook'])
    if conf['mode'] == 'canvas':
        return any(('$' in a or ' ' in a or '*' in a) for s in conf['steps'] for a in s['args'])
    return True


def classify_failure(c, rc, dump, err, exp_argv, kx, expectation):
    if rc < 0 and c['kind'] == 'step':
        if expectation == 'E':
            return ('exec-crash-on-uninterpolatable-command' if rc == -signal.SIGSEGV and b'invalid substitution' in err
                    else 'exec-runner-killed-by-signal',
                    'robsd-exec died from signal %d instead of reporting an error (stderr: %s)' % (-rc, err[-120:].decode('latin1')))
        return 'exec-runner-killed-by-signal', 'robsd-exec died from signal %d' % -rc
    if exp_argv is None or kx == 'x':
        if dump is not None:
            return 'executed-although-unresolvable', 'a command ran (%d arguments) where the specification has none' % len(dump)
        if rc == 0:
            return 'unresolvable-not-an-error', 'exit 0 where the step/hook cannot be resolved or started'
        return 'failure-without-diagnostic', 'exit %d and nothing on stderr' % rc
    if dump is None:
        return 'command-not-executed', 'the command was not executed (exit %d)' % rc
    if dump != exp_argv:
        if len(dump) > len(exp_argv) and [a for a in dump if a != b''] == [a for a in exp_argv if a != b'']:
            return 'empty-argument-not-dropped', 'argv holds empty strings the specification drops: %d vs %d arguments' % (len(dump), len(exp_argv))
        if len(dump) < len(exp_argv) and [a for a in exp_argv if a != b''] == [a for a in dump if a != b'']:
            return 'empty-argument-dropped', 'argv lacks empty strings the specification keeps: %d vs %d arguments' % (len(dump), len(exp_argv))
        if b' '.join(dump) == b' '.join(exp_argv):
            return 'argument-split-or-joined', 'same words, different argument boundaries: %d vs %d arguments' % (len(dump), len(exp_argv))
        return 'argv-differs', 'argv differs from the configured list rendered: got %r' % ([a[:40] for a in dump][:8],)
    return 'exit-status-not-faithful', 'exit status %d for a command that did %s' % (rc, kx)


# ---- the translated leaf function against the compiled one ----------------------------------------------

def check_exitstatus(ctx, w, res):
    exe = os.path.join(w.work, 'c06_exitstatus')
    objs = [o for o in sorted(glob.glob(os.path.join(w.impl, '*.o')))
            if not re.match(r'^(robsd-|fuzz-|step-exec\.o$)', os.path.basename(o))]
    r = common.sh(['cc', '-DROBSD_VERIF', '-w', '-I' + w.impl, '-o', exe, os.path.join(common.VERIF, 'harness', 'c06_exitstatus.c')] + objs)
    if r.returncode != 0:
        raise common.BuildFailure('c06_exitstatus: ' + r.stdout[-1500:])
    out = subprocess.run([exe], stdout=subprocess.PIPE, timeout=120).stdout.decode().split('\n')[:-1]
    rows = [tuple(int(x) for x in l.split()) for l in out]
    ans = common.run_driver(w.drv, ['exit %d %d' % (st, sg) for st, sg, _ in rows])
    bad_tr, bad_spec = [], []
    for (st, sg, v), a in zip(rows, ans):
        m, s = a.split()
        if m != str(v):
            bad_tr.append((st, sg, v, m))
        if s != str(v):
            bad_spec.append((st, sg, v, s))
    res.extra['exitstatus_pairs_compared'] = len(rows)
    res.count('exitstatus: (status, signal) pairs compiled vs translated vs exit_spec', len(rows))
    if bad_tr:
        res.tie_errors.append('exitstatus: the Gallina translation differs from the compiled function on %d of %d pairs, first %r'
                              % (len(bad_tr), len(rows), bad_tr[0]))
    # the compiled function against the arithmetic specification, on statuses waitpid() produces
    for st, sg, v, s in bad_spec:
        kernel = (st & 0x7f) == 0 and 0 <= st < 65536 or (1 <= (st & 0x7f) <= 126 and st < 256)
        if kernel:
            res.oracle_failures.append({'case': {'kind': 'exit', 'status': st, 'signal': sg}, 'signature': 'exit-status-mapping',
                                        'what': 'compiled exitstatus(%d, %d) = %d, the property demands %s' % (st, sg, v, s)})
            break
    return len(rows)


# ---- entry points ------------------------------------------------------------------------------------------

def load_corpus():
    d = os.path.join(common.VERIF, 'corpus', 'C06')
    files = sorted(glob.glob(os.path.join(d, '*.json')))
    if not files:
        raise common.BuildFailure('corpus/C06 is missing or empty: the cases of the repaired and known findings would not run')
    return [json.load(open(p)) for p in files]


def run(ctx, n=None, exits_all=None):
    res = common.Result()
    res.rule = ('robsd-exec: canvas configurations (1-4 steps, commands of 1-6 elements over plain words with spaces, quotes, glob and shell '
                'characters, = and newlines; ${var} alone, embedded, twice, resolving to empty / to strings with spaces / to integers / '
                'through nested values / failing in 15 ways, in the requested step or in another one; first element the probe, `sh` via '
                'PATH, ${canvas-dir}/argvprobe, missing, not executable, rendering empty; duplicate and shadowing step names; unknown '
                'names) and the four script modes (every static step, regress entries incl. names colliding with static steps, EXECDIR '
                'with spaces, globs, =, nested ${robsddir}, failing; a stream of robsd-regress configurations with two or more names failing to '
                'interpolate in different ways and paths written twice with and without no-parallel), trace on/off; the command exits with a code in 0..255, dies from '
                'every signal but the stopping ones, or outlives regress-timeout; a few runs with the forked child held up before setsid() '
                '(LD_PRELOAD, tools/argvdelay.c) so that the fork handshake of step_fork times out (model run_fork/HsLate); every step case '
                'also resolved by the parser model of C08/C10 on the configuration FILE and compared with the hand-built view.  '
                'robsd-hook: all five modes, hook unset / empty / 1-6 '
                'elements, -v variables (empty, spaces, =, nested, failing, missing separator, reserved, shadowing defaults).  '
                'non-trivial = the command of the case contains a reference, a blank or a glob character (script modes: always); '
                'distinct by content hash')
    w = World(ctx)
    check_exitstatus(ctx, w, res)
    n = n or ctx.budget(420, 40000)
    rng = ctx.rng
    cases = load_corpus()
    # every exit code / every signal at least once
    if exits_all is None:
        exits_all = ctx.tier == 'thorough'
    pool = [{'signal': s, 'exit': 0} for s in ALL_SIGNALS]
    pool += [{'exit': e} for e in (range(256) if exits_all else INTERESTING_EXITS + [rng.randint(0, 255) for _ in range(40)])]
    for pr in pool:
        cases.append(gen_run_case(rng, pr))
    for _ in range(n):
        cases.append(gen_step_case(rng))
    for _ in range(ctx.budget(16, 400)):
        cases.append(gen_multifail_case(rng))
    for _ in range(ctx.budget(2, 6)):
        cases.append(gen_timeout_case(rng))
    for _ in range(ctx.budget(5, 16)):
        cases.append(gen_slow_case(rng))
    for _ in range(ctx.budget(2, 8)):
        cases.append(gen_slow_term_case(rng))
    for _ in range(max(60, n // 2)):
        cases.append(gen_hook_case(rng))
    res.samples = [c for c in cases if c['kind'] == 'step'][1:3] + [c for c in cases if c['kind'] == 'hook'][:1]
    for i in range(0, len(cases), 2000):
        evaluate(ctx, cases[i:i + 2000], res, world=w)
        for d in glob.glob(os.path.join(w.work, 'c[0-9]*')):
            shutil.rmtree(d, ignore_errors=True)
    res.traces_validated = res.evaluations
    for k in ('signals_delivered', 'exit_codes_passed'):
        res.extra[k] = sorted(res.extra.get(k, []))
    missing = [s_ for s_ in ALL_SIGNALS if s_ not in IGNORED_SIGNALS and s_ not in res.extra['signals_delivered']]
    if missing and not res.oracle_failures and not res.disagreements:
        res.tie_errors.append('generator: no case delivered signal(s) %r to a command' % missing)
    res.extra['find_step_null_checked_in_source'] = common.run_driver(w.drv, ['variant'])[0] == '1'
    res.extra['empty_command_checked_in_source'] = common.run_driver(w.drv, ['emptychk'])[0] == '1'
    return res


def extended_search(ctx, res, proof):
    return run(ctx, n=4000, exits_all=True)


def replay(ctx, rep):
    case = rep.get('case') or (rep.get('first_disagreements') or [{}])[0].get('case') or (rep if 'kind' in rep else None)
    if case is None:
        print(json.dumps(rep, indent=1)[:3000])
        return 1
    res = common.Result()
    if case.get('kind') == 'exit':
        w = World(ctx)
        check_exitstatus(ctx, w, res)
        print('translator/tie:', res.tie_errors)
    else:
        w = evaluate(ctx, [case], res)
        p = w.paths(w.n)
        print('configuration file:\n' + open(p['conf']).read())
    print('case:', json.dumps(case))
    print('disagreements (model vs implementation):', json.dumps(res.disagreements, indent=1))
    print('oracle failures (spec_ok on the implementation):', json.dumps(res.oracle_failures, indent=1))
    unknown = []
    for f in res.oracle_failures:
        k = common.match_known(ctx.pid, f.get('signature'))
        if k:
            print('KNOWN-FINDING: property=%s %s' % (ctx.pid, k['what']))
        else:
            unknown.append(f)
    return 1 if (res.disagreements or unknown or res.tie_errors) else 0
