"""Grammar-derived configuration generator for C08/C10 (python3 stdlib only).

A configuration is a list of entries; an entry is a list of token texts.  The schema below is written from the
manual pages (robsd.conf.5, robsd-cross.conf.5, robsd-ports.conf.5, robsd-regress.conf.5, canvas.conf.5,
robsd-config.8), not from the C tables.  `@R@` stands for the scratch root and is substituted when a case runs.

This is a GENERATOR schema, not the specification (that is Conf/DocSpec.v, compared with the C tables in Coq).  Where the pages
and the code differ (Conf/DocExceptions.v) the schema deliberately produces BOTH readings: chroot and ports-dir are generated as
strings (mostly not existing directories: class documented-directory-not-checked), regress-env is generated several times
(regress-env-repeatable-undocumented), the templates reference the undocumented READONLY names and the documented names that
have no row (regress-obj, regress-*-quiet/-root, target)."""

R = b'@R@'

# keyword, kind, required, repeatable
COMMON = [(b'hook', 'list', 0, 0), (b'stat-interval', 'int', 0, 0), (b'keep', 'int', 0, 0), (b'keep-attic', 'bool', 0, 0),
          (b'skip', 'list', 0, 0)]
SCHEMA = {
    'robsd': [(b'robsddir', 'dir', 1, 0), (b'destdir', 'dir', 1, 0), (b'kernel', 'str', 0, 0), (b'reboot', 'bool', 0, 0),
              (b'bsd-diff', 'glob', 0, 0), (b'bsd-objdir', 'dir', 0, 0), (b'bsd-srcdir', 'dir', 0, 0), (b'cvs-root', 'str', 0, 0),
              (b'cvs-user', 'user', 0, 0), (b'distrib-host', 'str', 0, 0), (b'distrib-path', 'str', 0, 0),
              (b'distrib-signify', 'str', 0, 0), (b'distrib-user', 'user', 0, 0), (b'x11-diff', 'glob', 0, 0),
              (b'x11-objdir', 'dir', 0, 0), (b'x11-srcdir', 'dir', 0, 0)] + COMMON,
    'robsd-cross': [(b'robsddir', 'dir', 1, 0), (b'crossdir', 'str', 1, 0), (b'bsd-srcdir', 'dir', 0, 0)] + COMMON,
    'robsd-ports': [(b'robsddir', 'dir', 1, 0), (b'chroot', 'str', 1, 0), (b'cvs-root', 'str', 0, 0), (b'cvs-user', 'user', 0, 0),
                    (b'distrib-host', 'str', 0, 0), (b'distrib-path', 'str', 0, 0), (b'distrib-signify', 'str', 0, 0),
                    (b'distrib-user', 'user', 0, 0), (b'ports', 'list', 1, 0), (b'ports-diff', 'glob', 0, 0),
                    (b'ports-dir', 'str', 0, 0), (b'ports-user', 'user', 1, 0)] + COMMON,
    'robsd-regress': [(b'robsddir', 'dir', 1, 0), (b'parallel', 'bool', 0, 0), (b'rdonly', 'bool', 0, 0), (b'sudo', 'str', 0, 0),
                      (b'bsd-diff', 'glob', 0, 0), (b'bsd-srcdir', 'dir', 0, 0), (b'cvs-root', 'str', 0, 0), (b'cvs-user', 'user', 0, 0),
                      (b'regress', 'regress', 1, 1), (b'regress-env', 'list', 0, 1), (b'regress-timeout', 'timeout', 0, 0),
                      (b'regress-user', 'user', 0, 0)] + COMMON,
    'canvas': [(b'canvas-name', 'str', 1, 0), (b'canvas-dir', 'dir', 1, 0), (b'step', 'step', 1, 1)] + COMMON,
}
READONLY = [b'arch', b'build-user', b'builddir', b'comment-path', b'exec-dir', b'inet', b'inet6', b'keep-dir', b'machine', b'ncpu',
            b'report-path', b'tags-path', b'tmp-dir', b'trace']
READONLY_MODE = {'robsd': [b'bsd-reldir', b'x11-reldir'], 'robsd-cross': [b'target'], 'robsd-ports': [],
                 'robsd-regress': [b'regress-obj', b'regress-packages'], 'canvas': [b'robsddir']}
ROOTS = [b'root', b'root', b'rroot', b'eroot', b'nroot']
PATHS = [b'bin/csh', b'bin/ksh', b'sys/nfs', b'usr.sbin/bgpd', b'a', b'x-env', b'lib/libc', b'a-targets',
         b'lib/libcrypto', b'sys/net', b'sys/netinet', b'bin/k',
         # long paths: the variable regress-<path>-parallel then exceeds NAME_MAX while NNN-<path>.log still fits (seeded/C10-3)
         b'usr.bin/' + b'longsuitename' * 18, b'lib/' + b'x' * 236]          # several names are prefixes of others
GOODSTR = [b'plain', b'with space', b'x=1', b'UPPER', b'tab\there', b'#nocomment', b'${arch}', b'a${ncpu}b', b'${keep}', b'${hook}',
           b'${robsddir}/x', b'{brace}', b'semi;colon', b"quo'te", b'\xc3\xa9', b'${machine}-${arch}', b'0', b'yes']
ODDSTR = [b'${nope}', b'$x', b'${', b'${}', b'multi\nline', b'${robsddir', b'a$', b'${kernel}', b'${sudo}']
WS = [b' ', b' ', b' ', b'\t', b'  ', b'\n', b' \t ', b'\r', b'\x0b', b'\x0c', b'\n\n']


def q(s):
    return b'"' + s + b'"'


class Gen:
    def __init__(self, rng):
        self.rng = rng

    # ---- values
    def string(self, odd=0.12):
        r = self.rng
        return r.choice(ODDSTR) if r.random() < odd else r.choice(GOODSTR)

    def strlist(self, lo=0, hi=3, odd=0.05):
        return [self.string(odd) for _ in range(self.rng.randint(lo, hi))]

    def listtoks(self, items):
        return [b'{'] + [q(s) for s in items] + [b'}']

    def integer(self):
        r = self.rng
        return r.choice([0, 1, 2, 7, 10, 42, 300, 65535, 2147483646, 2147483647, r.randint(0, 100000)])

    def directory(self, have_robsddir, root):
        r = self.rng
        opts = [R + b'/d1', R + b'/d2', R + b'/d1/', R + b'/d1/../d2', R + b'//d1', R + b'/' + root]
        if have_robsddir:
            opts += [b'${robsddir}', b'${robsddir}/../d1', b'${robsddir}/']
            if root == b'root':
                opts.append(b'${robsddir}/sub')
        return r.choice(opts)

    def value(self, kind, st):
        r = self.rng
        if kind == 'bool':
            return [r.choice([b'yes', b'no'])]
        if kind == 'int':
            return [str(self.integer()).encode()]
        if kind == 'str':
            return [q(self.string())]
        if kind == 'user':
            return [q(r.choice([b'root', b'nobody', b'root']))]
        if kind == 'dir':
            return [q(self.directory(st['robsddir'], st['root']))]
        if kind == 'glob':
            return [q(r.choice([R + b'/root/p-*.diff', R + b'/root/nomatch-*.diff', R + b'/root/p-one.diff', R + b'/root/*.txt',
                                R + b'/root/p-???.diff']))]
        if kind == 'list':
            return self.listtoks(self.strlist())
        if kind == 'timeout':
            n, u = r.choice([(1, b's'), (1, b'm'), (1, b'h'), (0, b's'), (90, b'm'), (35791394, b'm'), (596523, b'h'), (2147483647, b's'),
                             (r.randint(0, 5000), r.choice([b's', b'm', b'h']))])
            return [str(n).encode(), u] if r.random() < 0.5 else [str(n).encode() + u]
        if kind == 'regress':
            return self.regress_entry(st)
        if kind == 'step':
            return self.step_entry(st)
        raise ValueError(kind)

    def regress_entry(self, st):
        r = self.rng
        path = r.choice(PATHS) if r.random() < 0.85 else r.choice(st['paths'] or PATHS)
        st['paths'].append(path)
        toks = [q(path)]
        for _ in range(r.choice([0, 0, 0, 1, 1, 2, 3, 5])):
            o = r.choice(['env', 'no-parallel', 'obj', 'packages', 'quiet', 'root', 'targets'])
            if o == 'env':
                items = [r.choice([b'FOO=1', b'BAR=2', b'RD=${rdomain}', b'${rdomain} ${rdomain}', b'X=${regress-a-env}', b'P=${ncpu}',
                                   b'${regress-env}', b'Q=${nope}']) for _ in range(r.randint(0, 3))]
                toks += [b'env'] + self.listtoks(items)
            elif o in ('obj', 'packages', 'targets'):
                toks += [o.encode()] + self.listtoks([r.choice([b'one', b'two', b'usr.bin/make', b'exabgp', b'all', b'${arch}']) for _ in range(r.randint(0, 3))])
            else:
                toks.append(o.encode())
        return toks

    def step_entry(self, st):
        r = self.rng
        name = r.choice([b'first', b'build', b'lint', b'a', b'end', b'two words', b'x/y', b'build-all', b'li', b'en']) if r.random() < 0.8 else r.choice(st['steps'] or [b'first'])
        st['steps'].append(name)
        cmd = self.listtoks([r.choice([b'true', b'sh', b'-c', b'echo hi', b'${canvas-name}', b'${trace}', b'-x']) for _ in range(r.randint(1, 4))])
        parts = [[b'command'] + cmd]
        if r.random() < 0.4:
            parts.append([b'parallel'])
        if r.random() < 0.1:
            parts.append([b'command'] + self.listtoks([b'true']))
        r.shuffle(parts)
        return [q(name)] + [t for p in parts for t in p]

    # ---- configurations
    def entries(self, mode, popt=0.35):
        r = self.rng
        st = {'robsddir': False, 'root': r.choice(ROOTS), 'paths': [], 'steps': []}
        chosen = []
        for kw, kind, req, rep in SCHEMA[mode]:
            n = 1 if req else (1 if r.random() < popt else 0)
            if rep and n:
                n = r.choice([1, 1, 2, 3, 4, 6])
            chosen += [(kw, kind)] * n
        r.shuffle(chosen)
        # the root directory first most of the time (later entries may refer to it)
        if r.random() < 0.8:
            for i, (kw, kind) in enumerate(chosen):
                if kw in (b'robsddir', b'canvas-dir'):
                    chosen.insert(0, chosen.pop(i))
                    break
        ents = []
        for kw, kind in chosen:
            if kw in (b'robsddir', b'canvas-dir'):
                v = [q(R + b'/' + st['root'])]
                ents.append([kw] + v)
                st['robsddir'] = True
            elif kw == b'canvas-name':
                # never the name of a program: step commands may start with ${canvas-name}
                ents.append([kw, q(r.choice([b'plain', b'x=1', b'UPPER', b'with space', b'knfmt', b'${arch}']))])
            else:
                ents.append([kw] + self.value(kind, st))
        return ents, st

    def render(self, ents, plain=False):
        r = self.rng
        out = b''
        if not plain and r.random() < 0.2:
            out += r.choice([b'# leading comment\n', b'\n\n', b'  \t', b'#\n#x\n', b'#\n', b'#\n# heading\n#\n'])
        for e in ents:
            line = b''
            for i, t in enumerate(e):
                if i:
                    prev = e[i - 1]
                    tight_ok = (prev[-1:] in b'"{}' or t[:1] in b'"{}')
                    if not plain and tight_ok and r.random() < 0.08:
                        sep = b''
                    else:
                        sep = b' ' if plain else r.choice(WS)
                    line += sep
                line += t
            out += line
            if plain:
                out += b'\n'
            else:
                k = r.random()
                # comments of every shape, the EMPTY one included (a bare '#' right before the newline, alone on a line or after an entry)
                out += b'\n' if k < 0.70 else (b' # trailing comment\n' if k < 0.78 else (b'\n\n' if k < 0.83 else (b'\n# c "x" {\n' if k < 0.88 else (b'\n#\n' if k < 0.94 else (b' #\n' if k < 0.97 else b'\n')))))
        if not plain:
            k = r.random()
            if k < 0.05 and out.endswith(b'\n'):
                out = out[:-1]
            elif k < 0.1:
                out += b'# comment without newline'
        return out

    def template(self, mode, st, rdn=None):
        r = self.rng
        names = [kw for kw, _, _, _ in SCHEMA[mode]] + READONLY + READONLY_MODE[mode]
        if mode == 'robsd-regress':
            ps = list(dict.fromkeys(st['paths']))[:4] + [b'nein']
            for p in ps:
                for s in (b'env', b'quiet', b'root', b'targets', b'parallel'):
                    if r.random() < 0.7:
                        names.append(b'regress-' + p + b'-' + s)
            if r.random() < 0.5:
                # names next to the pattern rows regress-*-env / -targets / -parallel: no test name, the star itself, nested suffixes
                names += r.sample([b'regress--env', b'regress-targets', b'regress-*-env', b'regress-*-targets', b'regress-x-env-env',
                                   b'regress--targets', b'regress-a-b-parallel', b'regress-parallel', b'regress-a-targets-env',
                                   b'regress-envx', b'regress-a-Env'], 4)
        if r.random() < 0.5:
            r.shuffle(names)
        lines = [n + b'=<${' + n + b'}>' for n in names]
        if r.random() < 0.4:
            # many references on one line: computed defaults are defined by the first one, the later ones read the variable
            some = [r.choice(names) for _ in range(r.choice([2, 3, 8, 30]))]
            lines.insert(r.randint(0, len(lines)), b'many=' + b' '.join(b'${' + n + b'}' for n in some))
        if mode == 'robsd-regress':
            if rdn is None:
                rdn = r.choice([0, 1, 2, 3, 10, 244, 245, 246, 247, 300, 500])
            if rdn:
                lines.insert(r.randint(0, len(lines)), b'rd=' + b' '.join([b'${rdomain}'] * rdn))
        return b'\n'.join(lines) + b'\n'

    # ---- ${builddir} needed while ${builddir} is being computed (findings/D18_builddir_reentry.md)
    def reentry(self, mode, ents, st):
        """returns (label, text): the root directory's value refers to a list variable that is defined LATER and
        expands to ${builddir} (directly or through a documented default rooted in builddir); a later directory
        value may need ${builddir} while parsing"""
        r = self.rng
        via = r.choice([b'hook', b'skip'])
        rootkw = b'canvas-dir' if mode == 'canvas' else b'robsddir'
        ents = [list(e) for e in ents if e[0] not in (via, rootkw)]
        inner = r.choice([b'${builddir}', b'${tmp-dir}', b'${comment-path}', b'a${report-path}', b'${tags-path}', b'${builddir}${builddir}'])
        root = [rootkw, q(R + b'/' + st['root'] + b'/${' + via + b'}')]
        late = [via] + self.listtoks(r.choice([[inner], [b'x', inner], []]))
        k = r.random()
        if k < 0.15:
            ents = [late, root] + ents                       # defined first: the root directory is rejected while parsing
            label = 'builddir-reentry-early'
        else:
            ents = [root] + ents
            ents.insert(r.randint(1, len(ents)), late)
            label = 'builddir-reentry'
        if mode in ('robsd', 'robsd-cross', 'robsd-regress') and r.random() < 0.3:
            ents.append([b'bsd-srcdir', q(r.choice([b'${builddir}', b'${robsddir}', b'${tmp-dir}']))])
            ents = [e for i, e in enumerate(ents) if e[0] != b'bsd-srcdir' or i == len(ents) - 1]
            label += '-parse'
        return label, self.render(ents, plain=r.random() < 0.5)

    # ---- single-edit corruptions
    def corrupt(self, mode, ents, st):
        """returns (label, text) - the text of a configuration one edit away from the valid [ents]"""
        r = self.rng
        ents = [list(e) for e in ents]
        kinds = {kw: (kind, req, rep) for kw, kind, req, rep in SCHEMA[mode]}
        pick = r.choice(['unknown-keyword', 'wrong-type', 'drop-required', 'duplicate', 'missing-dir', 'missing-user', 'unterminated',
                         'int-overflow', 'timeout', 'empty-string', 'list-error', 'bytes', 'dir-interp', 'option-error', 'other-mode-word'])
        pos = r.randint(0, len(ents))

        def with_kind(ks):
            return [i for i, e in enumerate(ents) if kinds.get(e[0], ('?',))[0] in ks]
        if pick == 'unknown-keyword':
            others = [kw for m in SCHEMA for kw, _, _, _ in SCHEMA[m] if kw not in kinds]
            e = r.choice([[b'bogus', b'1'], [b'arch', q(b'exotic')], [b'ncpu', b'4'], [b'builddir', q(b'/x')], [r.choice(others), q(b'v')],
                          [b'rdomain', b'12'], [b'regress-obj', b'{', q(b'x'), b'}'], [b'target', q(b't')]])
            if mode == 'canvas' and r.random() < 0.4:
                e = [b'robsddir', q(R + b'/d2')]
                pick = 'canvas-robsddir'
                cd = [i for i, x in enumerate(ents) if x[0] == b'canvas-dir']
                if cd and r.random() < 0.7:
                    pos = r.randint(0, cd[0])
            ents.insert(pos, e)
        elif pick == 'wrong-type':
            i = r.randrange(len(ents))
            repl = r.choice([[b'1'], [q(b'str')], [b'yes'], [b'{', q(b'a'), b'}'], [b'}'], [b'{'], [b'kernel'], [], [b's'], [b'h'], [b'@']])
            ents[i] = [ents[i][0]] + repl + (ents[i][2:] if r.random() < 0.3 else [])
        elif pick == 'drop-required':
            req = [i for i, e in enumerate(ents) if kinds.get(e[0], (0, 0))[1]]
            if req:
                kw = ents[r.choice(req)][0]
                ents = [e for e in ents if e[0] != kw]
        elif pick == 'duplicate':
            cand = [i for i, e in enumerate(ents) if e[0] in kinds and not kinds[e[0]][2]]
            if cand:
                i = r.choice(cand)
                k = r.random()
                if k < 0.4:
                    e = list(ents[i])
                elif k < 0.7:
                    e = [ents[i][0]] + self.value(kinds[ents[i][0]][0], st)
                else:
                    # the repeated keyword's own parser answers ERROR, NOP or FATAL as well (Conf/ConfAbort.v: parse_keyword)
                    e = [ents[i][0]] + r.choice([[b'1'], [q(b'str')], [b'yes'], [b'{', q(b'a'), b'}'], [b'{', q(b'a')], [b'{', b'1', b'}'], [],
                                                 [q(R + b'/nope')], [q(R + b'/root/nomatch-*.diff')], [q(b'nosuchuser9')], [b'99999999999'],
                                                 [b'1', b'x'], [q(b'${nope}')], [b'""']])
                ents.insert(r.randint(i + 1, len(ents)), e)
                if r.random() < 0.25:
                    ents.insert(r.randint(i + 1, len(ents)), list(ents[i]))          # a third occurrence
        elif pick == 'missing-dir':
            c = with_kind(['dir'])
            if c:
                i = r.choice(c)
                ents[i] = [ents[i][0], q(r.choice([R + b'/nope', R + b'/f1', R + b'/f1/x', b'relative/nope', R + b'/d1/nope/deeper', b'/']))]
            elif mode != 'canvas':
                ents.insert(pos, [b'bsd-srcdir', q(R + b'/nope')])
        elif pick == 'missing-user':
            c = with_kind(['user'])
            e = q(r.choice([b'nosuchuser9', b'Root', b'root ', b'0']))
            if c:
                ents[r.choice(c)][1] = e
            elif mode in ('robsd', 'robsd-ports', 'robsd-regress'):
                ents.insert(pos, [b'cvs-user', e])
        elif pick == 'int-overflow':
            n = r.choice([2147483648, 4294967295, 4294967296, 99999999999, 21474836470, 9223372036854775808, 2147483647,
                          int('1' * 40), 4294967306, 42949672960])
            c = with_kind(['int', 'timeout'])
            if c:
                i = r.choice(c)
                ents[i][1] = str(n).encode() + (ents[i][1][-1:] if ents[i][1][-1:] in b'smh' and len(ents[i]) == 2 else b'')
            else:
                ents.insert(pos, [b'keep', str(n).encode()])
        elif pick == 'timeout' and mode == 'robsd-regress':
            ents = [e for e in ents if e[0] != b'regress-timeout']
            v = r.choice([[b'35791395', b'm'], [b'596524', b'h'], [b'2147483647', b'h'], [b'2147483647', b'm'], [b'1', b'x'], [b'1'], [b'1', b'yes'],
                          [b'1', b'{'], [b'1a'], [b'1', b'd'], [b'm'], [b'1', b'"s"'], [b'35791394', b'm'], [b'1', b'S'], [b'4294967297', b'h'], [b'715827883', b'm']])
            ents.insert(min(pos, len(ents)), [b'regress-timeout'] + v)
        elif pick == 'empty-string':
            c = with_kind(['str', 'user', 'dir', 'glob', 'list', 'regress', 'step'])
            if c:
                i = r.choice(c)
                js = [j for j, t in enumerate(ents[i]) if t.startswith(b'"')]
                if js:
                    ents[i][r.choice(js)] = b'""'
        elif pick == 'list-error':
            c = [i for i, e in enumerate(ents) if b'{' in e]
            if c:
                i = r.choice(c)
                j = ents[i].index(b'{')
                k = r.choice(['nolb', 'norb', 'nonstr', 'nested'])
                if k == 'nolb':
                    del ents[i][j]
                elif k == 'norb':
                    jj = len(ents[i]) - 1 - ents[i][::-1].index(b'}')
                    del ents[i][jj]
                elif k == 'nonstr':
                    ents[i].insert(j + 1, r.choice([b'1', b'yes', b'word', b'{']))
                else:
                    ents[i].insert(j + 1, b'{')
            else:
                ents.insert(pos, [b'skip', b'{', q(b'a')])
        elif pick == 'option-error':
            if mode == 'canvas':
                v = r.choice([[q(b's')], [q(b's'), b'command', b'{', b'}'], [q(b's'), b'parallel'], [q(b's'), b'command'], [b'command', b'{', q(b'a'), b'}'],
                              [q(b's'), b'command', b'{', q(b'a'), b'}', b'command', b'{', b'}'], [q(b's'), b'parallel', b'parallel', b'command', b'{', q(b'a'), b'}'],
                              [q(b's'), b'command', b'{', q(b'a'), b'1', b'}'], [q(b's'), b'env', b'{', q(b'a'), b'}']])
                ents.insert(pos, [b'step'] + v)
            elif mode == 'robsd-regress':
                v = r.choice([[q(b'p'), b'noway'], [q(b'p'), b'env'], [q(b'p'), b'env', b'{', q(b'$x'), b'}'], [q(b'p'), b'env', b'{', q(b'${regress-p-env}'), b'}'],
                              [q(b'p'), b'targets', q(b'all')], [q(b'p'), b'obj', b'{', b'1', b'}'], [b'root'], [q(b'p'), b'root', b'root', b'quiet', b'quiet'],
                              [q(b'p'), b'env', b'{', q(b'${'), b'}'], [q(b'p'), b'packages', b'{', q(b'a')], [q(b'p'), b'parallel'], [q(b'p'), b'command', b'{', q(b'a'), b'}'],
                              [q(b'p'), b'env', b'{', q(b'A=${regress-q-env}'), b'}'], [q(b'q'), b'env', b'{', q(b'B=${regress-p-env}'), b'}', b'root']])
                ents.insert(pos, [b'regress'] + v)
            else:
                ents.insert(pos, [b'hook', b'{', q(b'a'), b'}', b'}'])
        elif pick == 'other-mode-word':
            ents.insert(pos, [r.choice([b'h', b'm', b's', b'yes', b'no', b'command', b'parallel', b'env', b'root', b'obj', b'quiet', b'targets', b'packages',
                                        b'no-parallel'])] + r.choice([[], [b'1'], [q(b'x')]]))
        if pick in ('unterminated', 'bytes', 'dir-interp'):
            text = self.render(ents)
            if pick == 'unterminated':
                k = r.random()
                if k < 0.4 and b'"' in text:
                    idx = [i for i, ch in enumerate(text) if ch == 0x22]
                    text = text[:r.choice(idx) + 1 + r.randint(0, 2)]
                    if text.count(b'"') % 2 == 0:
                        text += b' kernel "open'
                elif k < 0.7:
                    text += b'kernel "never closed\n'
                else:
                    text += b'"'
            elif pick == 'bytes':
                ins = r.choice([b'\x00', b'\x00keep 1\n', b'@', b'KEEP 1\n', b'keep-Attic yes\n', b'\x80', b'=', b'keep = 1\n', b'-keep 1\n', b'keep -1\n',
                                b'# c\x00keep "x"\n', b'keep 1 2\n', b'1\n', b'"str"\n', b'{ }\n', b'keep1 1\n', b'keep 1keep 2\n', b'\xff\xfe', b'keep 0x10\n'])
                at = r.choice([0, len(text)] + [i + 1 for i, ch in enumerate(text) if ch == 10])
                text = text[:at] + ins + text[at:]
            else:
                bad = r.choice([b'${nope}', b'$x', b'${', b'${}', b'${robsddir', b'/x${rdomain}', b'${builddir}', b'${tmp-dir}', b'${keep-dir}/..',
                                b'${trace}', b'${exec-dir}', R + b'/${regress-a-targets}', b'${regress}', b'${step}'])
                kw = b'bsd-srcdir' if mode != 'robsd-ports' and mode != 'canvas' else (b'canvas-dir' if mode == 'canvas' else b'robsddir')
                line = kw + b' ' + q(bad) + b'\n'
                if kw in (b'canvas-dir', b'robsddir'):
                    text = b'\n'.join(l for l in text.split(b'\n') if not l.lstrip().startswith(kw)) + b'\n' + line
                else:
                    text = b'\n'.join(l for l in text.split(b'\n') if not l.lstrip().startswith(kw)) + b'\n' + line
            return pick, text
        return pick, self.render(ents)
