"""Grammar-derived configuration generator for C08/C10 (python3 stdlib only).

A configuration is a list of entries; an entry is a list of token texts.  The schema below is written from the
manual pages (robsd.conf.5, robsd-cross.conf.5, robsd-ports.conf.5, robsd-regress.conf.5, canvas.conf.5,
robsd-config.8), not from the C tables.  `@R@` stands for the scratch root and is substituted when a case runs.

This is a GENERATOR schema, not the specification (that is Conf/DocSpec.v, compared with the C tables in Coq).  Where the pages
and the code differ (Conf/DocExceptions.v) the schema deliberately produces BOTH readings: chroot and ports-dir are generated as
strings (mostly not existing directories: class documented-directory-not-checked), regress-env is generated several times
(regress-env-repeatable-undocumented), the templates reference the undocumented READONLY names and the documented names that
have no row (regress-obj, regress-*-quiet/-root, target)."""

R = b'@R@'

# keyword, kind, required, repeatable
COMMON = [(b'hook', 'list', 0, 0), (b'stat-interval', 'int', 0, 0), (b'keep', 'int', 0, 0), (b'keep-attic', 'bool', 0, 0),
          (b'skip', 'list', 0, 0)]
SCHEMA = {
    'robsd': [(b'robsddir', 'dir', 1, 0), (b'destdir', 'dir', 1, 0), (b'kernel', 'str', 0, 0), (b'reboot', 'bool', 0, 0),
              (b'bsd-diff', 'glob', 0, 0), (b'bsd-objdir', 'dir', 0, 0), (b'bsd-srcdir', 'dir', 0, 0), (b'cvs-root', 'str', 0, 0),
              (b'cvs-user', 'user', 0, 0), (b'distrib-host', 'str', 0, 0), (b'distrib-path', 'str', 0, 0),
              (b'distrib-signify', 'str', 0, 0), (b'distrib-user', 'user', 0, 0), (b'x11-diff', 'glob', 0, 0),
              (b'x11-objdir', 'dir', 0, 0), (b'x11-srcdir', 'dir', 0, 0)] + COMMON,
    'robsd-cross': [(b'robsddir', 'dir', 1, 0), (b'crossdir', 'str', 1, 0), (b'bsd-srcdir', 'dir', 0, 0)] + COMMON,
    'robsd-ports': [(b'robsddir', 'dir', 1, 0), (b'chroot', 'str', 1, 0), (b'cvs-root', 'str', 0, 0), (b'cvs-user', 'user', 0, 0),
                    (b'distrib-host', 'str', 0, 0), (b'distrib-path', 'str', 0, 0), (b'distrib-signify', 'str', 0, 0),
                    (b'distrib-user', 'user', 0, 0), (b'ports', 'list', 1, 0), (b'ports-diff', 'glob', 0, 0),
                    (b'ports-dir', 'str', 0, 0), (b'ports-user', 'user', 1, 0)] + COMMON,
    'robsd-regress': [(b'robsddir', 'dir', 1, 0), (b'parallel', 'bool', 0, 0), (b'rdonly', 'bool', 0, 0), (b'sudo', 'str', 0, 0),
                      (b'bsd-diff', 'glob', 0, 0), (b'bsd-srcdir', 'dir', 0, 0), (b'cvs-root', 'str', 0, 0), (b'cvs-user', 'user', 0, 0),
                      (b'regress', 'regress', 1, 1), (b'regress-env', 'list', 0, 1), (b'regress-timeout', 'timeout', 0, 0),
                      (b'regress-user', 'user', 0, 0)] + COMMON,
    'canvas': [(b'canvas-name', 'str', 1, 0), (b'canvas-dir', 'dir', 1, 0), (b'step', 'step', 1, 1)] + COMMON,
}
READONLY = [b'arch', b'build-user', b'builddir', b'comment-path', b'exec-dir', b'inet', b'inet6', b'keep-dir', b'machine', b'ncpu',
            b'report-path', b'tags-path', b'tmp-dir', b'trace']
READONLY_MODE = {'robsd': [b'bsd-reldir', b'x11-reldir'], 'robsd-cross': [b'target'], 'robsd-ports': [],
                 'robsd-regress': [b'regress-obj', b'regress-packages'], 'canvas': [b'robsddir']}
ROOTS = [b'root', b'root', b'rroot', b'eroot', b'nroot']
PATHS = [b'bin/csh', b'bin/ksh', b'sys/nfs', b'usr.sbin/bgpd', b'a', b'x-env', b'lib/libc', b'a-targets',
         b'lib/libcrypto', b'sys/net', b'sys/netinet', b'bin/k',
         # long paths: the variable regress-<path>-parallel then exceeds NAME_MAX while NNN-<path>.log still fits (seeded/C10-3)
         b'usr.bin/' + b'longsuitename' * 18, b'lib/' + b'x' * 236]          # several names are prefixes of others
GOODSTR = [b'plain', b'with space', b'x=1', b'UPPER', b'tab\there', b'#nocomment', b'${arch}', b'a${ncpu}b', b'${keep}', b'${hook}',
           b'${robsddir}/x', b'{brace}', b'semi;colon', b"quo'te", b'\xc3\xa9', b'${machine}-${arch}', b'0', b'yes']
ODDSTR = [b'${nope}', b'$x', b'${', b'${}', b'multi\nline', b'${robsddir', b'a$', b'${kernel}', b'${sudo}']
WS = [b' ', b' ', b' ', b'\t', b'  ', b'\n', b' \t ', b'\r', b'\x0b', b'\x0c', b'\n\n']


# boundary sizes and counts (Gen.boundary): where a fixed buffer, a power-of-two growth step or an off-by-one bites
LENS = [1, 254, 255, 256, 1023, 1024, 1025, 4095, 4096, 4097, 8191, 8192, 8193]
LENS_BIG = [16383, 16384, 16385]
COUNTS = [0, 1, 15, 16, 17, 31, 32, 33, 63, 64, 65, 255, 256]
BOUNDARY_CLASSES = ['string-len', 'list-count', 'regress-count', 'option-list-count', 'step-count', 'step-args-count', 'path-len', 'step-name-len',
                    'name-family', 'int-boundary', 'timeout-boundary', 'dir-len', 'user-len', 'keyword-len', 'file-size', 'file-shape', 'line-number',
                    'v-count', 'v-len', 'v-family', 'template-shape', 'execdir-len']
# classes that exist in some modes only (default: all)
BOUNDARY_MODES = {'regress-count': ('robsd-regress',), 'option-list-count': ('robsd-regress',), 'path-len': ('robsd-regress',),
                  'timeout-boundary': ('robsd-regress',), 'step-count': ('canvas',), 'step-args-count': ('canvas',), 'step-name-len': ('canvas',),
                  'name-family': ('robsd-regress', 'canvas'), 'user-len': ('robsd', 'robsd-ports', 'robsd-regress')}


def unq(t):
    return t[1:-1]


def q(s):
    return b'"' + s + b'"'


class Gen:
    def __init__(self, rng):
        self.rng = rng

    # ---- values
    def string(self, odd=0.12):
        r = self.rng
        if r.random() < 0.015:
            # a boundary length in ANY string position of ANY configuration (also reaches the lanes of C12 that take their
            # configurations from entries()); up to 1025 bytes here, the larger sizes are classes of boundary()
            return self.sized(r.choice([1, 127, 128, 129, 254, 255, 256, 511, 512, 513, 1023, 1024, 1025]))
        return r.choice(ODDSTR) if r.random() < odd else r.choice(GOODSTR)

    def strlist(self, lo=0, hi=3, odd=0.05):
        r = self.rng
        if r.random() < 0.015:
            return [b'e%d' % i for i in range(r.choice([15, 16, 17, 31, 32, 33, 63, 64, 65]))]      # list vector growth steps
        return [self.string(odd) for _ in range(r.randint(lo, hi))]

    def listtoks(self, items):
        return [b'{'] + [q(s) for s in items] + [b'}']

    def integer(self):
        r = self.rng
        return r.choice([0, 1, 2, 7, 10, 42, 300, 65535, 2147483646, 2147483647, r.randint(0, 100000)])

    def directory(self, have_robsddir, root):
        r = self.rng
        opts = [R + b'/d1', R + b'/d2', R + b'/d1/', R + b'/d1/../d2', R + b'//d1', R + b'/' + root]
        if have_robsddir:
            opts += [b'${robsddir}', b'${robsddir}/../d1', b'${robsddir}/']
            if root == b'root':
                opts.append(b'${robsddir}/sub')
        return r.choice(opts)

    def value(self, kind, st):
        r = self.rng
        if kind == 'bool':
            return [r.choice([b'yes', b'no'])]
        if kind == 'int':
            return [str(self.integer()).encode()]
        if kind == 'str':
            return [q(self.string())]
        if kind == 'user':
            return [q(r.choice([b'root', b'nobody', b'root']))]
        if kind == 'dir':
            return [q(self.directory(st['robsddir'], st['root']))]
        if kind == 'glob':
            return [q(r.choice([R + b'/root/p-*.diff', R + b'/root/nomatch-*.diff', R + b'/root/p-one.diff', R + b'/root/*.txt',
                                R + b'/root/p-???.diff']))]
        if kind == 'list':
            return self.listtoks(self.strlist())
        if kind == 'timeout':
            n, u = r.choice([(1, b's'), (1, b'm'), (1, b'h'), (0, b's'), (90, b'm'), (35791394, b'm'), (596523, b'h'), (2147483647, b's'),
                             (r.randint(0, 5000), r.choice([b's', b'm', b'h']))])
            return [str(n).encode(), u] if r.random() < 0.5 else [str(n).encode() + u]
        if kind == 'regress':
            return self.regress_entry(st)
        if kind == 'step':
            return self.step_entry(st)
        raise ValueError(kind)

    def regress_entry(self, st):
        r = self.rng
        path = r.choice(PATHS) if r.random() < 0.85 else r.choice(st['paths'] or PATHS)
        st['paths'].append(path)
        toks = [q(path)]
        for _ in range(r.choice([0, 0, 0, 1, 1, 2, 3, 5])):
            o = r.choice(['env', 'no-parallel', 'obj', 'packages', 'quiet', 'root', 'targets'])
            if o == 'env':
                items = [r.choice([b'FOO=1', b'BAR=2', b'RD=${rdomain}', b'${rdomain} ${rdomain}', b'X=${regress-a-env}', b'P=${ncpu}',
                                   b'${regress-env}', b'Q=${nope}']) for _ in range(r.randint(0, 3))]
                toks += [b'env'] + self.listtoks(items)
            elif o in ('obj', 'packages', 'targets'):
                toks += [o.encode()] + self.listtoks([r.choice([b'one', b'two', b'usr.bin/make', b'exabgp', b'all', b'${arch}']) for _ in range(r.randint(0, 3))])
            else:
                toks.append(o.encode())
        return toks

    def step_entry(self, st):
        r = self.rng
        name = r.choice([b'first', b'build', b'lint', b'a', b'end', b'two words', b'x/y', b'build-all', b'li', b'en']) if r.random() < 0.8 else r.choice(st['steps'] or [b'first'])
        st['steps'].append(name)
        cmd = self.listtoks([r.choice([b'true', b'sh', b'-c', b'echo hi', b'${canvas-name}', b'${trace}', b'-x']) for _ in range(r.randint(1, 4))])
        parts = [[b'command'] + cmd]
        if r.random() < 0.4:
            parts.append([b'parallel'])
        if r.random() < 0.1:
            parts.append([b'command'] + self.listtoks([b'true']))
        r.shuffle(parts)
        return [q(name)] + [t for p in parts for t in p]

    # ---- configurations
    def entries(self, mode, popt=0.35):
        r = self.rng
        st = {'robsddir': False, 'root': r.choice(ROOTS), 'paths': [], 'steps': []}
        chosen = []
        for kw, kind, req, rep in SCHEMA[mode]:
            n = 1 if req else (1 if r.random() < popt else 0)
            if rep and n:
                n = r.choice([1, 1, 2, 3, 4, 6])
            chosen += [(kw, kind)] * n
        r.shuffle(chosen)
        # the root directory first most of the time (later entries may refer to it)
        if r.random() < 0.8:
            for i, (kw, kind) in enumerate(chosen):
                if kw in (b'robsddir', b'canvas-dir'):
                    chosen.insert(0, chosen.pop(i))
                    break
        ents = []
        for kw, kind in chosen:
            if kw in (b'robsddir', b'canvas-dir'):
                v = [q(R + b'/' + st['root'])]
                ents.append([kw] + v)
                st['robsddir'] = True
            elif kw == b'canvas-name':
                # never the name of a program: step commands may start with ${canvas-name}
                ents.append([kw, q(r.choice([b'plain', b'x=1', b'UPPER', b'with space', b'knfmt', b'${arch}']))])
            else:
                ents.append([kw] + self.value(kind, st))
        return ents, st

    def render(self, ents, plain=False):
        r = self.rng
        out = b''
        if not plain and r.random() < 0.2:
            out += r.choice([b'# leading comment\n', b'\n\n', b'  \t', b'#\n#x\n', b'#\n', b'#\n# heading\n#\n'])
        for e in ents:
            line = b''
            for i, t in enumerate(e):
                if i:
                    prev = e[i - 1]
                    tight_ok = (prev[-1:] in b'"{}' or t[:1] in b'"{}')
                    if not plain and tight_ok and r.random() < 0.08:
                        sep = b''
                    else:
                        sep = b' ' if plain else r.choice(WS)
                    line += sep
                line += t
            out += line
            if plain:
                out += b'\n'
            else:
                k = r.random()
                # comments of every shape, the EMPTY one included (a bare '#' right before the newline, alone on a line or after an entry)
                out += b'\n' if k < 0.70 else (b' # trailing comment\n' if k < 0.78 else (b'\n\n' if k < 0.83 else (b'\n# c "x" {\n' if k < 0.88 else (b'\n#\n' if k < 0.94 else (b' #\n' if k < 0.97 else b'\n')))))
        if not plain:
            k = r.random()
            if k < 0.05 and out.endswith(b'\n'):
                out = out[:-1]
            elif k < 0.1:
                out += b'# comment without newline'
        return out

    def template(self, mode, st, rdn=None):
        r = self.rng
        names = [kw for kw, _, _, _ in SCHEMA[mode]] + READONLY + READONLY_MODE[mode]
        if mode == 'robsd-regress':
            ps = list(dict.fromkeys(st['paths']))[:4] + [b'nein']
            for p in ps:
                for s in (b'env', b'quiet', b'root', b'targets', b'parallel'):
                    if r.random() < 0.7:
                        names.append(b'regress-' + p + b'-' + s)
            if r.random() < 0.5:
                # names next to the pattern rows regress-*-env / -targets / -parallel: no test name, the star itself, nested suffixes
                names += r.sample([b'regress--env', b'regress-targets', b'regress-*-env', b'regress-*-targets', b'regress-x-env-env',
                                   b'regress--targets', b'regress-a-b-parallel', b'regress-parallel', b'regress-a-targets-env',
                                   b'regress-envx', b'regress-a-Env'], 4)
        if r.random() < 0.5:
            r.shuffle(names)
        lines = [n + b'=<${' + n + b'}>' for n in names]
        if r.random() < 0.4:
            # many references on one line: computed defaults are defined by the first one, the later ones read the variable
            some = [r.choice(names) for _ in range(r.choice([2, 3, 8, 30]))]
            lines.insert(r.randint(0, len(lines)), b'many=' + b' '.join(b'${' + n + b'}' for n in some))
        if mode == 'robsd-regress':
            if rdn is None:
                rdn = r.choice([0, 1, 2, 3, 10, 244, 245, 246, 247, 300, 500])
            if rdn:
                lines.insert(r.randint(0, len(lines)), b'rd=' + b' '.join([b'${rdomain}'] * rdn))
        return b'\n'.join(lines) + b'\n'

    # ---- ${builddir} needed while ${builddir} is being computed (findings/D18_builddir_reentry.md)
    def reentry(self, mode, ents, st):
        """returns (label, text): the root directory's value refers to a list variable that is defined LATER and
        expands to ${builddir} (directly or through a documented default rooted in builddir); a later directory
        value may need ${builddir} while parsing"""
        r = self.rng
        via = r.choice([b'hook', b'skip'])
        rootkw = b'canvas-dir' if mode == 'canvas' else b'robsddir'
        ents = [list(e) for e in ents if e[0] not in (via, rootkw)]
        inner = r.choice([b'${builddir}', b'${tmp-dir}', b'${comment-path}', b'a${report-path}', b'${tags-path}', b'${builddir}${builddir}'])
        root = [rootkw, q(R + b'/' + st['root'] + b'/${' + via + b'}')]
        late = [via] + self.listtoks(r.choice([[inner], [b'x', inner], []]))
        k = r.random()
        if k < 0.15:
            ents = [late, root] + ents                       # defined first: the root directory is rejected while parsing
            label = 'builddir-reentry-early'
        else:
            ents = [root] + ents
            ents.insert(r.randint(1, len(ents)), late)
            label = 'builddir-reentry'
        if mode in ('robsd', 'robsd-cross', 'robsd-regress') and r.random() < 0.3:
            ents.append([b'bsd-srcdir', q(r.choice([b'${builddir}', b'${robsddir}', b'${tmp-dir}']))])
            ents = [e for i, e in enumerate(ents) if e[0] != b'bsd-srcdir' or i == len(ents) - 1]
            label += '-parse'
        return label, self.render(ents, plain=r.random() < 0.5)

    # ---- boundary classes: sizes, counts, integers, name families, file shapes (see BOUNDARY_CLASSES)
    def sized(self, n, last=b'Z'):
        """exactly n bytes of [a-z0-9] ending in a byte that occurs nowhere else: a copy through a buffer one byte short, or a
        comparison that stops early, shows"""
        if n <= 0:
            return b''
        a = b'abcdefghijklmnopqrstuvwxyz0123456789'
        return bytes(a[(i * 7 + 3) % 36] for i in range(n - 1)) + last

    def pick_len(self, lens=None, big=False, cap=None):
        """a boundary length; the extracted model's cost on one string is quadratic (4096 bytes: 0.1 s, 8192: 0.5 s, 16384: 3 s per
        parse, 65536: minutes), hence the cap at 8193 in the quick tier and 16385 when [big]; the small sizes come more often"""
        r = self.rng
        lens = lens or (LENS + (LENS_BIG if big else []))
        if cap:
            lens = [n for n in lens if n <= cap]
        w = [6 if n <= 1025 else (3 if n <= 4097 else (1 if n <= 8193 else 0.5)) for n in lens]
        return r.choices(lens, w)[0]

    def pick_count(self, counts=None):
        r = self.rng
        counts = counts or COUNTS
        return r.choices(counts, [1 if n >= 255 else 4 for n in counts])[0]

    def minimal(self, mode, root=b'/'):
        """the smallest valid configuration of a mode, rooted in a directory that exists everywhere: its size in bytes is known
        when the case is generated (no @R@)"""
        return {'robsd': [[b'robsddir', q(root)], [b'destdir', q(root)]],
                'robsd-cross': [[b'robsddir', q(root)], [b'crossdir', q(b'x')]],
                'robsd-ports': [[b'robsddir', q(root)], [b'chroot', q(root)], [b'ports'] + self.listtoks([b'p']), [b'ports-user', q(b'root')]],
                'robsd-regress': [[b'robsddir', q(root)], [b'regress', q(b'a')]],
                'canvas': [[b'canvas-name', q(b'n')], [b'canvas-dir', q(root)], [b'step', q(b's'), b'command'] + self.listtoks([b'true'])]}[mode]

    def literal_steps(self, ents):
        """every canvas step gets the command { "echo" "STEP<k>" }, k its position: what ran is then known from the output (C10)"""
        k = 0
        for e in ents:
            if e[0] == b'step':
                k += 1
                par = [b'parallel'] if b'parallel' in e[2:] else []
                e[2:] = par + [b'command'] + self.listtoks([b'echo', b'STEP%d' % k])

    def boundary(self, mode, ents, st, want=None, size=None, big=False, cap=None):
        """ONE boundary class applied to the valid configuration [ents] of [mode].  Returns a dict: label (the class, printed into
        the input distribution), ents (what is configured now - C10 derives the expected schedule from it), text, and optionally
        vars (-v definitions), stdin (a template of its own), literal (every canvas step prints its position), valid (False when
        the class is an error on purpose).  [want] selects the class, [size] the length / count / value index (corpus), [cap] bounds
        the generated string lengths (a harness that asks the model a dozen questions per case: C10).
        Caps (said where they bite): strings <= 8193 bytes (16385 when [big]) because of the model's cost; no payload that makes a
        DIAGNOSTIC longer than ~480 bytes (warnx goes through a 512-byte vsnprintf which the model does not transcribe - TRUSTED of
        c08.py), so unknown keywords / unknown users / failing paths stop at 256 bytes and long names are always DEFINED ones."""
        r = self.rng
        ents = [list(e) for e in ents]
        avail = [c for c in BOUNDARY_CLASSES if c not in BOUNDARY_MODES or mode in BOUNDARY_MODES[c]]
        cls = want or r.choice(avail)
        if cls not in avail:
            cls = 'string-len'
        out = {'valid': True}
        plain = r.random() < 0.5
        text = None

        def drop(kw):
            return [e for e in ents if e[0] != kw]

        def put(e, first=False):
            # behind the root directory (its value is what later entries refer to)
            at = 0
            for i, x in enumerate(ents):
                if x[0] in (b'robsddir', b'canvas-dir'):
                    at = i + 1
            ents.insert(at if first else r.randint(at, len(ents)), e)
        if cls == 'string-len':
            n = size or self.pick_len(big=big, cap=cap)
            kw = {'robsd': b'kernel', 'robsd-cross': b'crossdir', 'robsd-ports': b'cvs-root', 'robsd-regress': b'sudo', 'canvas': b'canvas-name'}[mode]
            k = r.random()
            if k < 0.5:
                ents = drop(kw)
                put([kw, q(self.sized(n))])
            elif k < 0.75 and n > 8:
                ents = drop(kw)
                put([kw, q(self.sized(n - 7) + b'${arch}')])          # the token has n bytes, its value grows while interpolating
            else:
                ents = drop(b'hook')
                put([b'hook'] + self.listtoks([b'x', self.sized(n), b'y']))
            out['label'] = 'string-len %d' % n
        elif cls == 'list-count':
            n = self.pick_count() if size is None else size
            kw = r.choice([b'hook', b'skip'] + ([b'ports'] if mode == 'robsd-ports' else []) + ([b'regress-env'] if mode == 'robsd-regress' else []))
            ents = drop(kw)
            put([kw] + self.listtoks([b'i%d' % i for i in range(n)]))
            out['label'] = 'list-count %d' % n
        elif cls == 'regress-count':
            n = self.pick_count([1, 15, 16, 17, 31, 32, 33, 63, 64, 65, 255, 256]) if size is None else size
            ents = drop(b'regress')
            paths = [b't/%03d' % i for i in range(n)]
            for p in paths:
                e = [b'regress', q(p)]
                if r.random() < 0.3:
                    e.append(b'no-parallel')
                if r.random() < 0.1:
                    e += [b'env'] + self.listtoks([b'N=' + p])
                ents.append(e)
            st['paths'] = [paths[-1], paths[0], paths[len(paths) // 2]] + st['paths']
            out['label'] = 'regress-count %d' % n
        elif cls == 'option-list-count':
            n = self.pick_count() if size is None else size
            p = b'opt/count'
            opt = r.choice([b'env', b'targets', b'packages', b'obj'])
            put([b'regress', q(p), opt] + self.listtoks([b'V%d=%d' % (i, i) if opt == b'env' else b't%d' % i for i in range(n)]))
            st['paths'] = [p] + st['paths']
            out['label'] = 'option-list-count %d' % n
        elif cls == 'step-count':
            n = self.pick_count([1, 15, 16, 17, 31, 32, 33, 63, 64, 65, 255, 256]) if size is None else size
            ents = drop(b'step')
            for i in range(n):
                ents.append([b'step', q(b's%03d' % i)] + ([b'parallel'] if r.random() < 0.3 else []) + [b'command'] + self.listtoks([b'true']))
            self.literal_steps(ents)
            out['literal'] = True
            out['label'] = 'step-count %d' % n
        elif cls == 'step-args-count':
            n = self.pick_count([1, 2, 15, 16, 17, 31, 32, 33, 63, 64, 65, 255, 256]) if size is None else size
            put([b'step', q(b'manyargs'), b'command'] + self.listtoks([b'echo'] + [b'a%d' % i for i in range(n - 1)]))
            out['label'] = 'step-args-count %d' % n
        elif cls == 'path-len':
            # regress-<path>-<suffix> is 9..17 bytes longer than the path: the names cross 255/256, 1023/1024, 4095/4096 for path
            # lengths just below; a companion path that is the long one minus its last byte carries other options
            lens = [1, 2] + list(range(236, 246)) + [254, 255, 256] + list(range(1005, 1014)) + [1023, 1024, 1025] + list(range(4077, 4086)) + [4095, 4096, 4097]
            lens = [x for x in lens if not cap or x <= cap]
            n = size or r.choices(lens, [3 if x <= 256 else (2 if x <= 1025 else 1) for x in lens])[0]
            p = b'lib/' + self.sized(n - 4) if n > 5 else self.sized(n)
            comp = p[:-1] if n > 1 else b'z'
            ents = [e for e in ents if not (e[0] == b'regress' and unq(e[1]) in (p, comp))]
            a = [b'regress', q(p), b'no-parallel', b'env'] + self.listtoks([b'WHO=long']) + [b'quiet', b'targets'] + self.listtoks([b'tlong'])
            b = [b'regress', q(comp), b'root', b'env'] + self.listtoks([b'WHO=comp']) + [b'targets'] + self.listtoks([b'tcomp'])
            two = [a, b]
            r.shuffle(two)
            for e in two:
                put(e)
            st['paths'] = [p, comp] + st['paths']
            # a template of its own: only names that are defined (an unknown 4 KiB name would be quoted in a diagnostic)
            lines = [b'regress-' + x + b'-' + s + b'=<${regress-' + x + b'-' + s + b'}>' for x, ss in ((p, (b'env', b'targets', b'parallel', b'quiet')), (comp, (b'env', b'targets', b'root')))
                     for s in ss]
            lines += [b'regress=<${regress}>', b'keep=<${keep}>']
            r.shuffle(lines)
            out['stdin'] = b'\n'.join(lines) + b'\n'
            out['label'] = 'path-len %d' % n
        elif cls == 'step-name-len':
            n = size or self.pick_len([x for x in LENS if x <= 4097] + ([8191, 8192, 8193] if big else []), cap=cap)    # the model needs 5 s for a schedule with an 8 KiB name
            nm = self.sized(n)
            comp = nm[:-1] if n > 1 else b'y'
            two = [[b'step', q(nm), b'command'] + self.listtoks([b'true'])], [[b'step', q(comp), b'command'] + self.listtoks([b'true'])]
            two = [t[0] for t in two]
            r.shuffle(two)
            for e in two:
                put(e)
            self.literal_steps(ents)
            out['literal'] = True
            out['label'] = 'step-name-len %d' % n
        elif cls == 'name-family':
            fams = {'case': [b'bin/ksh', b'bin/KSH', b'Bin/ksh', b'BIN/KSH'],
                    'adjacent': [b'a', b'a-', b'a.', b'a/', b'a0', b'a_', b'a\x7f', b'`'],
                    'separator': [b'x=y', b'x,y', b'x-y', b'x.y', b'x/y', b'x y', b'x', b'y'],
                    'suffix-collision': [b'a', b'a-env', b'a-targets', b'a-parallel', b'a-quiet', b'a-root']}
            which = r.choice(sorted(fams)) if size is None else sorted(fams)[size % len(fams)]
            fam = list(fams[which])
            r.shuffle(fam)
            fam = fam[:r.randint(3, len(fam))] if size is None else fam
            if mode == 'canvas':
                for nm in fam:
                    put([b'step', q(nm), b'command'] + self.listtoks([b'true']))
                self.literal_steps(ents)
                out['literal'] = True
            else:
                for i, nm in enumerate(fam):
                    e = [b'regress', q(nm)]
                    if i % 2:
                        e.append(b'no-parallel')
                    e += [b'env'] + self.listtoks([b'WHO=%d' % i])
                    if i % 3 == 0:
                        e += [b'targets'] + self.listtoks([b't%d' % i])
                    put(e)
                st['paths'] = fam[:4] + st['paths']
            out['label'] = 'name-family ' + which
        elif cls == 'int-boundary':
            vals = [b'0', b'1', b'2147483646', b'2147483647', b'2147483648', b'4294967295', b'4294967296', b'4294967297', b'9223372036854775807',
                    b'9223372036854775808', b'18446744073709551615', b'18446744073709551616', b'18446744073709551617', b'00', b'07', b'0' * 9 + b'7',
                    b'0' * 10 + b'7', b'0' * 19 + b'7', b'0' * 20 + b'7', b'0' * 1023 + b'7', b'0' * 4096 + b'1', b'0000000000002147483647',
                    b'0000000000002147483648', b'2147483647' + b'0', b'214748364' + b'8']
            i = r.randrange(len(vals)) if size is None else size % len(vals)
            kw = r.choice([b'keep', b'stat-interval'])
            ents = drop(kw)
            put([kw, vals[i]])
            out['valid'] = int(vals[i]) <= 2147483647
            out['label'] = 'int-boundary ' + (vals[i].decode() if len(vals[i]) < 24 else '%d digits' % len(vals[i]))
        elif cls == 'timeout-boundary':
            vals = [(b'0', b's'), (b'1', b's'), (b'2147483647', b's'), (b'2147483648', b's'), (b'35791394', b'm'), (b'35791395', b'm'), (b'596523', b'h'),
                    (b'596524', b'h'), (b'4294967296', b's'), (b'4294967297', b'm'), (b'71582789', b'm'), (b'1193047', b'h'), (b'0', b'h'),
                    (b'9223372036854775807', b's'), (b'0' * 20 + b'1', b'h')]
            i = r.randrange(len(vals)) if size is None else size % len(vals)
            ents = drop(b'regress-timeout')
            n, u = vals[i]
            put([b'regress-timeout', n, u] if r.random() < 0.5 else [b'regress-timeout', n + u])
            out['valid'] = int(n) * {b's': 1, b'm': 60, b'h': 3600}[u] <= 2147483647 and int(n) <= 2147483647
            out['label'] = 'timeout-boundary %s%s' % (n.decode() if len(n) < 20 else '%d digits ' % len(n), u.decode())
        elif cls == 'dir-len':
            # "/" spelled with "./" components: exists whatever its length up to PATH_MAX - 1; 4096 and more fail with ENAMETOOLONG
            # and the diagnostic would quote the whole path (> 512 bytes, not transcribed) - stop at 4095
            lens = [1, 2, 254, 255, 256, 1023, 1024, 1025, 4093, 4094, 4095]
            n = size or r.choice(lens)
            d = b'/' + b'./' * ((n - 1) // 2) + (b'/' if (n - 1) % 2 else b'')
            assert len(d) == n
            kw = {'robsd': b'bsd-srcdir', 'robsd-cross': b'bsd-srcdir', 'robsd-regress': b'bsd-srcdir', 'robsd-ports': b'robsddir', 'canvas': b'canvas-dir'}[mode]
            had = [i for i, e in enumerate(ents) if e[0] == kw]
            if had:
                ents[had[0]] = [kw, q(d)]
            else:
                put([kw, q(d)])
            out['label'] = 'dir-len %d' % n
        elif cls == 'user-len':
            n = size or r.choice([1, 8, 31, 32, 33, 255, 256])
            kw = {'robsd': b'cvs-user', 'robsd-ports': b'ports-user', 'robsd-regress': b'regress-user'}[mode]
            ents = drop(kw)
            put([kw, q(self.sized(n, last=b'z'))])
            out['valid'] = False
            out['label'] = 'user-len %d' % n
        elif cls == 'keyword-len':
            # unknown keywords up to 256 bytes (the diagnostic quotes them), and the neighbours of a real keyword
            near = [b'kee', b'keepp', b'keep-', b'keep-atti', b'keep-attic-', b'keep0', b'-keep', b'k', b'hoo', b'hooks', b'skipp', b'ski']
            if size is None:
                kw = r.choice(near) if r.random() < 0.5 else bytes(97 + (i * 5) % 26 for i in range(r.choice([1, 254, 255, 256])))
            else:
                kw = near[size % len(near)] if size < 100 else bytes(97 + (i * 5) % 26 for i in range(size))
            put([kw, r.choice([b'1', b'yes', q(b'v')])])
            out['valid'] = False
            out['label'] = 'keyword-len %d' % len(kw) if len(kw) > 100 else 'keyword-neighbour'
        elif cls == 'file-size':
            # the whole file has exactly N bytes: a block boundary of the reader falls on the last token / behind the last newline
            sizes = [4095, 4096, 4097, 8191, 8192, 8193, 65535, 65536, 65537]
            n = size or r.choice(sizes)
            ents = self.minimal(mode)
            base = self.render(ents, plain=True)
            how = r.choice(['leading-comment', 'inner-space', 'trailing-comment', 'trailing-newlines', 'no-final-newline'])
            pad = n - len(base)
            if how == 'leading-comment':
                text = b'#' + b'c' * (pad - 2) + b'\n' + base
            elif how == 'inner-space':
                i = base.rindex(b' "') if b' "' in base else base.index(b' ')
                text = base[:i] + b' ' * pad + base[i:]
            elif how == 'trailing-comment':
                text = base + b'#' + b't' * (pad - 1)
            elif how == 'trailing-newlines':
                text = base + b'\n' * pad
            else:
                text = b'#' + b'c' * (pad - 1) + b'\n' + base[:-1]
            assert len(text) == n
            out['label'] = 'file-size %d' % n
        elif cls == 'file-shape':
            shapes = ['empty', 'only-comment', 'only-comment-no-newline', 'only-whitespace', 'only-newlines', 'crlf', 'cr-only', 'no-final-newline',
                      'nul-last', 'nul-first', 'bom', 'ff-vt']
            sh = r.choice(shapes) if size is None else shapes[size % len(shapes)]
            base = self.render(ents, plain=True)
            text = {'empty': b'', 'only-comment': b'# nothing here\n', 'only-comment-no-newline': b'#', 'only-whitespace': b' \t \r\x0b\x0c ',
                    'only-newlines': b'\n' * 300, 'crlf': base.replace(b'\n', b'\r\n'), 'cr-only': base.replace(b'\n', b'\r'),
                    'no-final-newline': base[:-1], 'nul-last': base + b'\0', 'nul-first': b'\0' + base, 'bom': b'\xef\xbb\xbf' + base,
                    'ff-vt': base.replace(b'\n', b'\x0c\x0b\n')}[sh]
            out['valid'] = sh in ('crlf', 'cr-only', 'no-final-newline', 'ff-vt')
            if sh in ('empty', 'only-comment', 'only-comment-no-newline', 'only-whitespace', 'only-newlines'):
                ents = []
            out['label'] = 'file-shape ' + sh
        elif cls == 'line-number':
            n = size or r.choice([254, 255, 256, 65534, 65535, 65536])
            ents = self.minimal(mode)
            text = b'\n' * n + self.render(ents, plain=True) + r.choice([b'bogus 1\n', b'keep "x"\n', b'keep 99999999999\n', b'skip {\n'])
            out['valid'] = False
            out['label'] = 'line-number %d' % n
        elif cls == 'v-count':
            n = self.pick_count() if size is None else size
            out['vars'] = [b'v%d=%d' % (i, i) for i in range(n)]
            out['stdin'] = b''.join(b'v%d=<${v%d}>\n' % (i, i) for i in sorted({0, n // 2, max(0, n - 2), max(0, n - 1)}) if i < n) + b'keep=<${keep}>\n'
            out['label'] = 'v-count %d' % n
        elif cls == 'v-len':
            n = size or self.pick_len(big=big, cap=cap)
            if r.random() < 0.5:
                out['vars'] = [b'long=' + self.sized(n), b'lon=short']
                out['stdin'] = b'long=<${long}>\nlon=<${lon}>\n'
            else:
                nm = self.sized(n, last=b'z')
                out['vars'] = [nm + b'=whole', nm[:-1] + b'y=other'] + ([nm[:-1] + b'=prefix'] if n > 1 else [])
                out['stdin'] = b'a=<${' + nm + b'}>\nb=<${' + nm[:-1] + b'y}>\n' + (b'c=<${' + nm[:-1] + b'}>\n' if n > 1 else b'')
            out['label'] = 'v-len %d' % n
        elif cls == 'v-family':
            out['vars'] = [b'x=1', b'X=2', b'xx=3', b'x-=4', b'x-y=5', b'x=6=7', b'y==', b'z= ', b'w=a\nb']
            r.shuffle(out['vars'])
            out['stdin'] = b'x=<${x}>\nX=<${X}>\nxx=<${xx}>\nx-=<${x-}>\nx-y=<${x-y}>\ny=<${y}>\nz=<${z}>\nw=<${w}>\n'
            out['label'] = 'v-family'
        elif cls == 'template-shape':
            shapes = ['empty', 'no-final-newline', 'only-newline', 'crlf', 'nul', 'line-len', 'line-count', 'refs-count', 'ref-at-block']
            sub = None
            if isinstance(size, (list, tuple)):
                size, sub = size                              # (shape, its length / count / offset): corpus cases
            sh = r.choice(shapes) if size is None else shapes[size % len(shapes)]
            if sh == 'empty':
                t = b''
            elif sh == 'no-final-newline':
                t = b'keep=<${keep}>\nncpu=<${ncpu}>'
            elif sh == 'only-newline':
                t = b'\n'
            elif sh == 'crlf':
                t = b'keep=<${keep}>\r\nncpu=<${ncpu}>\r\n'
            elif sh == 'nul':
                t = b'keep=<${keep}>\nnul=<\0${ncpu}>\nafter=<${arch}>\n'
            elif sh == 'line-len':
                n = sub or self.pick_len(LENS + [65535, 65536, 65537])
                t = b'first=<${keep}>\n' + self.sized(n - 9) + b'<${keep}>\n' + b'last=<${ncpu}>\n'
                sh += ' %d' % n
            elif sh == 'line-count':
                n = sub or r.choices([255, 256, 4095, 4096, 65535, 65536], [4, 4, 4, 4, 1, 1])[0]     # 65536 lines: 7 s of model time
                t = b'k=<${keep}>\n' * (n - 1) + b'${nope}\n'             # the diagnostic names line n
                sh += ' %d' % n
            elif sh == 'refs-count':
                n = self.pick_count() if sub is None else sub
                t = b'many=' + b' '.join([b'${keep}', b'${ncpu}', b'${arch}'][i % 3] for i in range(n)) + b'\n'
                sh += ' %d' % n
            else:
                at = sub or r.choice([4093, 4094, 4095, 4096, 8189, 8190, 8191, 8192, 65533, 65535, 65536])
                t = b'x' * at + b'${keep}' + b'tail\nnext=<${ncpu}>\n'     # the reference starts at offset [at] of the input
                sh += ' %d' % at
            out['stdin'] = t
            out['label'] = 'template-shape ' + sh
        elif cls == 'execdir-len':
            # EXECDIR from the environment becomes ${exec-dir} (every script path of the schedule starts with it)
            n = size or self.pick_len([0] + LENS + [65535, 65536], cap=cap)
            out['execdir'] = (b'/' + self.sized(n - 1)) if n else b''
            out['stdin'] = b'exec-dir=<${exec-dir}>\nkeep=<${keep}>\n'
            out['label'] = 'execdir-len %d' % n
        else:
            raise ValueError(cls)
        out['ents'] = ents
        out['text'] = text if text is not None else self.render(ents, plain=plain)
        return out

    # ---- single-edit corruptions
    def corrupt(self, mode, ents, st):
        """returns (label, text) - the text of a configuration one edit away from the valid [ents]"""
        r = self.rng
        ents = [list(e) for e in ents]
        kinds = {kw: (kind, req, rep) for kw, kind, req, rep in SCHEMA[mode]}
        pick = r.choice(['unknown-keyword', 'wrong-type', 'drop-required', 'duplicate', 'missing-dir', 'missing-user', 'unterminated',
                         'int-overflow', 'timeout', 'empty-string', 'list-error', 'bytes', 'dir-interp', 'option-error', 'other-mode-word'])
        pos = r.randint(0, len(ents))

        def with_kind(ks):
            return [i for i, e in enumerate(ents) if kinds.get(e[0], ('?',))[0] in ks]
        if pick == 'unknown-keyword':
            others = [kw for m in SCHEMA for kw, _, _, _ in SCHEMA[m] if kw not in kinds]
            e = r.choice([[b'bogus', b'1'], [b'arch', q(b'exotic')], [b'ncpu', b'4'], [b'builddir', q(b'/x')], [r.choice(others), q(b'v')],
                          [b'rdomain', b'12'], [b'regress-obj', b'{', q(b'x'), b'}'], [b'target', q(b't')]])
            if mode == 'canvas' and r.random() < 0.4:
                e = [b'robsddir', q(R + b'/d2')]
                pick = 'canvas-robsddir'
                cd = [i for i, x in enumerate(ents) if x[0] == b'canvas-dir']
                if cd and r.random() < 0.7:
                    pos = r.randint(0, cd[0])
            ents.insert(pos, e)
        elif pick == 'wrong-type':
            i = r.randrange(len(ents))
            repl = r.choice([[b'1'], [q(b'str')], [b'yes'], [b'{', q(b'a'), b'}'], [b'}'], [b'{'], [b'kernel'], [], [b's'], [b'h'], [b'@']])
            ents[i] = [ents[i][0]] + repl + (ents[i][2:] if r.random() < 0.3 else [])
        elif pick == 'drop-required':
            req = [i for i, e in enumerate(ents) if kinds.get(e[0], (0, 0))[1]]
            if req:
                kw = ents[r.choice(req)][0]
                ents = [e for e in ents if e[0] != kw]
        elif pick == 'duplicate':
            cand = [i for i, e in enumerate(ents) if e[0] in kinds and not kinds[e[0]][2]]
            if cand:
                i = r.choice(cand)
                k = r.random()
                if k < 0.4:
                    e = list(ents[i])
                elif k < 0.7:
                    e = [ents[i][0]] + self.value(kinds[ents[i][0]][0], st)
                else:
                    # the repeated keyword's own parser answers ERROR, NOP or FATAL as well (Conf/ConfAbort.v: parse_keyword)
                    e = [ents[i][0]] + r.choice([[b'1'], [q(b'str')], [b'yes'], [b'{', q(b'a'), b'}'], [b'{', q(b'a')], [b'{', b'1', b'}'], [],
                                                 [q(R + b'/nope')], [q(R + b'/root/nomatch-*.diff')], [q(b'nosuchuser9')], [b'99999999999'],
                                                 [b'1', b'x'], [q(b'${nope}')], [b'""']])
                ents.insert(r.randint(i + 1, len(ents)), e)
                if r.random() < 0.25:
                    ents.insert(r.randint(i + 1, len(ents)), list(ents[i]))          # a third occurrence
        elif pick == 'missing-dir':
            c = with_kind(['dir'])
            if c:
                i = r.choice(c)
                ents[i] = [ents[i][0], q(r.choice([R + b'/nope', R + b'/f1', R + b'/f1/x', b'relative/nope', R + b'/d1/nope/deeper', b'/']))]
            elif mode != 'canvas':
                ents.insert(pos, [b'bsd-srcdir', q(R + b'/nope')])
        elif pick == 'missing-user':
            c = with_kind(['user'])
            e = q(r.choice([b'nosuchuser9', b'Root', b'root ', b'0']))
            if c:
                ents[r.choice(c)][1] = e
            elif mode in ('robsd', 'robsd-ports', 'robsd-regress'):
                ents.insert(pos, [b'cvs-user', e])
        elif pick == 'int-overflow':
            n = r.choice([2147483648, 4294967295, 4294967296, 99999999999, 21474836470, 9223372036854775808, 2147483647,
                          int('1' * 40), 4294967306, 42949672960])
            c = with_kind(['int', 'timeout'])
            if c:
                i = r.choice(c)
                ents[i][1] = str(n).encode() + (ents[i][1][-1:] if ents[i][1][-1:] in b'smh' and len(ents[i]) == 2 else b'')
            else:
                ents.insert(pos, [b'keep', str(n).encode()])
        elif pick == 'timeout' and mode == 'robsd-regress':
            ents = [e for e in ents if e[0] != b'regress-timeout']
            v = r.choice([[b'35791395', b'm'], [b'596524', b'h'], [b'2147483647', b'h'], [b'2147483647', b'm'], [b'1', b'x'], [b'1'], [b'1', b'yes'],
                          [b'1', b'{'], [b'1a'], [b'1', b'd'], [b'm'], [b'1', b'"s"'], [b'35791394', b'm'], [b'1', b'S'], [b'4294967297', b'h'], [b'715827883', b'm']])
            ents.insert(min(pos, len(ents)), [b'regress-timeout'] + v)
        elif pick == 'empty-string':
            c = with_kind(['str', 'user', 'dir', 'glob', 'list', 'regress', 'step'])
            if c:
                i = r.choice(c)
                js = [j for j, t in enumerate(ents[i]) if t.startswith(b'"')]
                if js:
                    ents[i][r.choice(js)] = b'""'
        elif pick == 'list-error':
            c = [i for i, e in enumerate(ents) if b'{' in e]
            if c:
                i = r.choice(c)
                j = ents[i].index(b'{')
                k = r.choice(['nolb', 'norb', 'nonstr', 'nested'])
                if k == 'nolb':
                    del ents[i][j]
                elif k == 'norb':
                    jj = len(ents[i]) - 1 - ents[i][::-1].index(b'}')
                    del ents[i][jj]
                elif k == 'nonstr':
                    ents[i].insert(j + 1, r.choice([b'1', b'yes', b'word', b'{']))
                else:
                    ents[i].insert(j + 1, b'{')
            else:
                ents.insert(pos, [b'skip', b'{', q(b'a')])
        elif pick == 'option-error':
            if mode == 'canvas':
                v = r.choice([[q(b's')], [q(b's'), b'command', b'{', b'}'], [q(b's'), b'parallel'], [q(b's'), b'command'], [b'command', b'{', q(b'a'), b'}'],
                              [q(b's'), b'command', b'{', q(b'a'), b'}', b'command', b'{', b'}'], [q(b's'), b'parallel', b'parallel', b'command', b'{', q(b'a'), b'}'],
                              [q(b's'), b'command', b'{', q(b'a'), b'1', b'}'], [q(b's'), b'env', b'{', q(b'a'), b'}']])
                ents.insert(pos, [b'step'] + v)
            elif mode == 'robsd-regress':
                v = r.choice([[q(b'p'), b'noway'], [q(b'p'), b'env'], [q(b'p'), b'env', b'{', q(b'$x'), b'}'], [q(b'p'), b'env', b'{', q(b'${regress-p-env}'), b'}'],
                              [q(b'p'), b'targets', q(b'all')], [q(b'p'), b'obj', b'{', b'1', b'}'], [b'root'], [q(b'p'), b'root', b'root', b'quiet', b'quiet'],
                              [q(b'p'), b'env', b'{', q(b'${'), b'}'], [q(b'p'), b'packages', b'{', q(b'a')], [q(b'p'), b'parallel'], [q(b'p'), b'command', b'{', q(b'a'), b'}'],
                              [q(b'p'), b'env', b'{', q(b'A=${regress-q-env}'), b'}'], [q(b'q'), b'env', b'{', q(b'B=${regress-p-env}'), b'}', b'root']])
                ents.insert(pos, [b'regress'] + v)
            else:
                ents.insert(pos, [b'hook', b'{', q(b'a'), b'}', b'}'])
        elif pick == 'other-mode-word':
            ents.insert(pos, [r.choice([b'h', b'm', b's', b'yes', b'no', b'command', b'parallel', b'env', b'root', b'obj', b'quiet', b'targets', b'packages',
                                        b'no-parallel'])] + r.choice([[], [b'1'], [q(b'x')]]))
        if pick in ('unterminated', 'bytes', 'dir-interp'):
            text = self.render(ents)
            if pick == 'unterminated':
                k = r.random()
                if k < 0.4 and b'"' in text:
                    idx = [i for i, ch in enumerate(text) if ch == 0x22]
                    text = text[:r.choice(idx) + 1 + r.randint(0, 2)]
                    if text.count(b'"') % 2 == 0:
                        text += b' kernel "open'
                elif k < 0.7:
                    text += b'kernel "never closed\n'
                else:
                    text += b'"'
            elif pick == 'bytes':
                ins = r.choice([b'\x00', b'\x00keep 1\n', b'@', b'KEEP 1\n', b'keep-Attic yes\n', b'\x80', b'=', b'keep = 1\n', b'-keep 1\n', b'keep -1\n',
                                b'# c\x00keep "x"\n', b'keep 1 2\n', b'1\n', b'"str"\n', b'{ }\n', b'keep1 1\n', b'keep 1keep 2\n', b'\xff\xfe', b'keep 0x10\n'])
                at = r.choice([0, len(text)] + [i + 1 for i, ch in enumerate(text) if ch == 10])
                text = text[:at] + ins + text[at:]
            else:
                bad = r.choice([b'${nope}', b'$x', b'${', b'${}', b'${robsddir', b'/x${rdomain}', b'${builddir}', b'${tmp-dir}', b'${keep-dir}/..',
                                b'${trace}', b'${exec-dir}', R + b'/${regress-a-targets}', b'${regress}', b'${step}'])
                kw = b'bsd-srcdir' if mode != 'robsd-ports' and mode != 'canvas' else (b'canvas-dir' if mode == 'canvas' else b'robsddir')
                line = kw + b' ' + q(bad) + b'\n'
                if kw in (b'canvas-dir', b'robsddir'):
                    text = b'\n'.join(l for l in text.split(b'\n') if not l.lstrip().startswith(kw)) + b'\n' + line
                else:
                    text = b'\n'.join(l for l in text.split(b'\n') if not l.lstrip().startswith(kw)) + b'\n' + line
            return pick, text
        return pick, self.render(ents)
