"""End-to-end runs of canvas shared by C04 and C11: a configuration of gated probe steps (synchronous /
parallel, exit codes, skip set, ncpu), a completion order chosen by the generator; after every completion the
model (eager main loop) predicts which steps start next and the harness waits for exactly those."""
import hashlib, json, os, re, shutil, subprocess, tempfile, time
import common, orch_env

NAMES = ['a', 'b', 'c', 'd', 'e', 'f', 'g', 'h']


def gen_case(rng):
    n = rng.randint(2, 7)
    steps = []
    heavy = rng.random() < 0.45         # runs of parallel steps longer than ncpu
    if heavy:
        n = rng.randint(4, 7)
    for i in range(n):
        par = rng.random() < (0.9 if heavy else 0.55)
        ex = 0 if rng.random() < (0.8 if not par else 0.7) else rng.choice([1, 2, 124, 255])
        steps.append({'name': NAMES[i], 'parallel': par, 'exit': ex})
    skip = [s['name'] for s in steps if rng.random() < 0.12]
    ncpu = rng.choice([1, 2] if heavy else [1, 2, 2, 3])
    # completion order preference: a permutation; among the steps running at a time the earliest in this list finishes first
    order = [s['name'] for s in steps]
    rng.shuffle(order)
    if heavy and rng.random() < 0.6:
        # newest first: while the queue is full, a job that is not the oldest finishes first
        order = [s['name'] for s in reversed(steps)]
    second = rng.random() < 0.2
    return {'steps': steps, 'skip': skip, 'ncpu': ncpu, 'order': order, 'detached': rng.random() < 0.25,
            'second_invocation': second,
            # how the second invocation is made: a fresh one, or a resume of an older invocation of the same day whose
            # directory name is a proper prefix of the running one's (DATE.1 while DATE.10 runs)
            'second_kind': rng.choice(['fresh', 'resume-prefix']) if second else None}


def step_toks(case):
    steps = case['steps'] + [{'name': 'end', 'parallel': False, 'exit': 0}]
    t = [str(len(steps))]
    for i, s in enumerate(steps, 1):
        t += [str(i), s['name'].encode().hex(), '1' if s.get('parallel') else '0', str(s['exit'])]
    return t, {s['name']: i for i, s in enumerate(steps, 1)}


def skip_rows(case, ids):
    rows = [(ids[n], n) for n in case['skip']]
    rows.sort()
    t = [str(len(rows))]
    for i, n in rows:
        t += [str(i), n.encode().hex(), '0', '1']
    return t


def model(drv, case, finished):
    st, ids = step_toks(case)
    q = ' '.join(['eager', str(case['ncpu'])] + st + skip_rows(case, ids) + [str(len(finished))] + [str(ids[n]) for n in finished])
    a = common.run_driver(drv, [q])[0]
    if a.startswith('EXN'):
        return None
    mode, running, starts, rows, hooks, eff = [x.strip() for x in a.split('|')]
    inv = {v: k for k, v in ids.items()}
    return {'mode': mode, 'running': [inv[int(x)] for x in running.split(',') if x],
            'starts': [inv[int(x)] for x in starts.split(',') if x], 'rows': rows, 'hooks': hooks.split(), 'eff': eff.split()}


# waiting times are multiplied by SCALE; a case that looks late is repeated alone with SCALE > 1 (see c04.evaluate)
SCALE = 1.0


def run_case(ctx, impl, drv, case):
    work = tempfile.mkdtemp(dir=ctx.mkscratch('orch'))
    cv = orch_env.Canvas(ctx, impl, work, [{'name': s['name'], 'parallel': s['parallel']} for s in case['steps']],
                         skip=case['skip'], ncpu=case['ncpu'])
    codes = {s['name']: s['exit'] for s in case['steps']}
    ob = {'rounds': [], 'lock_samples': []}
    try:
        older = None
        if case.get('second_kind') == 'resume-prefix':
            # nine finished invocations of today, so that the one under test is named DATE.10
            today = time.strftime('%Y-%m-%d')
            for k in range(1, 10):
                d = os.path.join(cv.root, '%s.%d' % (today, k))
                os.makedirs(os.path.join(d, 'tmp'))
                open(os.path.join(d, 'step.csv'), 'w').write('step,name,exit,duration,delta,log,user,time,skip\n1,%s,1,1,0,001-x.log,root,1700000000,0\n' % case['steps'][0]['name'])
                open(os.path.join(d, 'robsd.log'), 'w').write('')
            older = os.path.join(cv.root, '%s.1' % today)
        proc = cv.start([] if case['detached'] else ['-d'])
        finished = []
        second = None
        while True:
            m = model(drv, case, finished)
            if m is None:
                ob['model_error'] = True
                break
            want = m['starts']
            ok = orch_env.wait_for(lambda: [t[1] for t in cv.trace() if t[0] == 'start'] == want or
                                   len([t for t in cv.trace() if t[0] == 'start']) > len(want), timeout=8 * SCALE)
            got = [t[1] for t in cv.trace() if t[0] == 'start']
            if got == want:
                # nothing more may start before the next completion: give an over-eager loop the time to show itself
                time.sleep(0.04 if m['running'] else 0.0)
                got = [t[1] for t in cv.trace() if t[0] == 'start']
            ob['rounds'].append({'finished': list(finished), 'model_starts': want, 'impl_starts': got})
            lk = cv.lockfile()
            bds = [b for b in cv.builddirs() if older is None or b.endswith('.10')]
            if m['running'] and got == want:
                # sampled only while steps of this invocation are known to be waiting at their gates
                ob['lock_samples'].append(bool(lk and bds and lk.strip() == bds[0]))
            if case.get('second_invocation') and second is None and bds and m['running']:
                # a second invocation while the first runs: must be refused and leave the first alone
                before = cv.stepfile(bds[0])
                ndirs = len(cv.builddirs())
                extra = ['-r', older] if older else []
                p2 = subprocess.Popen(['bash', os.path.join(impl, 'canvas'), '-d', '-C', cv.conf] + extra, env=cv.env(), cwd=work,
                                      stdout=subprocess.PIPE, stderr=subprocess.STDOUT, start_new_session=True)
                try:
                    out2, _ = p2.communicate(timeout=12)
                    rc2 = p2.returncode
                except subprocess.TimeoutExpired:
                    # it was not refused: it is running steps of its own (waiting at the probes' gates)
                    cv.kill_all(p2)
                    out2, rc2 = b'(not refused: still running after 12 s, killed)', 0

                class R2:
                    returncode, stdout = rc2, out2
                r2 = R2
                second = {'rc': r2.returncode, 'builddirs_after': [os.path.basename(b) for b in cv.builddirs()][:1] if len(cv.builddirs()) == ndirs else [os.path.basename(b) for b in cv.builddirs()],
                          'lock_same': cv.lockfile() == lk, 'first_untouched': cv.stepfile(bds[0]) == before,
                          'out': r2.stdout.decode('latin1')[-300:]}
            if got != want:
                break
            if not m['running']:
                break
            nxt = next(n for n in case['order'] if n in m['running'])
            cv.open_gate(nxt, codes[nxt])
            # the completion record and the hook of that step
            orch_env.wait_for(lambda: any(h.startswith('hook %s ' % nxt) for h in cv.hooklog()), timeout=8 * SCALE)
            finished.append(nxt)
        ob['second'] = second
        try:
            out, _ = proc.communicate(timeout=15 * SCALE)
        except subprocess.TimeoutExpired:
            cv.kill_all(proc)
            out = b'(hung)'
            ob['hung'] = True
        ob['rc'] = proc.returncode
        if case['detached']:
            # the detached loop runs in the background of a shell that has exited: wait for the lock to go
            orch_env.wait_for(lambda: cv.lockfile() is None, timeout=10 * SCALE)
            time.sleep(0.05)
        ob['out'] = out.decode('latin1')[-600:]
        bds = [b for b in cv.builddirs() if older is None or b.endswith('.10')]
        ob['builddirs'] = [os.path.basename(b) for b in bds]
        bd = bds[0] if bds else None
        ob['trace'] = cv.trace()
        ob['hooks'] = cv.hooklog()
        ob['lock_after'] = cv.lockfile() is not None
        ob['mails'] = cv.mails()
        if bd:
            ob['rows'] = cv.rows(bd)
            ob['report'] = os.path.exists(os.path.join(bd, 'report'))
            logs = {}
            for r in ob['rows']:
                lg = r.get('log', '')
                p = os.path.join(bd, lg) if lg else None
                logs[r['step']] = bool(p and os.path.isfile(p) and ('output of %s' % r['name']) in open(p, errors='replace').read())
            ob['logs'] = logs
            if case['detached']:
                try:
                    ob['robsdlog'] = open(os.path.join(bd, 'robsd.log'), errors='replace').read()[-400:]
                except OSError:
                    pass
        return ob
    finally:
        cv.reap_strays()
        shutil.rmtree(work, ignore_errors=True)


# ---- the lock functions alone (C11): util.sh lock_acquire / lock_release vs Orch/RunLock.v ----------------------------
LOCK_SCRIPT = r"""
set -u
. "$1/util.sh"
setprogname t
DETACH=0
op="$2"; b="$3"
if [ "$op" = acq ]; then lock_acquire root "$b" >/dev/null 2>&1; else lock_release root "$b" >/dev/null 2>&1; fi
echo "rc=$?"
if [ -e root/.running ]; then printf 'lock='; od -An -tx1 root/.running | tr -d ' \n'; echo; else echo "lock=none"; fi
"""


def gen_lock_case(rng):
    """a lock file content (none / empty / a build directory name) and the build directory of the caller; names
    are chosen so that one is often a proper prefix, suffix or infix of the other (DATE.1 vs DATE.10)"""
    day = '2026-%02d-%02d' % (rng.randint(1, 12), rng.randint(1, 28))
    root = rng.choice(['/home/robsd', 'r', '/tmp/x y'])
    k = rng.randint(1, 12)
    owner = '%s/%s.%d' % (root, day, k)
    kind = rng.choice(['same', 'prefix', 'prefix', 'longer', 'suffix', 'other', 'infix', 'none', 'empty'])
    if kind == 'prefix':
        # the caller's name is a proper prefix of the owner's: DATE.k while DATE.k0 .. DATE.k9 runs
        b, owner = owner, owner + str(rng.randint(0, 9))
    else:
        b = {'same': owner, 'longer': owner + str(rng.randint(0, 9)), 'suffix': owner[1:],
             'other': '%s/%s.%d' % (root, day, k + 1), 'infix': '%s.%d' % (day, k), 'none': owner, 'empty': owner}[kind]
    lock = None if kind == 'none' else ('' if kind == 'empty' else owner)
    return {'lock_unit': {'op': rng.choice(['acq', 'rel', 'rel']), 'lock': lock, 'b': b, 'kind': kind}}


def run_lock_case(ctx, impl, drv, case):
    c = case['lock_unit']
    work = tempfile.mkdtemp(dir=ctx.mkscratch('lock'))
    try:
        os.makedirs(os.path.join(work, 'root'))
        if c['lock'] is not None:
            open(os.path.join(work, 'root', '.running'), 'w').write(c['lock'] + '\n' if c['lock'] else '')
        env = dict(os.environ)
        env['PATH'] = orch_env.SHIMS + ':' + env.get('PATH', '/usr/bin:/bin')
        r = subprocess.run(['bash', '-c', LOCK_SCRIPT, 'lock', impl, c['op'], c['b']], cwd=work, env=env,
                           stdout=subprocess.PIPE, stderr=subprocess.STDOUT, timeout=30)
        out = dict(l.split('=', 1) for l in r.stdout.decode('latin1').splitlines() if '=' in l)
        after = out.get('lock')
        if after not in (None, 'none'):
            raw = bytes.fromhex(after)
            after = (raw[:-1].hex() or '-') if raw.endswith(b'\n') else ('-' if raw == b'' else 'raw:' + after)
        impl_ans = '%s %s' % ('1' if out.get('rc') == '0' else '0', after)
        tok = 'none' if c['lock'] is None else common.hexs(c['lock'].encode())
        model_ans = common.run_driver(drv, ['%s %s %s' % ('lockacq' if c['op'] == 'acq' else 'lockrel', tok, common.hexs(c['b'].encode()))])[0]
        return model_ans, impl_ans
    finally:
        shutil.rmtree(work, ignore_errors=True)
