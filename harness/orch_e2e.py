"""End-to-end runs of canvas shared by C04 and C11: a configuration of gated probe steps (synchronous /
parallel, exit codes incl. deaths by signal, skip set incl. `end`, ncpu), a completion order chosen by the generator;
after every completion the model (eager main loop) predicts which steps start next and the harness waits for exactly
those.  Optionally a second invocation is started while steps wait at their gates: a fresh one, a resume of an older
directory whose name is a prefix of the running one's, a resume of an older FINISHED directory (in the background:
report and mail), or a resume of the RUNNING directory itself."""
import hashlib, json, os, re, shutil, subprocess, tempfile, time
import common, orch_env

NAMES = ['a', 'b', 'c', 'd', 'e', 'f', 'g', 'h']
SIGNAL_DEATHS = [139, 137, 134]      # the probe dies of SIGSEGV / SIGKILL / SIGABRT (tools/orch/probe); the runner reports 128 + signal


def gen_case(rng):
    n = rng.randint(2, 7)
    steps = []
    heavy = rng.random() < 0.45         # runs of parallel steps longer than ncpu
    if heavy:
        n = rng.randint(4, 7)
    for i in range(n):
        par = rng.random() < (0.9 if heavy else 0.55)
        # a step that fails by DYING (signal) instead of exiting: the record and the hook must carry 128 + signal and a
        # synchronous one must stop the invocation like any other failure
        ex = 0 if rng.random() < (0.8 if not par else 0.7) else rng.choice([1, 2, 124, 255] + SIGNAL_DEATHS)
        steps.append({'name': NAMES[i], 'parallel': par, 'exit': ex})
    skip = [s['name'] for s in steps if rng.random() < 0.12]
    if rng.random() < 0.08:
        skip.append('end')              # skip { "end" }: inside "skip sets from configuration and command line"
    ncpu = rng.choice([1, 2] if heavy else [1, 2, 2, 3])
    # completion order preference: a permutation; among the steps running at a time the earliest in this list finishes first
    order = [s['name'] for s in steps]
    rng.shuffle(order)
    if heavy and rng.random() < 0.6:
        # newest first: while the queue is full, a job that is not the oldest finishes first
        order = [s['name'] for s in reversed(steps)]
    second = rng.random() < 0.25 and 'end' not in skip
    return {'steps': steps, 'skip': skip, 'ncpu': ncpu, 'order': order, 'detached': rng.random() < 0.25,
            'second_invocation': second,
            # how the second invocation is made: a fresh one; a resume of an older invocation of the same day whose directory
            # name is a proper prefix of the running one's (DATE.1 while DATE.10 runs); a resume (in the background) of an
            # older FINISHED invocation; a resume of the directory of the RUNNING invocation
            'second_kind': rng.choice(['fresh', 'resume-prefix', 'resume-old', 'resume-running']) if second else None}


def step_toks(case):
    steps = case['steps'] + [{'name': 'end', 'parallel': False, 'exit': 0}]
    t = [str(len(steps))]
    for i, s in enumerate(steps, 1):
        t += [str(i), s['name'].encode().hex(), '1' if s.get('parallel') else '0', str(s['exit'])]
    return t, {s['name']: i for i, s in enumerate(steps, 1)}


def skip_rows(case, ids):
    rows = [(ids[n], n) for n in case['skip']]
    rows.sort()
    t = [str(len(rows))]
    for i, n in rows:
        t += [str(i), n.encode().hex(), '0', '1']
    return t


def model(drv, case, finished):
    st, ids = step_toks(case)
    q = ' '.join(['eager', str(case['ncpu'])] + st + skip_rows(case, ids) + [str(len(finished))] + [str(ids[n]) for n in finished])
    a = common.run_driver(drv, [q])[0]
    if a.startswith('EXN'):
        return None
    mode, running, starts, rows, hooks, eff = [x.strip() for x in a.split('|')]
    inv = {v: k for k, v in ids.items()}
    return {'mode': mode, 'running': [inv[int(x)] for x in running.split(',') if x],
            'starts': [inv[int(x)] for x in starts.split(',') if x], 'rows': rows, 'hooks': hooks.split(), 'eff': eff.split()}


# waiting times are multiplied by SCALE; a case that looks late is repeated alone with SCALE > 1 (see c04.evaluate)
SCALE = 1.0


def make_old(cv, case):
    """an older FINISHED invocation of the same configuration, run in the background with every gate open and exit 0: one
    report, one mail, one end hook.  Returns its directory and what was counted for it."""
    for s in case['steps']:
        cv.open_gate(s['name'], 0)
    p = cv.start([])
    try:
        p.communicate(timeout=20 * SCALE)
    except subprocess.TimeoutExpired:
        cv.kill_all(p)
    ok = orch_env.wait_for(lambda: cv.lockfile() is None and cv.mails() >= 1, timeout=20 * SCALE)
    bds = cv.builddirs()
    base = {'ok': bool(ok and bds), 'mails': cv.mails(), 'endhooks': sum(1 for h in cv.hooklog() if h.split()[1:2] == ['end'])}
    cv.close_gates()
    cv.forget_trace()
    return (bds[0] if bds else None), base


def run_case(ctx, impl, drv, case):
    work = tempfile.mkdtemp(dir=ctx.mkscratch('orch'))
    cv = orch_env.Canvas(ctx, impl, work, [{'name': s['name'], 'parallel': s['parallel']} for s in case['steps']],
                         skip=case['skip'], ncpu=case['ncpu'])
    codes = {s['name']: s['exit'] for s in case['steps']}
    hold = case.get('hold') or {}                 # name -> seconds a gate stays closed after the step was seen to start
    ob = {'rounds': [], 'lock_samples': [], 'felloff_lock_samples': [], 'times': {}}
    kind = case.get('second_kind')
    try:
        older, base = None, {'mails': 0, 'endhooks': 0}
        if kind == 'resume-prefix':
            # nine finished invocations of today, so that the one under test is named DATE.10
            today = time.strftime('%Y-%m-%d')
            for k in range(1, 10):
                d = os.path.join(cv.root, '%s.%d' % (today, k))
                os.makedirs(os.path.join(d, 'tmp'))
                open(os.path.join(d, 'step.csv'), 'w').write('step,name,exit,duration,delta,log,user,time,skip\n1,%s,1,1,0,001-x.log,root,1700000000,0\n' % case['steps'][0]['name'])
                open(os.path.join(d, 'robsd.log'), 'w').write('')
            older = os.path.join(cv.root, '%s.1' % today)
        elif kind == 'resume-old':
            older, base = make_old(cv, case)
            if not base['ok']:
                ob['setup_failed'] = 'the older invocation of the resume-old lane did not finish'
                return ob
        pre = cv.builddirs()
        mine = lambda: [b for b in cv.builddirs() if b not in pre]
        t_launch = time.time()
        proc = cv.start([] if case['detached'] else ['-d'])
        finished = []
        second = None
        settle = 0.04
        while True:
            m = model(drv, case, finished)
            if m is None:
                ob['model_error'] = True
                break
            want = m['starts']
            ok = orch_env.wait_for(lambda: [t[1] for t in cv.trace() if t[0] == 'start'] == want or
                                   len([t for t in cv.trace() if t[0] == 'start']) > len(want), timeout=8 * SCALE)
            now = time.time()
            got = [t[1] for t in cv.trace() if t[0] == 'start']
            for nme in got:
                ob['times'].setdefault(nme, {}).setdefault('start_seen', now)
            if got and 'first_start' not in ob:
                # the time canvas needed from its launch to the first probe's start line: an over-eager loop needs about as
                # long (one loop iteration, a fork, robsd-exec, sh) to show an extra start
                ob['first_start'] = now - t_launch
                settle = min(0.5, max(0.04, 0.5 * ob['first_start']))
            if got == want:
                # nothing more may start before the next completion: give an over-eager loop the time to show itself
                time.sleep(settle * SCALE if m['running'] else 0.0)
                got = [t[1] for t in cv.trace() if t[0] == 'start']
            ob['rounds'].append({'finished': list(finished), 'model_starts': want, 'impl_starts': got})
            lk = cv.lockfile()
            bds = mine()
            if m['running'] and got == want:
                # sampled only while steps of this invocation are known to be waiting at their gates
                sample = bool(lk and bds and lk.strip() == bds[0])
                if m['mode'] == 'felloff':
                    # the model's loop ran out of schedule lines (end skipped) while these steps still run
                    ob['felloff_lock_samples'].append(sample)
                else:
                    ob['lock_samples'].append(sample)
            if case.get('second_invocation') and second is None and bds and m['running'] and got == want:
                second = second_invocation(cv, case, kind, older, bds[0], lk, got, base)
                if second.get('not_refused'):
                    # it runs steps of its own on the same probes: nothing after this point can be attributed
                    ob['second'] = second
                    ob['aborted_after_second'] = True
                    cv.kill_all(proc)
                    return ob
            if got != want:
                break
            if not m['running']:
                break
            nxt = next(n for n in case['order'] if n in m['running'])
            if nxt in hold:
                left = ob['times'][nxt]['start_seen'] + hold[nxt] - time.time()
                if left > 0:
                    time.sleep(left)
            ob['times'][nxt]['gate_opened'] = time.time()
            cv.open_gate(nxt, codes[nxt])
            # the completion record and the hook of that step
            orch_env.wait_for(lambda: any(h.startswith('hook %s ' % nxt) for h in cv.hooklog()), timeout=8 * SCALE)
            ob['times'][nxt]['hook_seen'] = time.time()
            finished.append(nxt)
        ob['second'] = second
        try:
            out, _ = proc.communicate(timeout=15 * SCALE)
        except subprocess.TimeoutExpired:
            cv.kill_all(proc)
            out = b'(hung)'
            ob['hung'] = True
        ob['rc'] = proc.returncode
        if case['detached']:
            # the detached loop runs in the background of a shell that has exited: wait for the lock to go
            orch_env.wait_for(lambda: cv.lockfile() is None, timeout=10 * SCALE)
            time.sleep(0.05)
        ob['out'] = out.decode('latin1')[-600:]
        bds = mine()
        ob['builddirs'] = [os.path.basename(b) for b in bds]
        bd = bds[0] if bds else None
        ob['trace'] = cv.trace()
        ob['hooks'] = cv.hooklog()
        ob['lock_after'] = cv.lockfile() is not None
        # mail of THIS invocation: not what the older invocation of the resume-old lane got, nor what the second one caused
        ob['mails'] = cv.mails() - base['mails'] - ((second or {}).get('mails_delta') or 0)
        if second and second.get('endhook_delta'):
            # hook calls made by the second invocation's exit trap are judged with the second invocation
            for _ in range(second['endhook_delta']):
                if 'hook end 0' in ob['hooks']:
                    ob['hooks'].remove('hook end 0')
        ob['launch'] = t_launch
        if bd:
            ob['rows'] = cv.rows(bd)
            ob['report'] = os.path.exists(os.path.join(bd, 'report'))
            logs = {}
            for r in ob['rows']:
                lg = r.get('log', '')
                p = os.path.join(bd, lg) if lg else None
                logs[r['step']] = bool(p and os.path.isfile(p) and ('output of %s' % r['name']) in open(p, errors='replace').read())
            ob['logs'] = logs
            if case['detached']:
                try:
                    ob['robsdlog'] = open(os.path.join(bd, 'robsd.log'), errors='replace').read()[-400:]
                except OSError:
                    pass
        return ob
    finally:
        cv.reap_strays()
        shutil.rmtree(work, ignore_errors=True)


def second_invocation(cv, case, kind, older, running_dir, lk, started, base):
    """start a second canvas while the first waits at its gates and say what it did.  It must be refused without touching
    the first - whatever directory it names."""
    before = cv.stepfile(running_dir)
    dirs_before = [os.path.basename(b) for b in cv.builddirs()]
    mails0 = cv.mails()
    endhooks0 = sum(1 for h in cv.hooklog() if h.split()[1:2] == ['end'])
    if kind == 'resume-running':
        args = ['-d', '-r', running_dir]
    elif kind == 'resume-old':
        args = ['-r', older]                      # in the background (DETACH=1), as cron would: its exit trap may mail
    elif kind == 'resume-prefix':
        args = ['-d', '-r', older]
    else:
        args = ['-d']
    p2 = subprocess.Popen(['bash', os.path.join(cv.impl, 'canvas'), '-C', cv.conf] + args, env=cv.env(), cwd=cv.work,
                          stdout=subprocess.PIPE, stderr=subprocess.STDOUT, start_new_session=True)
    # it ends (refused), or it shows that it was not: a start line the first invocation cannot have written
    extra = []
    t_end = time.time() + 12 * SCALE
    while time.time() < t_end and p2.poll() is None:
        now = [t[1] for t in cv.trace() if t[0] == 'start']
        if len(now) > len(started):
            extra = now[len(started):]
            break
        time.sleep(0.005)
    not_refused = p2.poll() is None
    if not_refused:
        after_nr = cv.stepfile(running_dir)
        cv.kill_all(p2)
        out2 = ('(not refused: %s; killed)' % (('it started %s' % extra) if extra else 'still running after 12 s')).encode()
        rc2 = 0
    else:
        out2, _ = p2.communicate()
        rc2 = p2.returncode
        after_nr = None
    time.sleep(0.05)
    dirs_after = [os.path.basename(b) for b in cv.builddirs()]
    return {'kind': kind or 'fresh', 'rc': rc2, 'not_refused': not_refused, 'extra_starts': extra,
            'dirs_same': dirs_after == dirs_before, 'lock_same': cv.lockfile() == lk,
            'first_untouched': (after_nr if not_refused else cv.stepfile(running_dir)) == before,
            'mails_delta': cv.mails() - mails0,
            'endhook_delta': sum(1 for h in cv.hooklog() if h.split()[1:2] == ['end']) - endhooks0,
            'out': out2.decode('latin1')[-300:]}


# ---- the lock functions alone (C11): util.sh lock_acquire / lock_release vs Orch/RunLock.v ----------------------------
LOCK_SCRIPT = r"""
set -u
. "$1/util.sh"
setprogname t
DETACH=0
op="$2"; b="$3"
if [ "$op" = acq ]; then lock_acquire root "$b" >/dev/null 2>&1; else lock_release root "$b" >/dev/null 2>&1; fi
echo "rc=$?"
if [ -e root/.running ]; then printf 'lock='; od -An -tx1 root/.running | tr -d ' \n'; echo; else echo "lock=none"; fi
"""


def gen_lock_case(rng):
    """a lock file content (none / empty / a build directory name) and the build directory of the caller; names
    are chosen so that one is often a proper prefix, suffix or infix of the other (DATE.1 vs DATE.10)"""
    day = '2026-%02d-%02d' % (rng.randint(1, 12), rng.randint(1, 28))
    root = rng.choice(['/home/robsd', 'r', '/tmp/x y'])
    k = rng.randint(1, 12)
    owner = '%s/%s.%d' % (root, day, k)
    kind = rng.choice(['same', 'prefix', 'prefix', 'longer', 'suffix', 'other', 'infix', 'none', 'empty'])
    if kind == 'prefix':
        # the caller's name is a proper prefix of the owner's: DATE.k while DATE.k0 .. DATE.k9 runs
        b, owner = owner, owner + str(rng.randint(0, 9))
    else:
        b = {'same': owner, 'longer': owner + str(rng.randint(0, 9)), 'suffix': owner[1:],
             'other': '%s/%s.%d' % (root, day, k + 1), 'infix': '%s.%d' % (day, k), 'none': owner, 'empty': owner}[kind]
    lock = None if kind == 'none' else ('' if kind == 'empty' else owner)
    return {'lock_unit': {'op': rng.choice(['acq', 'rel', 'rel']), 'lock': lock, 'b': b, 'kind': kind}}


def run_lock_case(ctx, impl, drv, case):
    c = case['lock_unit']
    work = tempfile.mkdtemp(dir=ctx.mkscratch('lock'))
    try:
        os.makedirs(os.path.join(work, 'root'))
        if c['lock'] is not None:
            open(os.path.join(work, 'root', '.running'), 'w').write(c['lock'] + '\n' if c['lock'] else '')
        env = dict(os.environ)
        env['PATH'] = orch_env.SHIMS + ':' + env.get('PATH', '/usr/bin:/bin')
        r = subprocess.run(['bash', '-c', LOCK_SCRIPT, 'lock', impl, c['op'], c['b']], cwd=work, env=env,
                           stdout=subprocess.PIPE, stderr=subprocess.STDOUT, timeout=30)
        out = dict(l.split('=', 1) for l in r.stdout.decode('latin1').splitlines() if '=' in l)
        after = out.get('lock')
        if after not in (None, 'none'):
            raw = bytes.fromhex(after)
            after = (raw[:-1].hex() or '-') if raw.endswith(b'\n') else ('-' if raw == b'' else 'raw:' + after)
        impl_ans = '%s %s' % ('1' if out.get('rc') == '0' else '0', after)
        tok = 'none' if c['lock'] is None else common.hexs(c['lock'].encode())
        model_ans = common.run_driver(drv, ['%s %s %s' % ('lockacq' if c['op'] == 'acq' else 'lockrel', tok, common.hexs(c['b'].encode()))])[0]
        return model_ans, impl_ans
    finally:
        shutil.rmtree(work, ignore_errors=True)


# ---- lanes with a scenario of their own ---------------------------------------------------------------------------------
def drive(cv, proc, codes, timeout=20, stop=None):
    """open the gate of every step as soon as it starts (with its code) until canvas ends; -> (rc, output)"""
    opened = set()
    t_end = time.time() + timeout * SCALE
    while proc.poll() is None and time.time() < t_end:
        for t in cv.trace():
            if t[0] == 'start' and t[1] not in opened:
                cv.open_gate(t[1], codes.get(t[1], 0))
                opened.add(t[1])
        if stop is not None and stop():
            break
        time.sleep(0.004)
    try:
        out, _ = proc.communicate(timeout=5 * SCALE)
    except subprocess.TimeoutExpired:
        cv.kill_all(proc)
        out = b'(hung)'
    return proc.returncode, out.decode('latin1')


def run_skip_on_resume(ctx, impl, case):
    """C04 lane: a sequential configuration, step `fail` exits 1; then `canvas -d -r <dir> -s <skip>` with <skip> a LATER
    step.  Property reading: a name of this invocation's skip set (-s) never runs."""
    work = tempfile.mkdtemp(dir=ctx.mkscratch('orchsr'))
    names = case['names']
    cv = orch_env.Canvas(ctx, impl, work, [{'name': n} for n in names], ncpu=1)
    ob = {}
    try:
        rc, out = drive(cv, cv.start(['-d']), {case['fail']: 1})
        bds = cv.builddirs()
        if not bds or rc == 0:
            ob['setup_failed'] = 'the first invocation did not fail (rc %s)' % rc
            return ob
        ob['rows_before'] = [(r['step'], r['name'], r['exit'], r['skip']) for r in cv.rows(bds[0])]
        n0 = len(cv.trace())
        cv.close_gates()
        rc2, out2 = drive(cv, cv.start(['-d', '-r', bds[0], '-s', case['skip']]), {})
        m = re.search(r'at step (\d+)', out2)
        ob.update({'rc': rc2, 'resumed_at': int(m.group(1)) if m else None,
                   'started': [t[1] for t in cv.trace()[n0:] if t[0] == 'start'],
                   'rows': [(r['step'], r['name'], r['exit'], r['skip']) for r in cv.rows(bds[0])], 'tail': out2[-300:]})
        return ob
    finally:
        cv.reap_strays()
        shutil.rmtree(work, ignore_errors=True)


def run_hook_stdin(ctx, impl, case):
    """C04 lane: sequential steps that all succeed; the configured hook reads its standard input to the end
    (tools/orch/hook-cat).  Property reading: the hook's input has nothing to do with the schedule - every step runs, end is
    recorded, exit 0."""
    work = tempfile.mkdtemp(dir=ctx.mkscratch('orchhk'))
    cv = orch_env.Canvas(ctx, impl, work, [{'name': n} for n in case['names']], ncpu=1, hook=os.path.join(orch_env.TOOLS, 'hook-cat'))
    try:
        rc, out = drive(cv, cv.start(['-d']), {})
        bds = cv.builddirs()
        try:
            eaten = open(os.path.join(cv.orch, 'hook-stdin')).read()
        except OSError:
            eaten = ''
        return {'rc': rc, 'started': [t[1] for t in cv.trace() if t[0] == 'start'],
                'rows': [(r['step'], r['name'], r['exit'], r['skip']) for r in cv.rows(bds[0])] if bds else [],
                'report': bool(bds and os.path.exists(os.path.join(bds[0], 'report'))), 'hook_read': eaten, 'tail': out[-300:]}
    finally:
        cv.reap_strays()
        shutil.rmtree(work, ignore_errors=True)


def run_robsd_wait(ctx, impl):
    """C04 lane: /repo's own robsd-wait, built from robsd-wait.c, run on a process that is alive.  A functional robsd-wait
    blocks until the process is gone; outside OpenBSD the program is a stub that returns at once."""
    sleeper = subprocess.Popen(['sleep', '30'])
    try:
        t0 = time.time()
        try:
            r = subprocess.run([os.path.join(impl, 'robsd-wait'), '-a', str(sleeper.pid)], stdout=subprocess.PIPE, stderr=subprocess.PIPE, timeout=3)
            return {'returned': True, 'rc': r.returncode, 'out': r.stdout.decode('latin1'), 'secs': time.time() - t0}
        except subprocess.TimeoutExpired:
            return {'returned': False}
        except OSError as e:
            return {'error': str(e)}
    finally:
        sleeper.kill()
        sleeper.wait()
