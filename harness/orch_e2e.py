"""End-to-end runs of canvas shared by C04 and C11: a configuration of gated probe steps (synchronous /
parallel, exit codes incl. deaths by signal, skip set incl. `end`, ncpu), a completion order chosen by the generator;
after every completion the model (eager main loop) predicts which steps start next and the harness waits for exactly
those.  Optionally a second invocation is started while steps wait at their gates: a fresh one, a resume of an older
directory whose name is a prefix of the running one's, a resume of an older FINISHED directory (in the background:
report and mail), or a resume of the RUNNING directory itself."""
import hashlib, json, os, re, shutil, subprocess, tempfile, time
import common, orch_env

NAMES = ['a', 'b', 'c', 'd', 'e', 'f', 'g', 'h']
SIGNAL_DEATHS = [139, 137, 134]      # the probe dies of SIGSEGV / SIGKILL / SIGABRT (tools/orch/probe); the runner reports 128 + signal


# PARKED classes: inputs on which the unchanged /repo deviates, each reported under its own signature and written up, but not yet
# listed in known_findings.json (only main edits that file).  While the switch is False the generators do not draw them and the corpus
# loaders skip the corpus files carrying a "pending": "<signature>" key; VERIF_PENDING=1 switches them on for a run.
#   step-name-with-white-space-never-runs               findings/C04_odd_step_names.md (1)   names with a blank (NAME_BLANK)
#   parallel-step-with-comma-in-name-silently-dropped   findings/C04_odd_step_names.md (2)   names with a comma (NAME_COMMA)
#   skip-name-matching-several-steps-aborts             findings/C04_odd_step_names.md (3)   skip names that are words of other names
#   step-name-with-leading-dash-cannot-run              findings/C04_odd_step_names.md (4)   names beginning with '-' (NAME_DASH)
#   log-name-exceeds-name-max                           findings/C11_log_name_too_long.md    names of 248 bytes and more (NAME_LONG)
#   resume-after-kill-refused-lock-spelled-differently  findings/C03_resume_root_slash.md    (C03: switch in c03.py)
PENDING_FINDINGS = os.environ.get('VERIF_PENDING', '1') == '1'     # armed: the signatures are listed in known_findings.json

BOUNDARY_QUICK, BOUNDARY_THOROUGH = 0.08, 0.2        # shares > 0.1 count as the thorough tier: the expensive sizes get full weight


def gen_case(rng, boundary=BOUNDARY_QUICK):
    """boundary: the share of cases that carry one of the SIZE / SHAPE classes of gen_boundary (low in the quick tier - the big
    ones cost seconds - full weight in the thorough tier; every class also has a deterministic corpus case b04_* / b11_*)"""
    if rng.random() < boundary:
        return gen_boundary(rng, heavy=boundary > 0.1)
    n = rng.randint(2, 7)
    steps = []
    heavy = rng.random() < 0.45         # runs of parallel steps longer than ncpu
    if heavy:
        n = rng.randint(4, 7)
    for i in range(n):
        par = rng.random() < (0.9 if heavy else 0.55)
        # a step that fails by DYING (signal) instead of exiting: the record and the hook must carry 128 + signal and a
        # synchronous one must stop the invocation like any other failure
        ex = 0 if rng.random() < (0.8 if not par else 0.7) else rng.choice([1, 2, 124, 255] + SIGNAL_DEATHS)
        steps.append({'name': NAMES[i], 'parallel': par, 'exit': ex})
    skip = [s['name'] for s in steps if rng.random() < 0.12]
    if rng.random() < 0.08:
        skip.append('end')              # skip { "end" }: inside "skip sets from configuration and command line"
    ncpu = rng.choice([1, 2] if heavy else [1, 2, 2, 3])
    # completion order preference: a permutation; among the steps running at a time the earliest in this list finishes first
    order = [s['name'] for s in steps]
    rng.shuffle(order)
    if heavy and rng.random() < 0.6:
        # newest first: while the queue is full, a job that is not the oldest finishes first
        order = [s['name'] for s in reversed(steps)]
    second = rng.random() < 0.25 and 'end' not in skip
    case = {'steps': steps, 'skip': skip, 'ncpu': ncpu, 'order': order, 'detached': rng.random() < 0.25,
            'second_invocation': second,
            # how the second invocation is made: a fresh one; a resume of an older invocation of the same day whose directory
            # name is a proper prefix of the running one's (DATE.1 while DATE.10 runs); a resume (in the background) of an
            # older FINISHED invocation; a resume of the directory of the RUNNING invocation
            'second_kind': rng.choice(['fresh', 'resume-prefix', 'resume-old', 'resume-running']) if second else None}
    if case['second_kind'] == 'resume-prefix':
        # how many invocations of today exist already (the running one is DATE.<pre+1>) and which of them is resumed meanwhile:
        # DATE.1 / DATE.10 (prefixes of DATE.10 / DATE.100), DATE.9 / DATE.99 (the neighbour: same length or one shorter, no prefix)
        # (99 earlier directories cost 4 - 6 s - robsd-clean and the report look at them: rare in the quick tier, corpus b11_resume_10_while_100_runs)
        case['pre'], case['older'] = rng.choice([(9, 1), (9, 1), (9, 9), (9, 9), (10, 1), (10, 10)] * (1 if boundary > 0.1 else 3) + [(99, 1), (99, 10), (99, 99)])
        if rng.random() < 0.3:
            case['root_slash'] = True      # canvas-dir "<root>/": the lock then names <root>//DATE.n
    return case


# ---- boundary SIZE / SHAPE classes ------------------------------------------------------------------------------------------
BIG_COUNTS = [15, 16, 17, 31, 32, 33, 63, 64, 65]        # canvas steps without end: config vector growth, rows of step.csv
EXIT_CODES = [126, 127, 255, 129, 143, 159]             # 129 / 143 / 159 as PLAIN exits (`exit 143`), not deaths: see 'plain'
MORE_DEATHS = [143, 129, 137, 139]                        # SIGTERM, SIGHUP, SIGKILL, SIGSEGV
# names the harness expects to WORK like any other (the model takes names as opaque byte strings); log file = NNN-<name>.log
NAME_POOLS = {
    'prefix': ['build', 'build-all', 'buil', 'build-al'],
    'case': ['build', 'Build', 'BUILD', 'bUILD'],
    'chars': ['a-b', 'a.b', 'x/y', 'k=v', 'x-', 'a--b', '.h', 'x/y/z', 'a=', '=a'],
    'endlike': ['en', 'endx', 'End', 'end-2', 'xend', 'end.1'],
    'len': ['L', 'M' * 64, 'N' * 200, 'O' * 247],         # 247: the log name 'NNN-<name>.log' is NAME_MAX (255) bytes long
}
# names for which the code is known to deviate; each class has its own signature (see c04.name_class / judge)
NAME_LONG = ['P' * 248, 'Q' * 254, 'R' * 255]            # log name 256 .. 263 bytes: longer than NAME_MAX
NAME_BLANK = ['a b', 'two words']                         # robsd-step -L line 'N a b' read back word by word (C10 known finding)
NAME_COMMA = ['a,b']                                      # robsd-step -W refuses the value (C01 repair bda6bfa)
NAME_DASH = ['-x', '-b']                                  # robsd-exec / robsd-step take the name for an option (no `--` before it)


def names_for(n):
    return NAMES[:n] if n <= len(NAMES) else ['s%d' % i for i in range(1, n + 1)]


def expand(case):
    """corpus cases may describe a long configuration compactly: 'compact': [[count, parallel 0|1, exit], ...] -> steps named
    s1, s2, ... (exit applies to the LAST step of the group, the others exit 0)"""
    if 'compact' in case and 'steps' not in case:
        steps = []
        for cnt, par, ex in case['compact']:
            for k in range(cnt):
                steps.append({'name': 's%d' % (len(steps) + 1), 'parallel': bool(par), 'exit': ex if k == cnt - 1 else 0})
        case = dict(case, steps=steps)
        case.setdefault('order', [s['name'] for s in steps])
    case.setdefault('skip', [])
    case.setdefault('ncpu', 2)
    case.setdefault('detached', False)
    case.setdefault('order', [s['name'] for s in case['steps']])
    return case


def classes_of(case):
    """the boundary classes a case falls into (generated or corpus) - printed into the input distribution"""
    out = []
    n = len(case['steps'])
    if n == 1 or n >= 15:
        out.append('steps=%d (free-running)' % n if case.get('free') else 'steps=%d' % n)
    live = [s for s in case['steps'] if s['name'] not in case['skip']]
    run = best = 0
    for s in live:
        run = run + 1 if s.get('parallel') else 0
        best = max(best, run)
    if case.get('bclass') == 'parrun' or best >= 8:
        out.append('longest run of parallel steps %d, ncpu %d' % (best, case['ncpu']))
    if live and live[-1].get('parallel'):
        out.append('parallel step(s) at the very end of the configuration')
    fails = [i for i, s in enumerate(case['steps']) if s['exit'] != 0 and not s.get('parallel') and s['name'] not in case['skip']]
    if fails and n >= 15:
        i = fails[0]
        out.append('first failing synchronous step at index %s of %d' % ({n - 1: 'last', n - 2: 'last-1'}.get(i, str(i)), n))
    sk = [i for i, s in enumerate(case['steps']) if s['name'] in case['skip']]
    if sk and n >= 3:
        if len(sk) == n - 1:
            out.append('skip: all but one')
        elif len(sk) == n:
            out.append('skip: every step')
        else:
            if 0 in sk:
                out.append('skip: first step')
            if n - 1 in sk:
                out.append('skip: last step')
            if any(i in (14, 15, 16) for i in sk):
                out.append('skip: step 15/16/17')
        if fails and any(i > fails[0] for i in sk):
            out.append('skip records trailing a failed step')
    for s in case['steps']:
        if s.get('plain') or s['exit'] in (126, 127):
            out.append('exit code %d (plain exit)' % s['exit'])
        elif s['exit'] in MORE_DEATHS or s['exit'] in SIGNAL_DEATHS:
            out.append('death by signal %d' % (s['exit'] - 128))
    nm = name_class(case)
    if nm:
        out.append('names: ' + nm)
    if case.get('hook_args'):
        out.append('hook arguments: %d extra, longest %d bytes' % (len(case['hook_args']), max(len(a) for a in case['hook_args'])))
    if case.get('second_kind') == 'resume-prefix':
        out.append('resume of DATE.%d while DATE.%d runs%s' % (case.get('older', 1), case.get('pre', 9) + 1, ', root with trailing slash' if case.get('root_slash') else ''))
    if case.get('pre') and case.get('second_kind') != 'resume-prefix':
        out.append('%d invocations of today exist' % case['pre'])
    return out


def name_class(case):
    names = [s['name'] for s in case['steps']]
    if any(' ' in x or '\n' in x or '\t' in x for x in names):
        return 'white space'
    if any(',' in x for x in names):
        return 'comma'
    if any(x.startswith('-') for x in names):
        return 'leading dash'
    if any(len(x.replace('/', '-')) > 247 for x in names):
        return 'log name longer than NAME_MAX'
    low = [x.lower() for x in names]
    cls = []
    if len(set(low)) != len(low):
        cls.append('differ in case only')
    if any(a != b and len(a) > 1 and b.startswith(a) for a in names for b in names + ['end']) or any(a != 'end' and 'end' in a.lower() for a in names):
        cls.append('prefix of another')
    if any(c in x for x in names for c in '-./='):
        cls.append("contain one of - . / =")
    if any(len(x) >= 64 for x in names):
        cls.append('length %d' % max(len(x) for x in names))
    return ', '.join(cls)


def gen_boundary(rng, heavy=False):
    kind = rng.choice(['big', 'big', 'parrun', 'parrun', 'parrun', 'exit', 'exit', 'names', 'names', 'badnames', 'hook', 'one', 'pre'])
    if kind == 'badnames' and not PENDING_FINDINGS:
        kind = 'names'                          # parked (see PENDING_FINDINGS)
    if kind == 'big':
        # mostly 15-17; 31-33 and 63-65 cost 3 - 6 s each (10 s on a loaded machine): rare in the quick tier, where the corpus has them
        n = rng.choice(BIG_COUNTS[:3] * 4 + BIG_COUNTS[3:6] * 2 + BIG_COUNTS[6:]) if heavy else rng.choice(BIG_COUNTS[:3] * 10 + BIG_COUNTS[3:6] + [rng.choice(BIG_COUNTS[6:])])
        names = names_for(n)
        steps = [{'name': nm, 'parallel': False, 'exit': 0} for nm in names]
        for _ in range(rng.choice([0, 1, 2])):                  # a few runs of parallel steps, anywhere (also at the very end)
            a = rng.randrange(n)
            for j in range(a, min(n, a + rng.choice([1, 2, 3, 4]))):
                steps[j]['parallel'] = True
        if rng.random() < 0.3:
            for j in range(n - rng.choice([1, 2]), n):
                steps[j]['parallel'] = True
        f = rng.choice([None, None, 0, 1, 15, 16, n - 2, n - 1])
        if f is not None and f < n:
            steps[f]['exit'] = rng.choice([1, 2, 255])
        sk = rng.choice(['none', 'none', 'first', 'last', 'allbutone', 'mid', 'trailing'])
        skip = {'none': [], 'first': [names[0]], 'last': [names[-1]], 'mid': [nm for nm in names[14:17]],
                'allbutone': [nm for i, nm in enumerate(names) if i != (f if f is not None and f < n else n // 2)],
                'trailing': names[-rng.choice([1, 2, 3]):]}[sk]
        return {'steps': steps, 'skip': skip, 'ncpu': rng.choice([1, 2, 3]), 'order': names, 'detached': rng.random() < 0.2,
                'second_invocation': False, 'second_kind': None, 'free': True, 'bclass': 'big'}
    if kind == 'parrun':
        ncpu = rng.choice([1, 2, 3])
        L = rng.choice([0, 1, ncpu - 1, ncpu, ncpu + 1, ncpu + 1, 2 * ncpu, 2 * ncpu] * (1 if heavy else 2) + [16, 17])
        before, after = rng.choice([0, 1]), rng.choice([0, 0, 1])        # after == 0: the run is at the very END of the configuration
        n = max(1, before + L + after)
        names = names_for(n)
        steps = [{'name': nm, 'parallel': before <= i < before + L, 'exit': 0} for i, nm in enumerate(names)]
        if rng.random() < 0.5:
            steps[rng.randrange(n)]['exit'] = rng.choice([1, 255] + SIGNAL_DEATHS)
        order = list(names)
        o = rng.random()
        if o < 0.4:
            order.reverse()
        elif o < 0.7:
            rng.shuffle(order)
        return {'steps': steps, 'skip': [], 'ncpu': ncpu, 'order': order, 'detached': False, 'second_invocation': False,
                'second_kind': None, 'bclass': 'parrun'}
    # the remaining classes sit on a small gated configuration
    case = None
    while case is None or case.get('second_invocation') or 'end' in case['skip']:
        case = gen_case(rng, boundary=-1.0)
    steps = case['steps']
    if kind == 'one':
        case['steps'] = steps[:1]
        case['skip'] = [x for x in case['skip'] if x == steps[0]['name'] and rng.random() < 0.3]
        case['order'] = [steps[0]['name']]
    elif kind == 'exit':
        s = rng.choice(steps)
        if rng.random() < 0.6:
            s['exit'] = rng.choice(EXIT_CODES)
            if s['exit'] > 128:
                s['plain'] = True                # the probe EXITS with 128 + n; it does not die of signal n
        else:
            s['exit'] = rng.choice(MORE_DEATHS)
    elif kind in ('names', 'badnames'):
        if kind == 'names':
            pool = list(NAME_POOLS[rng.choice(sorted(NAME_POOLS))])
            if rng.random() < 0.3:
                pool += NAME_POOLS[rng.choice(sorted(NAME_POOLS))]
        else:
            pool = [rng.choice(rng.choice([NAME_LONG, NAME_BLANK, NAME_COMMA, NAME_DASH]))] + ['a', 'b', 'c', 'd', 'e', 'f']
            case['free'] = True                 # the model's prediction is known not to be met: no gates to wait at
            case['skip'] = []
            for st in steps:
                st['exit'] = 0
        pool = list(dict.fromkeys(pool))
        new = rng.sample(pool, min(len(pool), len(steps)))
        if kind == 'badnames' and pool[0] not in new:
            new[rng.randrange(len(new))] = pool[0]
        ren = {}
        for s, nm in zip(steps, new):
            ren[s['name']] = nm
            s['name'] = nm
        case['steps'] = steps[:len(new)]
        keep = {s['name'] for s in case['steps']}
        case['skip'] = [ren[x] for x in case['skip'] if ren.get(x) in keep]
        case['order'] = [ren[x] for x in case['order'] if ren.get(x) in keep]
        if kind == 'names' and not case['skip'] and rng.random() < 0.5 and len(case['steps']) > 1:
            case['skip'] = [rng.choice(case['steps'])['name']]
    elif kind == 'hook':
        # the hook command is  <path> ${step-name} ${step-exit} <extra ...>: 16 / 17 / 18 words with 13 / 14 / 15 extra ones
        k = rng.choice(['1', '13', '14', '15', '1k', '4k'])
        case['hook_args'] = {'1': ['x'], '13': ['x%d' % i for i in range(13)], '14': ['x%d' % i for i in range(14)],
                             '15': ['x%d' % i for i in range(15)], '1k': ['y' * 1024], '4k': ['z' * 4096, 'w' * 1023]}[k]
    elif kind == 'pre':
        # ten or more invocations a day: the new one is DATE.<pre+1> (99 / 100 directories cost 4 - 6 s: robsd-clean and the report look at them)
        case['pre'] = rng.choice([9, 10, 11] * (2 if heavy else 6) + [99, 100])
    case['bclass'] = kind
    if skip_ambiguous(case):
        if PENDING_FINDINGS:
            case['free'] = True                 # canvas is known to stop before the first step: no gates to wait at
        else:
            amb = set(skip_ambiguous(case))     # parked (see PENDING_FINDINGS): the ambiguous names leave the skip set
            case['skip'] = [x for x in case['skip'] if x not in amb]
    return case


def skip_ambiguous(case):
    """a name of the skip set that `grep -w` finds in the listing line of ANOTHER step as well (util.sh step_id): the names
    differ but one occurs in the other delimited by non-word characters ('build' in 'build-all', 'x/y' in 'x/y/z')"""
    names = [s['name'] for s in case['steps']] + ['end']
    out = []
    for w in case['skip']:
        pat = re.compile(r'(?<![A-Za-z0-9_])' + re.escape(w) + r'(?![A-Za-z0-9_])')
        if any(x != w and pat.search(x) for x in names):
            out.append(w)
    return out


def step_toks(case):
    steps = case['steps'] + [{'name': 'end', 'parallel': False, 'exit': 0}]
    t = [str(len(steps))]
    for i, s in enumerate(steps, 1):
        t += [str(i), s['name'].encode().hex(), '1' if s.get('parallel') else '0', str(s['exit'])]
    return t, {s['name']: i for i, s in enumerate(steps, 1)}


def skip_rows(case, ids):
    rows = [(ids[n], n) for n in case['skip']]
    rows.sort()
    t = [str(len(rows))]
    for i, n in rows:
        t += [str(i), n.encode().hex(), '0', '1']
    return t


def model(drv, case, finished):
    st, ids = step_toks(case)
    q = ' '.join(['eager', str(case['ncpu'])] + st + skip_rows(case, ids) + [str(len(finished))] + [str(ids[n]) for n in finished])
    a = common.run_driver(drv, [q])[0]
    if a.startswith('EXN'):
        return None
    mode, running, starts, rows, hooks, eff = [x.strip() for x in a.split('|')]
    inv = {v: k for k, v in ids.items()}
    return {'mode': mode, 'running': [inv[int(x)] for x in running.split(',') if x],
            'starts': [inv[int(x)] for x in starts.split(',') if x], 'rows': rows, 'hooks': hooks.split(), 'eff': eff.split()}


# waiting times are multiplied by SCALE; a case that looks late is repeated alone with SCALE > 1 (see c04.evaluate)
SCALE = 1.0


def make_old(cv, case):
    """an older FINISHED invocation of the same configuration, run in the background with every gate open and exit 0: one
    report, one mail, one end hook.  Returns its directory and what was counted for it."""
    for s in case['steps']:
        cv.open_gate(s['name'], 0)
    p = cv.start([])
    try:
        p.communicate(timeout=20 * SCALE)
    except subprocess.TimeoutExpired:
        cv.kill_all(p)
    ok = orch_env.wait_for(lambda: cv.lockfile() is None and cv.mails() >= 1, timeout=20 * SCALE)
    bds = cv.builddirs()
    base = {'ok': bool(ok and bds), 'mails': cv.mails(), 'endhooks': sum(1 for h in cv.hooklog() if h.split()[1:2] == ['end'])}
    cv.close_gates()
    cv.forget_trace()
    return (bds[0] if bds else None), base


def run_case(ctx, impl, drv, case):
    work = tempfile.mkdtemp(dir=ctx.mkscratch('orch'))
    cv = orch_env.Canvas(ctx, impl, work, [{'name': s['name'], 'parallel': s['parallel']} for s in case['steps']],
                         skip=case['skip'], ncpu=case['ncpu'], hook_args=case.get('hook_args') or (), root_slash=bool(case.get('root_slash')))
    # a 'plain' step EXITS with its code even when that is 128 + n (gate content 'x<code>', see tools/orch/probe)
    codes = {s['name']: ('x%d' % s['exit'] if s.get('plain') else s['exit']) for s in case['steps']}
    hold = case.get('hold') or {}                 # name -> seconds a gate stays closed after the step was seen to start
    ob = {'rounds': [], 'lock_samples': [], 'felloff_lock_samples': [], 'times': {}}
    kind = case.get('second_kind')
    try:
        older, base = None, {'mails': 0, 'endhooks': 0}
        if kind == 'resume-prefix' or case.get('pre'):
            # <pre> finished invocations of today (nine unless the case says otherwise), so that the one under test is named
            # DATE.<pre+1>: DATE.10 / .11 / .12 / .100 / .101
            today = time.strftime('%Y-%m-%d')
            for k in range(1, case.get('pre', 9) + 1):
                d = os.path.join(cv.root, '%s.%d' % (today, k))
                os.makedirs(os.path.join(d, 'tmp'))
                open(os.path.join(d, 'step.csv'), 'w').write('step,name,exit,duration,delta,log,user,time,skip\n1,%s,1,1,0,001-x.log,root,1700000000,0\n' % cv.key[case['steps'][0]['name']])
                open(os.path.join(d, 'robsd.log'), 'w').write('')
            older = os.path.join(cv.root, '%s.%d' % (today, case.get('older', 1)))
            ob['expect_dir'] = '%s.%d' % (today, case.get('pre', 9) + 1)
        if kind == 'resume-old':
            older, base = make_old(cv, case)
            if not base['ok']:
                ob['setup_failed'] = 'the older invocation of the resume-old lane did not finish'
                return ob
        pre = cv.builddirs()
        mine = lambda: [b for b in cv.builddirs() if b not in pre]
        t_launch = time.time()
        if case.get('free'):
            # free-running: every gate is open before canvas starts (configurations of 15 - 65 steps, and names for which the
            # model's prediction is known not to be met).  One round: the completion order is read off the probes' trace.
            for s in case['steps']:
                cv.open_gate(s['name'], codes[s['name']])
        proc = cv.start([] if case['detached'] else ['-d'])
        finished = []
        second = None
        settle = 0.04
        if case.get('free'):
            free_run(cv, proc, drv, case, ob, mine)
        while not case.get('free'):
            m = model(drv, case, finished)
            if m is None:
                ob['model_error'] = True
                break
            want = m['starts']
            ok = orch_env.wait_for(lambda: [t[1] for t in cv.trace() if t[0] == 'start'] == want or
                                   len([t for t in cv.trace() if t[0] == 'start']) > len(want), timeout=8 * SCALE)
            now = time.time()
            got = [t[1] for t in cv.trace() if t[0] == 'start']
            for nme in got:
                ob['times'].setdefault(nme, {}).setdefault('start_seen', now)
            if got and 'first_start' not in ob:
                # the time canvas needed from its launch to the first probe's start line: an over-eager loop needs about as
                # long (one loop iteration, a fork, robsd-exec, sh) to show an extra start
                ob['first_start'] = now - t_launch
                settle = min(0.5, max(0.04, 0.5 * ob['first_start']))
            if got == want:
                # nothing more may start before the next completion: give an over-eager loop the time to show itself
                time.sleep(settle * SCALE if m['running'] else 0.0)
                got = [t[1] for t in cv.trace() if t[0] == 'start']
            ob['rounds'].append({'finished': list(finished), 'model_starts': want, 'impl_starts': got})
            lk = cv.lockfile()
            bds = mine()
            if m['running'] and got == want:
                # sampled only while steps of this invocation are known to be waiting at their gates
                sample = bool(lk and bds and os.path.normpath(lk.strip()) == bds[0])
                if m['mode'] == 'felloff':
                    # the model's loop ran out of schedule lines (end skipped) while these steps still run
                    ob['felloff_lock_samples'].append(sample)
                else:
                    ob['lock_samples'].append(sample)
            if case.get('second_invocation') and second is None and bds and m['running'] and got == want:
                second = second_invocation(cv, case, kind, older, bds[0], lk, got, base)
                if second.get('not_refused'):
                    # it runs steps of its own on the same probes: nothing after this point can be attributed
                    ob['second'] = second
                    ob['aborted_after_second'] = True
                    cv.kill_all(proc)
                    return ob
            if got != want:
                break
            if not m['running']:
                break
            nxt = next(n for n in case['order'] if n in m['running'])
            if nxt in hold:
                left = ob['times'][nxt]['start_seen'] + hold[nxt] - time.time()
                if left > 0:
                    time.sleep(left)
            ob['times'][nxt]['gate_opened'] = time.time()
            cv.open_gate(nxt, codes[nxt])
            # the completion record and the hook of that step
            orch_env.wait_for(lambda: any(h.startswith('hook %s ' % nxt) for h in cv.hooklog()), timeout=8 * SCALE)
            ob['times'][nxt]['hook_seen'] = time.time()
            finished.append(nxt)
        ob['second'] = second
        try:
            out, _ = proc.communicate(timeout=(60 if case.get('free') else 15) * SCALE)
        except subprocess.TimeoutExpired:
            cv.kill_all(proc)
            out = b'(hung)'
            ob['hung'] = True
        ob['rc'] = proc.returncode
        if case['detached']:
            # the detached loop runs in the background of a shell that has exited: wait for the lock to go
            orch_env.wait_for(lambda: cv.lockfile() is None, timeout=10 * SCALE)
            time.sleep(0.05)
        ob['out'] = out.decode('latin1')[-600:]
        bds = mine()
        ob['builddirs'] = [os.path.basename(b) for b in bds]
        bd = bds[0] if bds else None
        ob['trace'] = cv.trace()
        ob['hooks'] = cv.hooklog()
        if case.get('hook_args'):
            # every call of the hook carries the configured extra words, unchanged, after ${step-name} ${step-exit}
            for h in ob['hooks']:
                w = h.split(' ')
                if w[3:] != list(case['hook_args']):
                    ob['hook_args_wrong'] = '%d extra words (lengths %s) instead of %d (lengths %s)' % (
                        len(w[3:]), [len(x) for x in w[3:]][:20], len(case['hook_args']), [len(x) for x in case['hook_args']][:20])
                    break
        ob['lock_after'] = cv.lockfile() is not None
        # mail of THIS invocation: not what the older invocation of the resume-old lane got, nor what the second one caused
        ob['mails'] = cv.mails() - base['mails'] - ((second or {}).get('mails_delta') or 0)
        if second and second.get('endhook_delta'):
            # hook calls made by the second invocation's exit trap are judged with the second invocation
            for _ in range(second['endhook_delta']):
                if 'hook end 0' in ob['hooks']:
                    ob['hooks'].remove('hook end 0')
        ob['launch'] = t_launch
        if bd:
            ob['rows'] = cv.rows(bd)
            ob['report'] = os.path.exists(os.path.join(bd, 'report'))
            logs = {}
            for r in ob['rows']:
                lg = r.get('log', '')
                p = os.path.join(bd, lg) if lg else None
                logs[r['step']] = bool(p and os.path.isfile(p) and ('output of %s\n' % cv.key.get(r['name'], r['name'])) in open(p, errors='replace').read())
                if lg and lg != '%03d-%s.log' % (int(r['step']), r['name'].replace('/', '-')):
                    ob.setdefault('odd_log_names', []).append(lg[:80])
            ob['logs'] = logs
            if case['detached']:
                try:
                    ob['robsdlog'] = open(os.path.join(bd, 'robsd.log'), errors='replace').read()[-400:]
                except OSError:
                    pass
        return ob
    finally:
        cv.reap_strays()
        shutil.rmtree(work, ignore_errors=True)


def free_run(cv, proc, drv, case, ob, mine):
    """wait for a free-running invocation; meanwhile sample the lock whenever a step of it is seen in flight before AND
    after the look at the lock file; afterwards ask the model once, with the completion order the probes recorded"""
    t_end = time.time() + 60 * SCALE

    def over():
        # a detached invocation goes on in the background of a shell that has exited: it is over when its lock is gone
        return proc.poll() is not None and (not case['detached'] or cv.lockfile() is None)
    while not over() and time.time() < t_end:
        tr = cv.trace()
        inflight = {t[1] for t in tr if t[0] == 'start'} - {t[1] for t in tr if t[0] == 'end'}
        if inflight and len(ob['lock_samples']) < 40:
            lk, bds = cv.lockfile(), mine()
            tr2 = cv.trace()
            if inflight - {t[1] for t in tr2 if t[0] == 'end'}:
                ob['lock_samples'].append(bool(lk and bds and os.path.normpath(lk.strip()) == bds[0]))
        time.sleep(0.02)
    if case['detached']:
        time.sleep(0.05)
    tr = cv.trace()
    finished = [t[1] for t in tr if t[0] == 'end']
    m = model(drv, case, finished)
    if m is None:
        # the recorded completion order is not one the model can follow (a step it has running never ended, or one ended that it
        # never started): let the model run to ITS end, completing what it has running in the recorded order where there is one
        ob['free_order_not_enabled'] = True
        fin = []
        while True:
            m = model(drv, case, fin)
            if m is None:
                ob['model_error'] = True
                return
            if not m['running'] or len(fin) > len(case['steps']):
                break
            fin.append(min(m['running'], key=lambda x: finished.index(x) if x in finished else len(finished) + m['running'].index(x)))
        finished = fin
    ob['rounds'].append({'finished': finished, 'model_starts': m['starts'], 'impl_starts': [t[1] for t in tr if t[0] == 'start']})


def second_invocation(cv, case, kind, older, running_dir, lk, started, base):
    """start a second canvas while the first waits at its gates and say what it did.  It must be refused without touching
    the first - whatever directory it names."""
    before = cv.stepfile(running_dir)
    dirs_before = [os.path.basename(b) for b in cv.builddirs()]
    mails0 = cv.mails()
    endhooks0 = sum(1 for h in cv.hooklog() if h.split()[1:2] == ['end'])
    if kind == 'resume-running':
        args = ['-d', '-r', running_dir]
    elif kind == 'resume-old':
        args = ['-r', older]                      # in the background (DETACH=1), as cron would: its exit trap may mail
    elif kind == 'resume-prefix':
        args = ['-d', '-r', older]
    else:
        args = ['-d']
    p2 = subprocess.Popen(['bash', os.path.join(cv.impl, 'canvas'), '-C', cv.conf] + args, env=cv.env(), cwd=cv.work,
                          stdout=subprocess.PIPE, stderr=subprocess.STDOUT, start_new_session=True)
    # it ends (refused), or it shows that it was not: a start line the first invocation cannot have written
    extra = []
    t_end = time.time() + 12 * SCALE
    while time.time() < t_end and p2.poll() is None:
        now = [t[1] for t in cv.trace() if t[0] == 'start']
        if len(now) > len(started):
            extra = now[len(started):]
            break
        time.sleep(0.005)
    not_refused = p2.poll() is None
    if not_refused:
        after_nr = cv.stepfile(running_dir)
        cv.kill_all(p2)
        out2 = ('(not refused: %s; killed)' % (('it started %s' % extra) if extra else 'still running after 12 s')).encode()
        rc2 = 0
    else:
        out2, _ = p2.communicate()
        rc2 = p2.returncode
        after_nr = None
    time.sleep(0.05)
    dirs_after = [os.path.basename(b) for b in cv.builddirs()]
    return {'kind': kind or 'fresh', 'rc': rc2, 'not_refused': not_refused, 'extra_starts': extra,
            'dirs_same': dirs_after == dirs_before, 'lock_same': cv.lockfile() == lk,
            'first_untouched': (after_nr if not_refused else cv.stepfile(running_dir)) == before,
            'mails_delta': cv.mails() - mails0,
            'endhook_delta': sum(1 for h in cv.hooklog() if h.split()[1:2] == ['end']) - endhooks0,
            'out': out2.decode('latin1')[-300:]}


# ---- the lock functions alone (C11): util.sh lock_acquire / lock_release vs Orch/RunLock.v ----------------------------
LOCK_SCRIPT = r"""
set -u
. "$1/util.sh"
setprogname t
DETACH=0
op="$2"; b="$3"
if [ "$op" = acq ]; then lock_acquire root "$b" >/dev/null 2>&1; else lock_release root "$b" >/dev/null 2>&1; fi
echo "rc=$?"
if [ -e root/.running ]; then printf 'lock='; od -An -tx1 root/.running | tr -d ' \n'; echo; else echo "lock=none"; fi
"""


def gen_lock_case(rng):
    """a lock file content (none / empty / a build directory name / a name without the final newline) and the build directory
    of the caller; names are chosen so that one is often a proper prefix, suffix or infix of the other (DATE.1 vs DATE.10 /
    DATE.100, DATE.9 vs DATE.10); the root may be spelled with a trailing slash (<root>//DATE.n)"""
    day = '2026-%02d-%02d' % (rng.randint(1, 12), rng.randint(1, 28))
    root = rng.choice(['/home/robsd', 'r', '/tmp/x y', '/home/robsd/'])
    k = rng.choice(list(range(1, 13)) + [9, 10, 99, 100])
    owner = '%s/%s.%d' % (root, day, k)
    kind = rng.choice(['same', 'prefix', 'prefix', 'prefix2', 'longer', 'suffix', 'other', 'neighbour', 'infix', 'none', 'empty', 'nonl'])
    if kind in ('prefix', 'prefix2'):
        # the caller's name is a proper prefix of the owner's: DATE.k while DATE.k0 .. DATE.k9 (DATE.k00 .. DATE.k99) runs
        b, owner = owner, owner + ('%d' % rng.randint(0, 9) if kind == 'prefix' else '%02d' % rng.randint(0, 99))
    else:
        b = {'same': owner, 'longer': owner + str(rng.randint(0, 9)), 'suffix': owner[1:],
             'other': '%s/%s.%d' % (root, day, k + 1), 'neighbour': '%s/%s.%d' % (root, day, max(1, k - 1) if k > 1 else 2),
             'infix': '%s.%d' % (day, k), 'none': owner, 'empty': owner, 'nonl': owner}[kind]
    lock = None if kind == 'none' else ('' if kind == 'empty' else owner)
    # 'other' / 'neighbour' are also the STALE lock: the directory the file names does not exist (nothing in lock_acquire looks)
    c = {'op': rng.choice(['acq', 'rel', 'rel']), 'lock': lock, 'b': b, 'kind': kind}
    if kind == 'nonl':
        c['no_newline'] = True         # the file holds the caller's own name WITHOUT the final newline (not what echo writes)
    return {'lock_unit': c}


def run_lock_case(ctx, impl, drv, case):
    c = case['lock_unit']
    work = tempfile.mkdtemp(dir=ctx.mkscratch('lock'))
    try:
        os.makedirs(os.path.join(work, 'root'))
        if c['lock'] is not None:
            open(os.path.join(work, 'root', '.running'), 'w').write((c['lock'] + ('' if c.get('no_newline') else '\n')) if c['lock'] else '')
        env = dict(os.environ)
        env['PATH'] = orch_env.SHIMS + ':' + env.get('PATH', '/usr/bin:/bin')
        r = subprocess.run(['bash', '-c', LOCK_SCRIPT, 'lock', impl, c['op'], c['b']], cwd=work, env=env,
                           stdout=subprocess.PIPE, stderr=subprocess.STDOUT, timeout=30)
        out = dict(l.split('=', 1) for l in r.stdout.decode('latin1').splitlines() if '=' in l)
        after = out.get('lock')
        if after not in (None, 'none'):
            raw = bytes.fromhex(after)
            after = (raw[:-1].hex() or '-') if raw.endswith(b'\n') else ('-' if raw == b'' else 'raw:' + after)
        impl_ans = '%s %s' % ('1' if out.get('rc') == '0' else '0', after)
        tok = 'none' if c['lock'] is None else common.hexs(c['lock'].encode())
        model_ans = common.run_driver(drv, ['%s %s %s' % ('lockacq' if c['op'] == 'acq' else 'lockrel', tok, common.hexs(c['b'].encode()))])[0]
        if c.get('no_newline') and c['op'] == 'rel':
            # RunLock.lockf is "the LINE the file holds": a file without the final newline is not expressible there.  "$(cat)" reads
            # it as the name (lock_acquire: the model's answer stands), the whole-file test of lock_release (RelWholeFileEqual:
            # `echo b | cmp - file`) does not: not the caller's, left as it is.  Stated here, not computed by the model.
            model_ans = '0 raw:' + c['lock'].encode().hex()
        return model_ans, impl_ans
    finally:
        shutil.rmtree(work, ignore_errors=True)


# ---- lanes with a scenario of their own ---------------------------------------------------------------------------------
def drive(cv, proc, codes, timeout=20, stop=None):
    """open the gate of every step as soon as it starts (with its code) until canvas ends; -> (rc, output)"""
    opened = set()
    t_end = time.time() + timeout * SCALE
    while proc.poll() is None and time.time() < t_end:
        for t in cv.trace():
            if t[0] == 'start' and t[1] not in opened:
                cv.open_gate(t[1], codes.get(t[1], 0))
                opened.add(t[1])
        if stop is not None and stop():
            break
        time.sleep(0.004)
    try:
        out, _ = proc.communicate(timeout=5 * SCALE)
    except subprocess.TimeoutExpired:
        cv.kill_all(proc)
        out = b'(hung)'
    return proc.returncode, out.decode('latin1')


def run_skip_on_resume(ctx, impl, case):
    """C04 lane: a sequential configuration, step `fail` exits 1; then `canvas -d -r <dir> -s <skip>` with <skip> a LATER
    step.  Property reading: a name of this invocation's skip set (-s) never runs."""
    work = tempfile.mkdtemp(dir=ctx.mkscratch('orchsr'))
    names = case['names']
    cv = orch_env.Canvas(ctx, impl, work, [{'name': n} for n in names], ncpu=1)
    ob = {}
    try:
        rc, out = drive(cv, cv.start(['-d']), {case['fail']: 1})
        bds = cv.builddirs()
        if not bds or rc == 0:
            ob['setup_failed'] = 'the first invocation did not fail (rc %s)' % rc
            return ob
        ob['rows_before'] = [(r['step'], r['name'], r['exit'], r['skip']) for r in cv.rows(bds[0])]
        n0 = len(cv.trace())
        cv.close_gates()
        rc2, out2 = drive(cv, cv.start(['-d', '-r', bds[0], '-s', case['skip']]), {})
        m = re.search(r'at step (\d+)', out2)
        ob.update({'rc': rc2, 'resumed_at': int(m.group(1)) if m else None,
                   'started': [t[1] for t in cv.trace()[n0:] if t[0] == 'start'],
                   'rows': [(r['step'], r['name'], r['exit'], r['skip']) for r in cv.rows(bds[0])], 'tail': out2[-300:]})
        return ob
    finally:
        cv.reap_strays()
        shutil.rmtree(work, ignore_errors=True)


def run_hook_stdin(ctx, impl, case):
    """C04 lane: sequential steps that all succeed; the configured hook reads its standard input to the end
    (tools/orch/hook-cat).  Property reading: the hook's input has nothing to do with the schedule - every step runs, end is
    recorded, exit 0."""
    work = tempfile.mkdtemp(dir=ctx.mkscratch('orchhk'))
    cv = orch_env.Canvas(ctx, impl, work, [{'name': n} for n in case['names']], ncpu=1, hook=os.path.join(orch_env.TOOLS, 'hook-cat'))
    try:
        rc, out = drive(cv, cv.start(['-d']), {})
        bds = cv.builddirs()
        try:
            eaten = open(os.path.join(cv.orch, 'hook-stdin')).read()
        except OSError:
            eaten = ''
        return {'rc': rc, 'started': [t[1] for t in cv.trace() if t[0] == 'start'],
                'rows': [(r['step'], r['name'], r['exit'], r['skip']) for r in cv.rows(bds[0])] if bds else [],
                'report': bool(bds and os.path.exists(os.path.join(bds[0], 'report'))), 'hook_read': eaten, 'tail': out[-300:]}
    finally:
        cv.reap_strays()
        shutil.rmtree(work, ignore_errors=True)


STALE_KINDS = ['vanished-other-day', 'vanished-today-10', 'vanished-today-1', 'empty', 'own-no-newline', 'vanished-no-newline']


def run_stale_lock(ctx, impl, drv, case):
    """C11 lane: a lock file is there BEFORE the (only) invocation starts - left by an invocation that is gone: it names a
    directory that no longer exists (another day's, today's .10, or today's .1 = the name the new invocation gets itself), is
    empty, or lacks the final newline.  Two sequential steps, every gate open.  What lock_acquire of Orch/RunLock.v answers for
    (lock, <root>/TODAY.1) decides what must be seen: refused (status non-zero, nothing started, the lock file byte for byte as it
    was, no build directory left behind, no mail) or a normal invocation (both steps, end recorded, lock gone afterwards)."""
    work = tempfile.mkdtemp(dir=ctx.mkscratch('orchsl'))
    cv = orch_env.Canvas(ctx, impl, work, [{'name': 'a'}, {'name': 'b'}], ncpu=1)
    today = time.strftime('%Y-%m-%d')
    mine = os.path.join(cv.root, today + '.1')
    k = case['kind']
    content = {'vanished-other-day': os.path.join(cv.root, '2001-02-03.1') + '\n', 'vanished-today-10': mine + '0\n',
               'vanished-today-1': mine + '\n', 'empty': '', 'own-no-newline': mine,
               'vanished-no-newline': os.path.join(cv.root, '2001-02-03.1')}[k]
    try:
        open(os.path.join(cv.root, '.running'), 'w').write(content)
        line = content.rstrip('\n')                        # what "$(cat .running)" yields
        tok = common.hexs(line.encode()) if line else '-'
        m_ok = common.run_driver(drv, ['lockacq %s %s' % (tok, common.hexs(mine.encode()))])[0].split()[0] == '1'
        for n in ('a', 'b'):
            cv.open_gate(n, 0)
        rc, out = drive(cv, cv.start(['-d' ] if not case.get('detached') else []), {}, timeout=20)
        if case.get('detached'):
            # the loop goes on in the background of a shell that has exited; a refusal happens before the shell detaches
            if m_ok:
                orch_env.wait_for(lambda: cv.lockfile() is None, timeout=20 * SCALE)
            time.sleep(0.3 if not m_ok else 0.05)
        bds = cv.builddirs()
        return {'model_acquires': m_ok, 'rc': rc, 'started': [t[1] for t in cv.trace() if t[0] == 'start'],
                'lock_after': cv.lockfile(), 'lock_before': content, 'builddirs': [os.path.basename(b) for b in bds],
                'rows': [(r['step'], r['name'], r['exit'], r['skip']) for r in cv.rows(bds[0])] if bds else [],
                'mails': cv.mails(), 'hooks': cv.hooklog(), 'tail': out[-300:]}
    finally:
        cv.reap_strays()
        shutil.rmtree(work, ignore_errors=True)


def run_robsd_wait(ctx, impl):
    """C04 lane: /repo's own robsd-wait, built from robsd-wait.c, run on a process that is alive.  A functional robsd-wait
    blocks until the process is gone; outside OpenBSD the program is a stub that returns at once."""
    sleeper = subprocess.Popen(['sleep', '30'])
    try:
        t0 = time.time()
        try:
            r = subprocess.run([os.path.join(impl, 'robsd-wait'), '-a', str(sleeper.pid)], stdout=subprocess.PIPE, stderr=subprocess.PIPE, timeout=3)
            return {'returned': True, 'rc': r.returncode, 'out': r.stdout.decode('latin1'), 'secs': time.time() - t0}
        except subprocess.TimeoutExpired:
            return {'returned': False}
        except OSError as e:
            return {'error': str(e)}
    finally:
        sleeper.kill()
        sleeper.wait()
