"""Translator (C09 only): interpolate.c -> Gen_InterpSrc.v: the characters, the order of the tests behind a '$',
the IGNORE branch, the depth bookkeeping and the diagnostics of interpolate_inner / interpolate / interpolate_file,
token for token; consumed by Interp/InterpTie.v.  The recursion limit itself stays in t_interp.py -> Gen_Interp.v,
which many other checks regenerate; this stricter reading is kept apart so that only C09 depends on it."""
import os, re


def norm(body):
    return re.sub(r'\s+', ' ', re.sub(r'/\*.*?\*/', ' ', body, flags=re.S)).strip()


def func_body(src, name):
    m = re.search(r'^%s\([^)]*\)\n\{\n(.*?)^\}\n' % re.escape(name), src, re.S | re.M)
    if not m:
        raise RuntimeError('interpolate.c: function %s not found' % name)
    return m.group(1)


def coq_bytes(s):
    return '[' + '; '.join(str(b) for b in s.encode()) + ']%N'


CH = r"'([^'\\]|\\.)'"
MSG = r'"invalid substitution, ([^"]*)"'
# interpolate_inner, token for token; the groups are what the model's constants and the harness's classifier use
INNER = re.compile(
    r'^int error = 0; arena_scope\(c->arg->scratch, s\); for \(;;\) \{ '
    r'const char \*lookup, \*name, \*p, \*ve, \*vs; size_t len; '
    r'p = strchr\(str, ' + CH + r'\); if \(p == NULL\) break; '
    r'buffer_puts\(bf, str, \(size_t\)\(p - str\)\); vs = &p\[1\]; '
    r'if \(\*vs != ' + CH + r'\) \{ log_warnx\(c->path, c->lno, ' + MSG + r'\); return 1; \} vs \+= 1; '
    r've = strchr\(vs, ' + CH + r'\); if \(ve == NULL\) \{ log_warnx\(c->path, c->lno, ' + MSG + r'\); return 1; \} '
    r'len = \(size_t\)\(ve - vs\); if \(len == 0\) \{ log_warnx\(c->path, c->lno, ' + MSG + r'\); return 1; \} '
    r'name = arena_strndup\(&s, vs, len\); lookup = c->arg->lookup\(name, &s, c->arg->arg\); '
    r'if \(lookup == NULL && \(c->flags & INTERPOLATE_IGNORE_LOOKUP_ERRORS\)\) \{ '
    r'buffer_puts\(bf, p, \(size_t\)\(ve - p \+ 1\)\); goto next; \} '
    r'if \(lookup == NULL\) \{ log_warnx\(c->path, c->lno, ' + MSG + r', \(int\)len, vs\); return 1; \} '
    r'error = interpolate\(c, bf, lookup\); if \(error\) return 1; '
    r'next: str = &ve\[1\]; \} buffer_puts\(bf, str, strlen\(str\)\); return 0;$')
OUTER = re.compile(
    r'^int error; if \(\+\+c->depth == (\d+)\) \{ log_warnx\(c->path, c->lno, ' + MSG + r'\); return 1; \} '
    r'error = interpolate_inner\(c, bf, str\); c->depth--; return error;$')
FILE_LOOP = ('while ((line = arena_buffer_getline(&s, bf, &it)) != NULL) { c.lno++; '
             "if (interpolate(&c, out, line)) return NULL; buffer_putc(out, '\\n'); } return buffer_str(out);")


def cchar(tok):
    if len(tok) == 1:
        return ord(tok)
    esc = {'\\n': 10, '\\t': 9, '\\0': 0, "\\'": 39, '\\\\': 92}
    if tok not in esc:
        raise RuntimeError('interpolate.c: unexpected character constant %r' % tok)
    return esc[tok]


def generate(repo):
    src = open(os.path.join(repo, 'interpolate.c')).read()
    m = re.findall(r'if\s*\(\s*\+\+c->depth\s*==\s*(\d+)\s*\)', src)
    if len(m) != 1:
        raise RuntimeError('interpolate.c: expected exactly one "++c->depth == N" test, found %d' % len(m))
    if not re.search(r'error = interpolate_inner\(c, bf, str\);\s*c->depth--;', src):
        raise RuntimeError('interpolate.c: depth is no longer decremented right after interpolate_inner')
    gen = {}
    # ---- the scanner
    mi = INNER.match(norm(func_body(src, 'interpolate_inner')))
    if not mi:
        raise RuntimeError('interpolate.c interpolate_inner: body changed: %r' % norm(func_body(src, 'interpolate_inner')))
    dollar, lbrace, m_brace, rbrace, m_close, m_empty, m_unknown = mi.groups()
    mo = OUTER.match(norm(func_body(src, 'interpolate')))
    if not mo or mo.group(1) != m[0]:
        raise RuntimeError('interpolate.c interpolate: body changed: %r' % norm(func_body(src, 'interpolate')))
    # the counter is touched at exactly these two places and never initialised to anything but 0
    # occurrences of the counter: the field, one ++ test, one --  (Interp/InterpTie.v tie_depth demands src_depth_sites = 2)
    ndepth = len(re.findall(r'\bdepth\b', re.sub(r'/\*.*?\*/', ' ', src, flags=re.S)))
    if norm(func_body(src, 'interpolate_file')).count(FILE_LOOP) != 1:
        raise RuntimeError('interpolate.c interpolate_file: the line loop changed')
    if 'return interpolate(&c, bf, str);' not in norm(func_body(src, 'interpolate_buffer')):
        raise RuntimeError('interpolate.c interpolate_buffer: no longer a plain call of interpolate')
    msgs = [m_brace, m_close, m_empty, re.sub(r" '%\.\*s'$", '', m_unknown), mo.group(2)]
    gen['Gen_InterpSrc.v'] = '\n'.join([
        '(* Gen_InterpSrc.v - GENERATED on every check by harness/t_interpsrc.py from interpolate.c.  Do not edit. *)',
        'From Coq Require Import List NArith.', 'Import ListNotations.', '',
        "(* interpolate_inner: strchr(str, '$'), *vs != '{', strchr(vs, '}') *)",
        'Definition src_dollar : N := %d%%N.' % cchar(dollar),
        'Definition src_lbrace : N := %d%%N.' % cchar(lbrace),
        'Definition src_rbrace : N := %d%%N.' % cchar(rbrace),
        '(* the order of the tests behind a reference opener, the IGNORE_LOOKUP_ERRORS copy and the place of the increment and',
        '   decrement are pinned as TEXT by the translator (anchored patterns over the three function bodies), not as constants *)',
        '(* interpolate: occurrences of the depth counter besides its declaration (one pre-increment test, one decrement) *)',
        'Definition src_depth_sites : nat := %d.' % (ndepth - 1),
        'Definition src_depth_limit : nat := %s.' % mo.group(1),
        '(* diagnostics after "invalid substitution, ": brace, close, empty, unknown, deep *)',
        'Definition src_messages : list (list N) :=',
        '  [%s].' % ';\n   '.join(coq_bytes(x) for x in msgs),
        '(* %s *)' % ' | '.join(msgs), ''])
    return gen


if __name__ == '__main__':
    import sys
    for k, v in generate(sys.argv[1] if len(sys.argv) > 1 else '/repo').items():
        print('==', k)
        print(v)
