"""C13 - regress log extraction: model/spec vs robsd-regress-log (DESIGN.md 7, C13)."""
import os, subprocess, hashlib
from concurrent.futures import ThreadPoolExecutor
import common
from common import hexs, unhex

TRANSLATORS = []
TRUSTED = ['modelled, not verified: read(2) of the log files, strstr/strncmp/strlen/memchr of libc, '
           'stdio printf("%s"); getopt flag parsing is exercised, not modelled']

KW = [b'FAILED', b'SKIPPED', b'DISABLED', b'EXPECTED_FAIL', b'UNEXPECTED_PASS', b'XFAILED', b'FAIL', b'PASSED',
      b'EXPECTED_FAILURE', b'UNEXPECTED_PASSED', b'NOT_SKIPPED']
MARKERS = [b'==== t1 ====', b'==== a b ====', b'===> sub/dir', b'==== ====', b'====  ====', b'==== x ==== ',
           b'====x ====', b'==== x===', b'=== x ====', b'==== a = b ====', b'==== a =====', b'===>', b'===', b'====',
           b'==== ', b'==== =', b'==== a ==== ====', b' ==== t ====', b'==== t ====\x00junk', b'===\x00>']
WORDS = [b'foo', b'bar baz', b'', b'cc -o x x.c', b'ok', b'+ not trace?', b'a\x00FAILED', b'\x00', b'*** Error 1', b'\r']


def gen_line(rng):
    k = rng.random()
    if k < 0.22:
        return b'+ ' + rng.choice(WORDS + KW)
    if k < 0.45:
        return rng.choice(MARKERS)
    if k < 0.52:
        # two outcome keywords of different classes on one line: [selected] is a disjunction,
        # each disjunct must be decided on its own
        a, b = rng.sample([b'SKIPPED', b'DISABLED', b'FAILED', b'EXPECTED_FAIL', b'UNEXPECTED_PASS'], 2)
        return rng.choice([b'', b'2 tests: 1 ']) + a + rng.choice([b', 1 ', b' ', b' earlier, now ']) + b
    if k < 0.70:
        pre = rng.choice([b'', b'test ', b'x', b'\t'])
        post = rng.choice([b'', b' (reason)', b'!', b'\x00 tail'])
        return pre + rng.choice(KW) + post
    if k < 0.75:
        return b''
    return rng.choice(WORDS)


def gen_log(rng):
    n = rng.choice([0, 1, 2, 3, 5, 8, 13, 20])
    lines = [gen_line(rng) for _ in range(n)]
    if rng.random() < 0.5:   # leading trace block
        lines = [b'+ ' + rng.choice(WORDS + KW) for _ in range(rng.randint(1, 3))] + lines
    data = b'\n'.join(lines)
    if lines and rng.random() < 0.8:
        data += b'\n'
    return data


def gen_case(rng):
    fl = rng.randint(1, 15)
    nfiles = rng.choice([1, 1, 1, 2, 3])
    files = []
    for _ in range(nfiles):
        files.append(None if rng.random() < 0.03 else gen_log(rng))
    return {'flags': fl, 'doprint': rng.random() < 0.75, 'files': [None if f is None else f.hex() for f in files]}


def flag_toks(fl):
    # F S X P
    return [str((fl >> i) & 1) for i in range(4)]


def flag_args(fl, doprint):
    s = '-'
    for i, c in enumerate('FSXP'):
        if (fl >> i) & 1:
            s += c
    if not doprint:
        s += 'n'
    return s


def file_toks(case):
    return ['!' if f is None else (f if f else '-') for f in case['files']]


def run_impl(impl, work, idx, case):
    d = os.path.join(work, str(idx))
    os.makedirs(d, exist_ok=True)
    paths = []
    for j, f in enumerate(case['files']):
        p = os.path.join(d, 'log%d' % j)
        if f is not None:
            open(p, 'wb').write(bytes.fromhex(f))
        paths.append(p)
    try:
        r = subprocess.run([os.path.join(impl, 'robsd-regress-log'), flag_args(case['flags'], case['doprint'])] + paths,
                           stdout=subprocess.PIPE, stderr=subprocess.PIPE, timeout=20)
        return (r.returncode, r.stdout, r.stderr)
    except subprocess.TimeoutExpired:
        return (-999, b'', b'timeout')


def load_corpus():
    import json, glob
    cases = []
    for p in sorted(glob.glob(os.path.join(common.VERIF, 'corpus', 'C13', '*.json'))):
        cases.append(json.load(open(p)))
    return cases


def evaluate(ctx, cases, res):
    impl = ctx.build_impl()
    drv = ctx.build_driver('rl')
    work = ctx.mkscratch('c13work')
    with ThreadPoolExecutor(16) as ex:
        obs = list(ex.map(lambda ic: run_impl(impl, work, ic[0], ic[1]), enumerate(cases)))
    qs = []
    for c, (rc, out, err) in zip(cases, obs):
        base = flag_toks(c['flags']) + ['1' if c['doprint'] else '0']
        ft = [str(len(c['files']))] + file_toks(c)
        qs.append(' '.join(['main'] + base + ft))
        qs.append(' '.join(['ok'] + base + [str(rc if rc >= 0 else 999), hexs(out)] + ft))
    ans = common.run_driver(drv, qs)
    for i, (c, (rc, out, err)) in enumerate(zip(cases, obs)):
        m = ans[2 * i]
        ok = ans[2 * i + 1]
        res.evaluations += 1
        impl_s = '%d %s' % (rc, hexs(out))
        key = hashlib.sha1(repr(c).encode()).hexdigest()
        res.count('exit=%d' % rc)
        res.count('files=%d' % len(c['files']))
        if rc == 0 and any(f and b'===' in bytes.fromhex(f) for f in c['files'] if f is not None):
            res.nontrivial.add(key)
        if m != impl_s:
            res.disagreements.append({'case': c, 'model': m, 'impl': impl_s})
        if ok != '1':
            what = 'robsd-regress-log %s: exit %d, output differs from the specified extraction' % (
                flag_args(c['flags'], c['doprint']), rc)
            if rc < 0 or rc > 2:
                what = 'robsd-regress-log terminated abnormally (status %d)' % rc
            res.oracle_failures.append({'case': c, 'signature': 'extract-mismatch', 'what': what,
                                        'impl': impl_s, 'stderr': err[-300:].decode('latin1')})
        if rc != 0 and out:
            res.oracle_failures.append({'case': c, 'signature': 'output-on-nonzero-exit',
                                        'what': 'exit %d with %d bytes on stdout' % (rc, len(out)), 'impl': impl_s})
    return res


def run(ctx, n=None):
    res = common.Result()
    res.rule = ('logs generated from the line kinds the property lists (trace lines, markers and near-miss markers, '
                'outcome keywords and keyword-like substrings, NUL bytes, empty lines, with/without final newline), '
                '1-3 files, all 15 selections, print/no-print; non-trivial = exit 0 and a marker-like line present; '
                'distinct by content hash')
    n = n or ctx.budget(1500, 60000)
    cases = load_corpus() + [gen_case(ctx.rng) for _ in range(n)]
    res.samples = cases[:3]
    res.assumptions = ['bytes 0..255 only; files up to ~25 lines in the correspondence (the theorems have no bound)']
    chunk = 20000
    for i in range(0, len(cases), chunk):
        evaluate(ctx, cases[i:i + chunk], res)
    res.traces_validated = res.evaluations
    return res


def extended_search(ctx, res, proof):
    return run(ctx, n=20000)


def replay(ctx, rep):
    case = rep.get('case') or (rep.get('first_disagreements') or [{}])[0].get('case')
    if case is None:
        print(rep)
        return 1
    res = common.Result()
    evaluate(ctx, [case], res)
    print('case:', case)
    print('disagreements:', res.disagreements)
    print('oracle failures:', res.oracle_failures)
    return 1 if (res.disagreements or res.oracle_failures) else 0


def shrink(ctx, failure):
    """smallest log (by lines) on which the same oracle signature still fails"""
    case = failure['case']
    if len(case['files']) != 1 or case['files'][0] is None:
        return None
    lines = bytes.fromhex(case['files'][0]).split(b'\n')

    def still(ls):
        c = dict(case, files=[b'\n'.join(ls).hex()])
        r = common.Result()
        evaluate(ctx, [c], r)
        return any(x.get('signature') == failure.get('signature') for x in r.oracle_failures)
    small = common.ddmin(lines, still, budget=40)
    return dict(case, files=[b'\n'.join(small).hex()])
