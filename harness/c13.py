"""C13 - regress log extraction: model/spec vs robsd-regress-log, vs the library entry points in process,
and the callers' classification (util.sh step_exec) vs its model (DESIGN.md 7, C13).

Lanes (case['lane']):
  cmd   robsd-regress-log [-FPSXn] file...            exit + stdout vs model `main`, oracle spec_ok_main; stderr must be
        empty.  case['usage']: empty selection or no file - OUTSIDE the property's quantifier ("all 15 non-empty outcome
        selections, one or several files"): not judged by the oracle, compared with the pinned usage() behaviour
        (exit 1, nothing on stdout, "usage:" on stderr) and counted under 'outside: ...'
  lib   regress_log_peek / _parse / _trim in process  (harness/rl_harness.c; REGRESS_LOG_NEWLINE and a pre-filled
        output buffer included) vs model `peek` / `parse` / `trim`, oracles spec_ok_peek_exact and spec_ok_trim
  step  the real step_exec of util.sh under bash with a stand-in runner that prints a prepared log and exits with a
        prepared status (tools/regresslog) vs model `step_exec_exit`, and the oracle spec_ok_step (the Hence clause
        decided on the lines of the log by RLOracles.failing_lineb, not by the model); 'late': the pipeline's tee
        starts case['late'] seconds late (True = 0.2)

Corpus (corpus/C13/*.json) runs FIRST, the cases that carry a 'finding' key first of all; every `fixed:` / `known`
entry of known_findings.json for C13 must have such a case, and a missing or empty corpus is an error.
No verdict is ever gated on known_findings.json here: every oracle verdict is emitted.
"""
import os, re, subprocess, hashlib, json, glob
from concurrent.futures import ThreadPoolExecutor
import common
from common import hexs, unhex

TRANSLATORS = ['t_regresslog']
TRUSTED = ['translator t_regresslog.py (regexes on regress-log.c/.h incl. the whole body of regress_log_trim, robsd-regress-log.c, util-regress.sh, '
           'util.sh step_exec and the three hand-over lines of step_exec_job, regress-html.c parse_run_log, step-exec.h, report.c '
           'regress_report_skip_step / regress_report_step_log / number_of_failures_report_status)',
           'modelled, not verified: read(2) of the log files, strstr/strncmp/strlen/memchr of libc, '
           'stdio printf("%s"); getopt flag parsing is exercised and its option table translated, not modelled',
           'step lane: bash in place of ksh, tools/regresslog/fakeexec in place of robsd-exec, tools/regresslog/latetee/tee '
           '(a tee that starts late) as the adversarial schedule; tee(1) and the pipe are the system\'s; that the shell waits for the '
           'last command of a pipeline is assumed (POSIX) and exercised, not proved',
           'report.c and the orchestrator enter through the models of other areas (Report/ReportDefs.v, Orch/OrchDefs.v, '
           'Orch/ResumeDefs.v: definitions imported read-only); their correspondence with the code is the business of C05 and C03/C04/C11']

TOOLS = os.path.join(common.VERIF, 'tools', 'regresslog')
RACE_SIG = 'step-exec-examines-log-before-tee-wrote-it'

KW = [b'FAILED', b'SKIPPED', b'DISABLED', b'EXPECTED_FAIL', b'UNEXPECTED_PASS', b'XFAILED', b'FAIL', b'PASSED',
      b'EXPECTED_FAILURE', b'UNEXPECTED_PASSED', b'NOT_SKIPPED']
MARKERS = [b'==== t1 ====', b'==== a b ====', b'===> sub/dir', b'==== ====', b'====  ====', b'==== x ==== ',
           b'====x ====', b'==== x===', b'=== x ====', b'==== a = b ====', b'==== a =====', b'===>', b'===', b'====',
           b'==== ', b'==== =', b'==== a ==== ====', b' ==== t ====', b'==== t ====\x00junk', b'===\x00>',
           # the " =" scan quirk and its neighbours (RLMarkers.ismarker_regress_spec)
           b'==== a =b ====', b'==== a= b ====', b'==== =a ====', b'==== a=b ====', b'====  = ====', b'==== a  ====',
           # CRLF logs: a test marker followed by CR is no marker, "===>" and keywords still match
           b'==== t1 ====\r', b'===> sub/dir\r', b'==== ====\r']
WORDS = [b'foo', b'bar baz', b'', b'cc -o x x.c', b'ok', b'+ not trace?', b'a\x00FAILED', b'\x00', b'*** Error 1', b'\r',
         b'x FAILED\r', b'\rFAILED', b'+ cd /usr/src\r', b'\r+ late', b'ok\r', b'FAILED\x00\r', b'\x00+']


def gen_line(rng):
    k = rng.random()
    if k < 0.22:
        return b'+ ' + rng.choice(WORDS + KW)
    if k < 0.45:
        return rng.choice(MARKERS)
    if k < 0.52:
        # two outcome keywords of different classes on one line: [selected] is a disjunction,
        # each disjunct must be decided on its own
        a, b = rng.sample([b'SKIPPED', b'DISABLED', b'FAILED', b'EXPECTED_FAIL', b'UNEXPECTED_PASS'], 2)
        return rng.choice([b'', b'2 tests: 1 ']) + a + rng.choice([b', 1 ', b' ', b' earlier, now ']) + b
    if k < 0.70:
        pre = rng.choice([b'', b'test ', b'x', b'\t'])
        post = rng.choice([b'', b' (reason)', b'!', b'\x00 tail'])
        return pre + rng.choice(KW) + post
    if k < 0.75:
        return b''
    return rng.choice(WORDS)


def long_line(rng, n):
    """a line of n bytes: filler, optionally a keyword at the start / in the middle / at the very end, optionally a NUL"""
    fill = rng.choice([b'x', b'=', b' =', b'ab '])
    body = (fill * (n // len(fill) + 1))[:n]
    k = rng.random()
    kw = rng.choice(KW[:5])
    if k < 0.3:
        body = body[:n - len(kw)] + kw
    elif k < 0.5:
        body = kw + body[len(kw):]
    elif k < 0.7:
        body = body[:n // 2] + kw + body[n // 2 + len(kw):]
    if rng.random() < 0.2:
        z = rng.randrange(n)
        body = body[:z] + b'\x00' + body[z + 1:]
    if rng.random() < 0.2:
        body = b'==== ' + body + b' ===='
    return body


def gen_log(rng, long_ok=True):
    if rng.random() < 0.08:
        # a boundary size / shape class (builders below); long_ok false = step lane: nothing above 16 KiB
        return gen_boundary_log(rng, small=not long_ok)
    n = rng.choice([0, 1, 2, 3, 5, 8, 13, 20])
    lines = [gen_line(rng) for _ in range(n)]
    if rng.random() < 0.5:   # leading trace block
        lines = [b'+ ' + rng.choice(WORDS + KW) for _ in range(rng.randint(1, 3))] + lines
    if long_ok and rng.random() < 0.03:   # line length is unbounded: cross the 1 KiB (peek scratch) and 64 KiB marks
        lines.insert(rng.randint(0, len(lines)), long_line(rng, rng.choice([254, 255, 256, 1023, 1024, 1025, 4095, 4096, 4097, 5000, 8191, 8192, 8193, 65535, 65536, 70000])))
    sep = b'\r\n' if rng.random() < 0.08 else b'\n'
    data = sep.join(lines)
    if lines and rng.random() < 0.8:
        data += sep
    return data


def gen_case(rng):
    fl = rng.randint(1, 15)
    nfiles = rng.choice([1, 1, 1, 2, 3])
    if rng.random() < 0.01:
        nfiles = rng.choice(COUNTS[3:])          # 15 ... 257 files on one command line
    usage = rng.random() < 0.04
    if usage:
        # the usage path: no outcome selected, or no file (the exit status 1 is also "nothing found")
        if rng.random() < 0.5:
            fl = 0
        else:
            nfiles, fl = 0, rng.randint(0, 15)
    files = []
    for _ in range(nfiles):
        files.append(None if rng.random() < (0.25 if usage else 0.03) else gen_log(rng))
    c = {'flags': fl, 'doprint': rng.random() < 0.75, 'files': [None if f is None else f.hex() for f in files]}
    if usage:
        c['usage'] = True
    return c


def huge_cases(rng, nlines=30):
    """beyond the initial 1 MiB of the scratch and output buffers of the command (the extracted model appends to
    its scratch block by copying: its cost grows with lines x bytes, hence few long lines in the quick tier)"""
    a = long_line(rng, (1 << 20) + 17)
    b = b'==== big ====\n' + b'\n'.join([b'line %d ' % i + b'.' * ((1200000 // nlines)) for i in range(nlines)]) + b'\nlast FAILED\nafter\n'
    return [{'flags': 15, 'doprint': True, 'files': [(b'+ t\n' + a + b'\nz SKIPPED\n').hex()]},
            {'flags': 1, 'doprint': True, 'files': [b.hex(), b'x FAILED'.hex()]}]


def gen_lib_case(rng):
    op = rng.choice(['peek', 'peek', 'parse', 'parse', 'parse', 'trim'])
    c = {'lane': 'lib', 'op': op, 'flags': rng.randint(1, 15), 'file': None if rng.random() < 0.03 else gen_log(rng).hex()}
    if op == 'parse':
        c['newline'] = rng.random() < 0.5
    if op != 'peek':
        c['prefill'] = rng.choice([b'', b'', b'earlier block\n', b'x', b'\n']).hex()
    if op == 'trim' and c['file'] is not None and rng.random() < 0.75:
        body = bytes.fromhex(c['file'])
        k = rng.random()
        if k < 0.4:
            # trailing trace blocks, trace lines in the middle
            body += b''.join(rng.choice([b'+ rm -f x\n', b'done\n', b'+ exit 0\n', b'+ a\n+ b\n']) for _ in range(rng.randint(1, 4)))
        elif k < 0.7:
            # two SEPARATE trace runs at the end, each of one or more lines: xend must be set at the first line of the
            # LAST run only (`if (xend == 0)` + the reset on the line between them)
            run = lambda: b''.join(b'+ ' + rng.choice([b'rm -f x', b'exit 0', b'cd /usr/src', b'FAILED']) + b'\n' for _ in range(rng.randint(1, 3)))
            body += b'kept 1\n' + run() + rng.choice([b'between\n', b'\n', b'x FAILED\n', b'==== t ====\n']) + run()
        else:
            # one trailing run of two or more trace lines after a kept line
            body += rng.choice([b'last kept line\n', b'\n']) + b''.join(b'+ t%d\n' % i for i in range(rng.randint(2, 4)))
        if rng.random() < 0.3:
            body = body[:-1]
        c['file'] = body.hex()
    return c


def trailing_trace_shape(data):
    """(length of the trailing run of trace lines, is there an earlier trace line after the leading block)"""
    lines = data.split(b'\n')
    if lines and lines[-1] == b'':
        lines.pop()
    lines = [l.split(b'\x00')[0] for l in lines]
    i = 0
    while i < len(lines) and lines[i].startswith(b'+'):
        i += 1
    rest = lines[i:]
    t = 0
    while t < len(rest) and rest[len(rest) - 1 - t].startswith(b'+'):
        t += 1
    return t, any(l.startswith(b'+') for l in rest[:len(rest) - t])


def gen_step_case(rng):
    log = gen_log(rng, long_ok=False)
    if rng.random() < 0.35:   # the runner traced its script, a test failed at the very end
        log = b'+ make regress\n' + log + rng.choice([b'x FAILED\n', b'y UNEXPECTED_PASS\n', b'z FAILED', b'ok\n'])
    return {'lane': 'step', 'mode': rng.choice(['robsd-regress', 'robsd-regress', 'robsd-regress', 'robsd', 'robsd-ports']),
            'rc': rng.choice([0, 0, 0, 1, 2, 124]), 'log': log.hex(), 'late': False}


LATE_CASES = [{'lane': 'step', 'mode': 'robsd-regress', 'rc': 0, 'late': True,
               'log': b'+ make regress\n==== t1 ====\nok\n==== t2 ====\nx FAILED\n'.hex()},
              {'lane': 'step', 'mode': 'robsd-regress', 'rc': 0, 'late': True, 'log': b'y UNEXPECTED_PASS\n'.hex()}]


def gen_late_case(rng, big=False):
    """the input class of the defect repaired in /repo 604d158: a regress step whose runner exits 0 and whose log has its
    failing line at the very END, examined while a late tee has not written it yet.  Varied: what precedes the failing
    line (trace block, markers, passing tests, lines of the outcomes that do not count as failure), FAILED or
    UNEXPECTED_PASS, final newline or not, the delay; big: more than the 64 KiB a pipe holds, so that tee has written all
    but the tail when the runner exits.  One case in five is a control without a failing line or with a failing runner."""
    pre = [b'+ make regress'] * rng.randint(0, 2)
    for i in range(rng.randint(0, 6)):
        pre.append(rng.choice([b'==== t%d ====' % i, b'===> sub/t%d' % i, b'ok', b'cc -o t t.c', b'', b't%d SKIPPED' % i,
                               b't%d EXPECTED_FAIL' % i, b'DISABLED', b'+ not a leading trace line', b'almost FAILE D']))
    if big:
        pre += [b'filler line %06d ' % i + b'.' * 50 for i in range(1400)]
    control = rng.random() < 0.2
    last = rng.choice([b'ok', b'z SKIPPED']) if control else rng.choice(
        [b'x FAILED', b'FAILED', b'y UNEXPECTED_PASS', b'*** Error 1 in t (FAILED)', b'2 tests: 1 SKIPPED, 1 FAILED'])
    log = b'\n'.join(pre + [last]) + (b'' if rng.random() < 0.25 else b'\n')
    return {'lane': 'step', 'mode': 'robsd-regress', 'rc': rng.choice([0, 0, 0, 2]) if control else 0,
            'late': rng.choice([0.1, 0.2, 0.3]), 'log': log.hex()}


# ---------------------------------------------------------------------------------------------------------------------
# Boundary SIZE / SHAPE classes.  A class is a deterministic LOG builder bl_<kind>(params) -> bytes; the generators draw
# the parameters with a small probability (gen_boundary_log) and corpus/C13/b13_*.json holds descriptors
# {"boundary": kind, "params": {...}, "flags": n} - a file may hold a LIST of them - which expand_descriptor turns into
# cases of the cmd and lib lanes (and of the step lane with "step": true), so a 64 KiB line costs one line of JSON.
# Which classes a log belongs to is decided from its BYTES (log_classes) for every evaluated case, generated or stored,
# and printed into the input distribution as "class: ...".
#
# The sizes are those at which regress-log.c / libks/buffer.c change behaviour or a fixed buffer would cut: 1 KiB (initial
# size of the line buffer of buffer_getline and of the scratch block of regress_log_peek), 4 KiB (a stdio / fgets block),
# 8 KiB (initial size of buffer_read, which then grows by halves: 8, 16, 32, 64 KiB), 64 KiB, 1 MiB (scratch block and
# output buffer of the command: huge_cases).
#
# CAPS (measured on the extracted model, driver `rl`, one question): the LENGTH of a line is linear (64 KiB 0.1 s,
# 256 KiB 0.4 s, 1 MiB needs `ulimit -s unlimited`); the NUMBER of lines of one block is quadratic (the scratch block is
# appended by copying: 1024 lines 0.06 s, 4096 lines 2 s, 16384 lines 72 s) and so is the number of extracted blocks (the
# output is appended by copying: 1024 blocks 0.5 s, 4096 blocks 21 s).  Counts are therefore capped at 257 in the
# generator, 1024 / 1025 in a few corpus cases, and nothing beyond.
KWCLASS = [(b'FAILED', 'F'), (b'SKIPPED', 'S'), (b'DISABLED', 'S'), (b'EXPECTED_FAIL', 'X'), (b'UNEXPECTED_PASS', 'P')]
KWPAIRS = [(a, b) for a, ca in KWCLASS for b, cb in KWCLASS if ca != cb]          # 18 ordered pairs of different classes
SZ_LINE = [0, 1, 254, 255, 256, 1022, 1023, 1024, 1025, 2047, 2048, 4095, 4096, 4097, 8191, 8192, 8193, 16383, 16384, 16385,
           65535, 65536, 65537]
SZ_OFF = [1024, 4096, 8192, 12288, 16384, 32768, 65536]
COUNTS = [0, 1, 2, 15, 16, 17, 31, 32, 33, 63, 64, 65, 255, 256, 257]
BANDS = [(0, 0), (1, 1), (2, 2), (15, 17), (31, 33), (63, 65), (254, 257), (1022, 1025), (2047, 2049), (4095, 4097), (8191, 8193),
         (12287, 12289), (16383, 16385), (32767, 32769), (65535, 65537)]
SHAPES = ['empty', 'one_newline', 'one_byte', 'one_plus', 'only_markers', 'only_trace', 'only_blank', 'crlf', 'crlf_no_final',
          'nul_before_kw', 'nul_after_kw', 'nul_in_marker', 'nul_first', 'kw_file_start', 'kw_file_end', 'kw_whole_file',
          'kw_whole_line', 'kw_case', 'kw_affix', 'kw_split_newline', 'kw_split_nul', 'kw_in_marker', 'kw_in_leading_trace',
          'kw_in_later_trace', 'marker_last_no_newline', 'hit_first_line', 'xfail_failed_overlap']


def band(n):
    for lo, hi in BANDS:
        if lo <= n <= hi:
            return str(lo) if lo == hi else '%d..%d' % (lo, hi)
    return None


def fillb(n, salt=0):
    """n ordinary bytes, no keyword, no '=', no '+', period 37 (a block moved by a power of two is noticed)"""
    a = b'abcdefghijklmnopqrstuvwxyz0123456789_'
    a = a[salt % 37:] + a[:salt % 37]
    return (a * (n // 37 + 1))[:n]


def lines_upto(n, linestart, width=64):
    """exactly n bytes of ordinary lines of `width` bytes (newline included); linestart: the n bytes END in a newline
    (what follows starts a line)"""
    if n <= 0:
        return b''
    out = (fillb(width - 1) + b'\n') * (n // width)
    r = n % width
    if r:
        out += (fillb(r - 1, 7) + b'\n') if linestart else fillb(r, 7)
    elif not linestart and out:
        out = out[:-1] + b'z'          # n is a multiple of the width and the token must NOT start a line: join the last two lines
    return out


def bl_linelen(p):
    """a line of n bytes (without newline) holding a keyword at its start / middle / very end, as an ordinary line, as a
    test marker `==== ... ====` of n bytes, or as a trace line; before it a marker and a line, after it one more hit"""
    n, kw, pos, wrap = p['n'], p.get('kw', 'FAILED').encode(), p.get('pos', 'end'), p.get('wrap', 'plain')
    body = fillb(n, 3)
    if wrap == 'marker' and n >= 10:
        body = b'==== ' + fillb(n - 10, 3) + b' ===='
    elif wrap == 'trace' and n >= 2:
        body = b'+ ' + fillb(n - 2, 3)
    if kw and wrap != 'marker' and n >= len(kw) + (2 if wrap == 'trace' else 0):
        at = {'start': 2 if wrap == 'trace' else 0, 'end': n - len(kw), 'mid': (n - len(kw)) // 2}[pos]
        body = body[:at] + kw + body[at + len(kw):]
    if p.get('nul') is not None and n:
        z = p['nul'] % n
        body = body[:z] + b'\x00' + body[z + 1:]
    eol = b'\r\n' if p.get('crlf') else b'\n'
    ls = ([b'+ leading trace'] if p.get('lead') else []) + [b'==== t1 ====', b'before'] + [body] + [b'after', b'==== t2 ====', b'x SKIPPED']
    if p.get('only'):
        ls = [body]
    return eol.join(ls) + (eol if p.get('nl', True) else b'')


def bl_offset(p):
    """a token (keyword, marker line, trace prefix) placed so that it STRADDLES / ENDS exactly at / STARTS exactly at byte
    `off` of the file; the bytes before it are one long line, or lines of 64 bytes - of 1 KiB from 32 KiB on: the lines before
    the token form ONE block, and the model's cost is lines x bytes (1024 lines of 64 bytes: 1.2 s per question)"""
    off, tok, where = p['off'], p.get('tok', 'FAILED').encode(), p.get('where', 'straddle')
    linestart = tok.startswith(b'===') or tok.startswith(b'+') or bool(p.get('linestart'))
    start = {'straddle': off - max(1, len(tok) // 2), 'ends': off - len(tok), 'starts': off}[where]
    start = max(0, start)
    if p.get('oneline') and not linestart:
        pre = b'==== t0 ====\n' + fillb(start - 13, 11) if start >= 13 else fillb(start, 11)
    else:
        pre = lines_upto(start, linestart, 64 if off <= 16384 else 1024)
        if start >= 64 + 13:
            pre = b'==== t0 ====\n' + pre[13:]          # same length: the block opens with a marker
    assert len(pre) == start, (len(pre), start)
    if tok.startswith(b'==='):
        post = b'\nbody of the block\nx FAILED\nlater\n'
    elif tok.startswith(b'+'):
        post = b' traced\nlast\ny UNEXPECTED_PASS\n'
    else:
        post = p.get('post', ' tail\nnext line\n').encode()
    return pre + tok + post


def bl_count(p):
    n, what, kw = p['n'], p['what'], p.get('kw', 'FAILED').encode()
    eol = b'\r\n' if p.get('crlf') else b'\n'
    if what == 'blocks':            # n extracted blocks
        ls = []
        for i in range(n):
            ls += [b'==== t%d ====' % i, b'body %d' % i, b'x ' + kw]
        ls += [b'==== last ====', b'ok']
    elif what == 'lines_in_block':  # one block of n lines before the hit (scratch block grows)
        ls = [b'==== t ===='] + [b'line %d' % i for i in range(n)] + [b'x ' + kw, b'after']
    elif what == 'markers':         # n consecutive marker lines (each resets the block), then a hit
        ls = [(b'==== m%d ====' % i) if i % 3 else (b'===> dir%d' % i) for i in range(n)] + [b'body', b'x ' + kw]
    elif what == 'hits':            # n hits without a marker between them
        ls = [b'==== t ===='] + [b't%d %s' % (i, kw) for i in range(n)]
    elif what == 'trace_lead':      # leading trace block of n lines (a keyword inside it does not count)
        ls = [b'+ step %d %s' % (i, kw) for i in range(n)] + [b'==== t ====', b'x ' + kw, b'+ not leading']
    elif what == 'trace_trail':     # trailing trace block of n lines
        ls = [b'+ lead', b'==== t ====', b'x ' + kw, b'kept'] + [b'+ trail %d' % i for i in range(n)]
    elif what == 'trace_mid':       # n trace lines in the middle: not leading, not trailing
        ls = [b'==== t ====', b'first'] + [b'+ mid %d' % i for i in range(n)] + [b'x ' + kw, b'+ trail']
    elif what == 'blank_trail':     # n empty lines after the last hit
        ls = [b'==== t ====', b'x ' + kw] + [b''] * n
    elif what == 'blank_lead':
        ls = [b''] * n + [b'+ not leading any more', b'==== t ====', b'x ' + kw]
    elif what == 'blank_in_block':
        ls = [b'==== t ===='] + [b''] * n + [b'x ' + kw]
    else:
        raise ValueError(what)
    return eol.join(ls) + (eol if ls and p.get('nl', True) else b'')


def bl_shape(p):
    w = p['which']
    return {
        'empty': b'', 'one_newline': b'\n', 'one_byte': b'x', 'one_plus': b'+',
        'only_markers': b'==== a ====\n===> b\n==== c ====\n', 'only_trace': b'+ a FAILED\n+ b\n+\n', 'only_blank': b'\n\n\n',
        'crlf': b'+ trace\r\n==== t1 ====\r\nok\r\nx FAILED\r\n===> sub\r\ny SKIPPED\r\n\r\n',
        'crlf_no_final': b'==== t1 ====\r\nx FAILED\r\nlast UNEXPECTED_PASS\r',
        'nul_before_kw': b'==== t ====\nx \x00 FAILED\nend\n', 'nul_after_kw': b'==== t ====\nx FAILED \x00 tail ====\nend\n',
        'nul_in_marker': b'==== t \x00====\nbody\n==== u ====\x00junk\nx FAILED\n', 'nul_first': b'\x00+ x\n+ trace?\nx FAILED\n',
        'kw_file_start': b'FAILED at the very start\nmore\n', 'kw_file_end': b'==== t ====\nbody\nends in UNEXPECTED_PASS',
        'kw_whole_file': b'SKIPPED', 'kw_whole_line': b'==== t ====\nEXPECTED_FAIL\n==== u ====\nDISABLED\n',
        'kw_case': b'==== t ====\nx failed\ny Failed\nz FAILEd\nskipped Skipped\nunexpected_pass\nExpected_Fail\n',
        'kw_affix': b'==== t ====\nXFAILED\n==== u ====\nFAILEDX\n==== v ====\nUNSKIPPEDLY\n==== w ====\nEXPECTED_FAILURE\n'
                    b'==== x ====\nUNEXPECTED_PASSED\n==== y ====\nNOT_DISABLED_\n==== z ====\nEXPECTED_FAI UNEXPECTED_PAS FAILE SKIPPE DISABLE\n',
        'kw_split_newline': b'==== t ====\nx FAIL\nED\ny SKIP\nPED\nEXPECTED_\nFAIL\n',
        'kw_split_nul': b'==== t ====\nx FAIL\x00ED\ny UNEXPECTED\x00_PASS\n',
        'kw_in_marker': b'==== FAILED ====\nbody\n===> SKIPPED\nmore\n==== t ====\nok\n',
        'kw_in_leading_trace': b'+ echo FAILED\n+ echo UNEXPECTED_PASS\n==== t ====\nok\n',
        'kw_in_later_trace': b'+ lead\n==== t ====\nok\n+ echo FAILED\n+ echo SKIPPED\n',
        'marker_last_no_newline': b'==== t ====\nx FAILED\n==== u ====',
        'hit_first_line': b'x SKIPPED\n==== t ====\ny FAILED\n',
        'xfail_failed_overlap': b'==== t ====\nEXPECTED_FAILED here\n==== u ====\nUNEXPECTED_PASS and EXPECTED_FAIL\n',
    }[w]


def bl_pair(p):
    """two outcome keywords of different classes on one line, in this order"""
    a, b = p['a'].encode(), p['b'].encode()
    return b'==== t1 ====\nfirst\n' + p.get('pre', '2 tests: 1 ').encode() + a + p.get('sep', ', 1 ').encode() + b + b'\nlast\n==== t2 ====\nok\n'


LOG_BUILDERS = {'linelen': bl_linelen, 'offset': bl_offset, 'count': bl_count, 'shape': bl_shape, 'pair': bl_pair}
COUNT_WHATS = ['blocks', 'lines_in_block', 'markers', 'hits', 'trace_lead', 'trace_trail', 'trace_mid', 'blank_trail', 'blank_lead', 'blank_in_block']
OFF_TOKENS = ['FAILED', 'SKIPPED', 'DISABLED', 'EXPECTED_FAIL', 'UNEXPECTED_PASS', '==== t9 ====', '===> sub/dir', '+ cd /usr/src']


def gen_boundary_params(rng, small=False):
    """small: for the step lane (every case is a bash run of step_exec): nothing above 16 KiB"""
    kind = rng.choice(['linelen', 'linelen', 'offset', 'offset', 'count', 'count', 'shape', 'pair'])
    kws = [k.decode() for k, _ in KWCLASS]
    if kind == 'linelen':
        p = {'n': rng.choice(SZ_LINE[:17] if small else SZ_LINE), 'kw': rng.choice(kws + ['']), 'pos': rng.choice(['start', 'mid', 'end']),
             'wrap': rng.choice(['plain', 'plain', 'plain', 'marker', 'trace']), 'nl': rng.random() < 0.7, 'crlf': rng.random() < 0.15,
             'lead': rng.random() < 0.3, 'only': rng.random() < 0.2}
        if rng.random() < 0.2:
            p['nul'] = rng.choice([0, 1, 255, 1023, 4095, -1, rng.randrange(1 << 16)])
    elif kind == 'offset':
        p = {'off': rng.choice(SZ_OFF[:5] if small else SZ_OFF), 'tok': rng.choice(OFF_TOKENS), 'where': rng.choice(['straddle', 'straddle', 'ends', 'starts']),
             'oneline': rng.random() < 0.4, 'linestart': rng.random() < 0.2}
        if rng.random() < 0.3:
            p['post'] = rng.choice(['', '\n', ' x', '\r\n'])
    elif kind == 'count':
        p = {'n': rng.choice(COUNTS), 'what': rng.choice(COUNT_WHATS), 'kw': rng.choice(kws), 'nl': rng.random() < 0.75, 'crlf': rng.random() < 0.1}
    elif kind == 'shape':
        p = {'which': rng.choice(SHAPES)}
    else:
        a, b = rng.choice(KWPAIRS)
        p = {'a': a.decode(), 'b': b.decode(), 'sep': rng.choice([', 1 ', ' ', '', ' earlier, now ', '\x00', '\t']), 'pre': rng.choice(['', '2 tests: 1 ', '+', ' '])}
    return kind, p


def gen_boundary_log(rng, small=False):
    kind, p = gen_boundary_params(rng, small)
    return LOG_BUILDERS[kind](p)


def log_classes(data):
    """the boundary classes a log belongs to, decided from its bytes (the same for generated, stored and shrunk cases)"""
    cls = set()
    if data == b'':
        return {'empty log'}
    lines = data.split(b'\n')
    if lines[-1] == b'':
        lines.pop()
    else:
        cls.add('no final newline')
    n = len(lines)
    if n >= 15 and band(n):
        cls.add('number of lines ' + band(n))
    m = max(len(l) for l in lines)
    if m >= 254 and band(m):
        cls.add('longest line ' + band(m))
    elif m > 65537:
        cls.add('longest line > 64 KiB')
    if n >= 2 and all(l.endswith(b'\r') for l in lines[:-1]) and (lines[-1].endswith(b'\r') or 'no final newline' in cls):
        cls.add('CRLF line ends')
    if b'\x00' in data:
        cls.add('NUL byte')
    for blk in (8192, 4096, 1024):
        if len(data) >= 254 and len(data) % blk == 0:
            cls.add('file size a multiple of %d' % blk)
            break
    # tokens against the block offsets of the file
    toks = [k for k, _ in KWCLASS]
    for kw in toks:
        i = data.find(kw)
        while i >= 0:
            e = i + len(kw)
            for blk, name in ((4096, '4 KiB'), (1024, '1 KiB')):
                if i // blk != (e - 1) // blk:
                    cls.add('keyword straddles a multiple of %s in the file' % name)
                    break
            if e % 4096 == 0:
                cls.add('keyword ends exactly at a multiple of 4 KiB')
            if i and i % 4096 == 0:
                cls.add('keyword starts exactly at a multiple of 4 KiB')
            if i == 0:
                cls.add('keyword is the first bytes of the file')
            if e == len(data):
                cls.add('keyword is the last bytes of the file')
            i = data.find(kw, i + 1)
    off = 0
    lead = None
    run = best = 0
    for j, l in enumerate(lines):
        c = l.split(b'\x00')[0]
        if lead is None and not c.startswith(b'+'):
            lead = j
        if c.startswith(b'====') or c.startswith(b'===>'):
            run += 1
            best = max(best, run)
            e = off + min(len(c), 5)
            if off and off // 4096 != (e - 1) // 4096:
                cls.add('marker prefix straddles a multiple of 4 KiB in the file')
            if off and off % 4096 == 0:
                cls.add('marker starts exactly at a multiple of 4 KiB')
        else:
            run = 0
        present = sorted({k for kw, k in KWCLASS if kw in c})
        if len(present) >= 2:
            cls.add('two keyword classes on one line')
        for kw in toks:
            if c.startswith(kw):
                cls.add('keyword at the start of a line')
            if c.endswith(kw) and c == l.rstrip(b'\r'):
                cls.add('keyword at the end of a line')
        off += len(l) + 1
    if lead is None:
        lead = n
        cls.add('only trace lines')
    if lead and band(lead) and lead >= 15:
        cls.add('leading trace block of %s lines' % band(lead))
    if best >= 15 and band(best):
        cls.add('%s consecutive marker lines' % band(best))
    t = 0
    while t < n and lines[n - 1 - t] in (b'', b'\r'):
        t += 1
    cls.add('trailing blank lines: %s' % (t if t <= 2 else band(t) or 'many'))
    return cls


def count_classes(res, lane, blobs, c=None):
    seen = set()
    for b in blobs:
        seen |= log_classes(b)
    for k in sorted(seen):
        res.count('class: ' + k)
    if c is not None and c.get('boundary'):
        res.count('boundary cases, %s lane: %s' % (lane, c['boundary']))
    return seen


def ordered_pairs(blob):
    """ordered pairs of outcome keywords of different classes found on one line (first occurrence decides the order)"""
    out = set()
    for l in blob.split(b'\n'):
        c = l.split(b'\x00')[0]
        pos = sorted((c.find(kw), kw, k) for kw, k in KWCLASS if kw in c)
        for i in range(len(pos)):
            for j in range(i + 1, len(pos)):
                if pos[i][2] != pos[j][2]:
                    out.add((pos[i][1], pos[j][1]))
    return out


def expand_descriptor(d, idx=0):
    """corpus descriptor -> cases.  cmd lane: the selection `flags` (default: all four) printing and, for every second
    descriptor, not printing; lib lane: peek, parse (NEWLINE / pre-filled buffer alternating) and trim; "step": true adds a
    regress step whose runner exits 0.  {"boundary": "pairs_all"} expands to every ordered pair of keywords of different
    classes under every one of the 15 selections (cmd lane, printing) and in peek mode."""
    if d['boundary'] == 'pairs_all':
        out = []
        for k, (a, b) in enumerate(KWPAIRS):
            log = bl_pair({'a': a.decode(), 'b': b.decode(), 'sep': [', 1 ', ' ', ' earlier, now '][k % 3]}).hex()
            for fl in range(1, 16):
                out.append({'flags': fl, 'doprint': True, 'files': [log], 'boundary': 'pair'})
                out.append({'lane': 'lib', 'op': 'peek', 'flags': fl, 'file': log, 'boundary': 'pair'})
        return out
    if d['boundary'] == 'nfiles':
        p = d['params']
        hit, miss = b'==== t ====\nx FAILED\n'.hex(), b'==== t ====\nok\n'.hex()
        pat = {'all': lambda i, n: hit, 'none': lambda i, n: miss, 'alt': lambda i, n: hit if i % 2 == 0 else miss,
               'first': lambda i, n: hit if i == 0 else miss, 'last': lambda i, n: hit if i == n - 1 else miss,
               'empty_between': lambda i, n: hit if i in (0, n - 1) else '', 'missing_last': lambda i, n: None if i == n - 1 else hit}[p.get('pattern', 'alt')]
        return [{'flags': d.get('flags', 1), 'doprint': p.get('doprint', True), 'files': [pat(i, p['n']) for i in range(p['n'])], 'boundary': 'nfiles'}]
    if d['boundary'] not in LOG_BUILDERS:
        raise RuntimeError('unknown boundary class %r' % d['boundary'])
    log = LOG_BUILDERS[d['boundary']](d['params']).hex()
    fl = d.get('flags', 15)
    tag = {'boundary': d['boundary'], 'params': d['params']}
    out = [dict({'flags': fl, 'doprint': True, 'files': [log]}, **tag)]
    if idx % 2:
        out.append(dict({'flags': fl, 'doprint': False, 'files': [log, log]}, **tag))
    out.append(dict({'lane': 'lib', 'op': 'peek', 'flags': fl, 'file': log}, **tag))
    out.append(dict({'lane': 'lib', 'op': 'parse', 'flags': fl, 'file': log, 'newline': bool(idx % 2), 'prefill': [b'', b'earlier block\n', b'x'][idx % 3].hex()}, **tag))
    out.append(dict({'lane': 'lib', 'op': 'trim', 'flags': fl, 'file': log, 'prefill': [b'', b'old'][idx % 2].hex()}, **tag))
    if d.get('step'):
        out.append(dict({'lane': 'step', 'mode': 'robsd-regress', 'rc': 0, 'log': log, 'late': False}, **tag))
    return out


def run_driver(path, lines, timeout=900, workers=8):
    """common.run_driver with an unlimited stack: the extracted list functions are not tail recursive and a
    line of 1 MiB overflows the default 8 MiB stack.  The questions are independent: they are dealt out to `workers`
    driver processes and the answers put back in order."""
    def one(ls):
        if not ls:
            return []
        r = subprocess.run(['bash', '-c', 'ulimit -s unlimited 2>/dev/null || ulimit -s hard; exec "$0"', path],
                           input='\n'.join(ls) + '\n', stdout=subprocess.PIPE, stderr=subprocess.PIPE, text=True, timeout=timeout)
        out = r.stdout.split('\n')
        if out and out[-1] == '':
            out.pop()
        if len(out) != len(ls):
            raise RuntimeError('driver %s: %d answers for %d questions (rc=%s, stderr=%s)' % (path, len(out), len(ls), r.returncode, r.stderr[-500:]))
        return out
    if len(lines) < 4 * workers:
        return one(lines)
    with ThreadPoolExecutor(workers) as ex:
        parts = list(ex.map(one, [lines[i::workers] for i in range(workers)]))
    out = [None] * len(lines)
    for i, part in enumerate(parts):
        out[i::workers] = part
    return out


def flag_toks(fl):
    # F S X P
    return [str((fl >> i) & 1) for i in range(4)]


def flag_args(fl, doprint):
    s = '-'
    for i, c in enumerate('FSXP'):
        if (fl >> i) & 1:
            s += c
    if not doprint:
        s += 'n'
    return s


def file_toks(case):
    return ['!' if f is None else (f if f else '-') for f in case['files']]


def run_impl(impl, work, idx, case):
    d = os.path.join(work, str(idx))
    os.makedirs(d, exist_ok=True)
    paths = []
    for j, f in enumerate(case['files']):
        p = os.path.join(d, 'log%d' % j)
        if f is not None:
            open(p, 'wb').write(bytes.fromhex(f))
        paths.append(p)
    fa = flag_args(case['flags'], case['doprint'])
    try:
        r = subprocess.run([os.path.join(impl, 'robsd-regress-log')] + ([] if fa == '-' else [fa]) + paths,
                           stdout=subprocess.PIPE, stderr=subprocess.PIPE, timeout=60)
        return (r.returncode, r.stdout, r.stderr)
    except subprocess.TimeoutExpired:
        return (-999, b'', b'timeout')


def load_corpus():
    """corpus/C13/*.json, the cases with a 'finding' key first.  Raises when the directory is missing or empty, and when
    a `fixed:` / `known` entry of known_findings.json for C13 has no corpus case of its input class: a case whose
    'finding' is the commit id of the repair (fixed) or the signature (known)."""
    d = os.path.join(common.VERIF, 'corpus', 'C13')
    if not os.path.isdir(d):
        raise RuntimeError('corpus/C13 is missing')
    cases = []
    for p in sorted(glob.glob(os.path.join(d, '*.json'))):
        j = json.load(open(p))
        for idx, c in enumerate(j if isinstance(j, list) else [j]):
            if 'boundary' in c and 'files' not in c and 'file' not in c and 'log' not in c:
                # a descriptor of a boundary class: expanded into cases of the lanes (deterministic)
                for x in expand_descriptor(c, idx):
                    x['corpus'] = os.path.basename(p)
                    cases.append(x)
                continue
            c.setdefault('corpus', os.path.basename(p))
            cases.append(c)
    if not cases:
        raise RuntimeError('corpus/C13 is empty')
    kf = common.load_known()
    need = []
    for e in kf.get('fixed', []):
        m = re.match(r'fixed: property=C13 ([0-9a-f]{7,40})\b', e if isinstance(e, str) else '')
        if m:
            need.append(m.group(1))
    need += [k['signature'] for k in kf.get('known', []) if isinstance(k, dict) and k.get('property') == 'C13']
    have = {c.get('finding') for c in cases}
    for n in need:
        if n not in have:
            raise RuntimeError('known_findings.json lists C13 %s but corpus/C13 has no case with "finding": "%s"' % (n, n))
    for c in cases:
        if c.get('finding') == '604d158' and not (c.get('lane') == 'step' and c.get('late') and c.get('mode') == 'robsd-regress' and c.get('rc') == 0):
            raise RuntimeError('corpus case %s does not exercise the input class of 604d158 (regress step, runner exits 0, late tee)' % c['corpus'])
    return sorted(cases, key=lambda c: 0 if c.get('finding') else 1)


def stderr_class(err):
    if not err:
        return 'empty'
    return 'usage' if err.startswith(b'usage:') else 'other'


def get_drv(ctx):
    """the extracted model is built once per run (build_driver regenerates coq/gen and re-extracts under the Coq lock)"""
    if not getattr(ctx, '_c13_drv', None):
        ctx._c13_drv = ctx.build_driver('rl')
    return ctx._c13_drv


def get_impl(ctx):
    if not getattr(ctx, '_c13_impl', None):
        ctx._c13_impl = ctx.build_impl()
    return ctx._c13_impl


PAIR_COMBOS = set()      # ((first keyword, second keyword), selection) evaluated in the cmd lane of this run
USAGE_OUTSIDE = 'outside: empty selection or no file (usage path)'


def is_usage(c):
    # Predicate on the CASE.  Outside the property: its quantifier is "all 15 non-empty outcome selections, one or several
    # files", and "exits 1 if none does" is about a selection that exists.  Such a run is compared with the usage() of
    # robsd-regress-log.c that t_regresslog.py pins (exit_usage = 1 in C13_source_pins), not judged by spec_ok_main.
    return c['flags'] == 0 or len(c['files']) == 0


def evaluate(ctx, cases, res):
    """cmd lane"""
    impl = get_impl(ctx)
    drv = get_drv(ctx)
    work = ctx.mkscratch('c13work')
    with ThreadPoolExecutor(16) as ex:
        obs = list(ex.map(lambda ic: run_impl(impl, work, ic[0], ic[1]), enumerate(cases)))
    qs = []
    for c, (rc, out, err) in zip(cases, obs):
        base = flag_toks(c['flags']) + ['1' if c['doprint'] else '0']
        ft = [str(len(c['files']))] + file_toks(c)
        qs.append(' '.join(['main'] + base + ft))
        qs.append(' '.join(['ok'] + base + [str(rc if rc >= 0 else 999), hexs(out)] + ft))
    ans = run_driver(drv, qs)
    for i, (c, (rc, out, err)) in enumerate(zip(cases, obs)):
        m = ans[2 * i]
        ok = ans[2 * i + 1]
        res.evaluations += 1
        impl_s = '%d %s' % (rc, hexs(out))
        ec = stderr_class(err)
        if is_usage(c):
            res.count(USAGE_OUTSIDE)
            res.count(USAGE_OUTSIDE + (': no outcome selected' if c['flags'] == 0 else ': no file'))
            if (rc, out, ec) != (1, b'', 'usage'):
                res.disagreements.append({'case': c, 'model': '1 - stderr=usage (robsd-regress-log.c usage())',
                                          'impl': '%s stderr=%s' % (impl_s[:2000], ec), 'via': 'usage path'})
            continue
        key = hashlib.sha1(repr(c).encode()).hexdigest()
        res.count('exit=%d' % rc)
        res.count('files=%d' % len(c['files']))
        blobs = [bytes.fromhex(f) for f in c['files'] if f]
        count_classes(res, 'cmd', blobs[:4], c)
        if band(len(c['files'])) and len(c['files']) >= 15:
            res.count('class: number of files ' + band(len(c['files'])))
        for b in blobs[:4]:
            for a_b in ordered_pairs(b):
                PAIR_COMBOS.add((a_b, c['flags']))
        if any(b.count(b'\n') > 1 and b.count(b'\r\n') == b.count(b'\n') for b in blobs):
            res.count('cmd: CRLF log')
        if any(b'\x00' in b for b in blobs):
            res.count('cmd: NUL byte in a log')
        if any(max((len(l) for l in b.split(b'\n')), default=0) >= 1024 for b in blobs):
            res.count('cmd: line of >= 1024 bytes')
        if rc == 0 and any(b'===' in b for b in blobs):
            res.nontrivial.add(key)
        if m != impl_s:
            res.disagreements.append({'case': c, 'model': m[:2000], 'impl': impl_s[:2000]})
        if ec != 'empty':
            # the extractor has no diagnostics of its own outside usage(): an unreadable file is exit 2 without a message
            res.disagreements.append({'case': c, 'model': 'stderr empty', 'impl': 'stderr=%s %r' % (ec, err[-200:]), 'via': 'stderr'})
        if ok != '1':
            what = 'robsd-regress-log %s: exit %d, output differs from the specified extraction' % (
                flag_args(c['flags'], c['doprint']), rc)
            if rc < 0 or rc > 2:
                what = 'robsd-regress-log terminated abnormally (status %d)' % rc
            res.oracle_failures.append({'case': c, 'signature': 'extract-mismatch', 'what': what,
                                        'impl': impl_s[:2000], 'stderr': err[-300:].decode('latin1')})
        if rc != 0 and out:
            res.oracle_failures.append({'case': c, 'signature': 'output-on-nonzero-exit',
                                        'what': 'exit %d with %d bytes on stdout' % (rc, len(out)), 'impl': impl_s[:2000]})
    return res


def header_bits(impl):
    hdr = open(os.path.join(impl, 'regress-log.h')).read()
    bits = dict(re.findall(r'^#define\s+REGRESS_LOG_([A-Z]+)\s+0x([0-9a-fA-F]+)u', hdr, re.M))
    return {k: int(v, 16) for k, v in bits.items()}


def evaluate_lib(ctx, cases, res):
    """lib lane: peek / parse / trim in process"""
    impl = get_impl(ctx)
    drv = get_drv(ctx)
    work = ctx.mkscratch('c13lib')
    exe = os.path.join(work, 'rl_harness')
    objs = [os.path.join(impl, o) for o in ('regress-log.o', 'buffer.o', 'consistency.o')]
    r = common.sh(['cc', '-I' + impl, os.path.join(common.VERIF, 'harness', 'rl_harness.c')] + objs + ['-o', exe])
    if r.returncode != 0:
        raise common.BuildFailure('rl_harness: ' + r.stdout[-1500:])
    bits = header_bits(impl)
    lines, qs = [], []
    for i, c in enumerate(cases):
        p = os.path.join(work, 'f%d' % i)
        if c['file'] is not None:
            open(p, 'wb').write(bytes.fromhex(c['file']))
        fl = c['flags']
        cfl = sum(bits[n] for j, n in enumerate(['FAILED', 'SKIPPED', 'XFAILED', 'XPASSED']) if (fl >> j) & 1)
        fh = c['file'] if c['file'] else '-'
        if c['op'] == 'peek':
            lines.append('peek %d %s' % (cfl, p))
            qs.append(' '.join(['peek'] + flag_toks(fl) + [fh]))
        elif c['op'] == 'parse':
            nl = bool(c.get('newline'))
            lines.append('parse %d %s %s' % (cfl | (bits['NEWLINE'] if nl else 0), p, c.get('prefill') or '-'))
            qs.append(' '.join(['parse'] + flag_toks(fl) + ['1' if nl else '0', fh, c.get('prefill') or '-']))
        else:
            lines.append('trim %s %s' % (p, c.get('prefill') or '-'))
            qs.append('trim ' + fh)
    p = subprocess.run([exe], input=('\n'.join(lines) + '\n').encode(), stdout=subprocess.PIPE, stderr=subprocess.PIPE, timeout=600)
    outs = p.stdout.decode().split('\n')[:-1]
    if len(outs) != len(cases):
        res.oracle_failures.append({'case': cases[len(outs)] if len(outs) < len(cases) else None, 'signature': 'abnormal-termination',
                                    'what': 'regress-log.c in process: harness died (status %s) at case %d' % (p.returncode, len(outs))})
        return
    if p.stderr:
        res.disagreements.append({'case': None, 'model': 'stderr empty', 'impl': repr(p.stderr[-300:]), 'via': 'stderr of the in-process harness'})
    ans = run_driver(drv, qs)
    pk = [(i, c) for i, c in enumerate(cases) if c['op'] == 'peek' and c['file'] is not None]
    oks = run_driver(drv, [' '.join(['okpeek'] + flag_toks(c['flags']) + [outs[i].split()[0], c['file'] or '-'])
                                  for i, c in pk]) if pk else []
    okmap = {i: o for (i, _), o in zip(pk, oks)}
    tr = [(i, c) for i, c in enumerate(cases) if c['op'] == 'trim' and c['file'] is not None and outs[i].startswith('1 ')]
    oks = run_driver(drv, ['oktrim %s %s' % (c['file'] or '-', outs[i].split()[1]) for i, c in tr]) if tr else []
    oktrim = {i: o for (i, _), o in zip(tr, oks)}
    for i, (c, o, m) in enumerate(zip(cases, outs, ans)):
        res.evaluations += 1
        res.count('lib: %s%s' % (c['op'], ' NEWLINE' if c.get('newline') else ''))
        if c['file']:
            for k in count_classes(res, 'lib', [bytes.fromhex(c['file'])], c):
                if c['op'] == 'trim' and (k.startswith('trailing blank') or k.startswith('leading trace')):
                    res.count('lib: trim, ' + k)
        if c['op'] == 'trim' and c['file'] is not None:
            t, mid = trailing_trace_shape(bytes.fromhex(c['file']))
            if t >= 2:
                res.count('lib: trim, trailing run of >= 2 trace lines')
            if t >= 1 and mid:
                res.count('lib: trim, trailing trace run and an earlier separate one')
        if c['file'] is None:
            want = '-1 ' + (c.get('prefill') or '-') if c['op'] == 'parse' else '-1 -'
            if c['op'] == 'trim':
                want = '-1 ' + (c.get('prefill') or '-')
        elif c['op'] == 'peek':
            want = m + ' -'
        elif c['op'] == 'parse':
            want = m
        else:
            want = '1 ' + m
        if c['file'] and b'===' in bytes.fromhex(c['file']) and not o.startswith('0 ') and not o.startswith('-1'):
            res.nontrivial.add(hashlib.sha1(repr(c).encode()).hexdigest())
        if o != want:
            res.disagreements.append({'case': c, 'model': want[:2000], 'impl': o[:2000], 'via': 'in process'})
        if okmap.get(i, '1') != '1':
            res.oracle_failures.append({'case': c, 'signature': 'peek-mismatch', 'impl': o,
                                        'what': 'regress_log_peek returned %s: not "1 if a selected line exists after the leading trace block, else 0"' % o.split()[0]})
        if c['op'] == 'trim' and c['file'] is not None and (oktrim.get(i) != '1'):
            res.oracle_failures.append({'case': c, 'signature': 'trim-mismatch', 'impl': o[:2000],
                                        'what': 'regress_log_trim returned %s and wrote something else than the log without its leading and its '
                                                'trailing block of trace lines' % o.split()[0]})


def run_step(impl, work, cases):
    """[(return value | 'none', 'same' | 'differs' | '?', 'late' | 'sys' | '?')], stderr tail"""
    for i, c in enumerate(cases):
        open(os.path.join(work, '%d.log' % i), 'wb').write(bytes.fromhex(c['log']))
        open(os.path.join(work, '%d.rc' % i), 'w').write('%d\n' % c['rc'])
        open(os.path.join(work, '%d.mode' % i), 'w').write(c['mode'] + '\n')
        late = os.path.join(work, '%d.late' % i)
        if c.get('late'):
            open(late, 'w').write('' if c['late'] is True else '%s\n' % c['late'])
        elif os.path.exists(late):
            os.unlink(late)
    r = subprocess.run(['bash', os.path.join(TOOLS, 'step_exec_cases.sh'), impl, work, str(len(cases))],
                       stdout=subprocess.PIPE, stderr=subprocess.PIPE, timeout=900)
    got = {}
    for l in r.stdout.decode('latin1').splitlines():
        t = l.split()
        if len(t) == 4 and t[0].isdigit():
            got[int(t[0])] = (t[1], t[2], t[3])
    return [got.get(i, ('none', '?', '?')) for i in range(len(cases))], r.stderr[-300:].decode('latin1')


def check_tools(res):
    """a missing stand-in would turn the step lane into a lane without verdicts"""
    for f in ('fakeexec', 'step_exec_cases.sh', os.path.join('latetee', 'tee')):
        p = os.path.join(TOOLS, f)
        if not os.path.isfile(p) or (f != 'step_exec_cases.sh' and not os.access(p, os.X_OK)):
            res.tie_errors.append('step lane: tools/regresslog/%s is missing or not executable' % f)
    if not any(os.access(t, os.X_OK) for t in ('/usr/bin/tee', '/bin/tee')):
        res.tie_errors.append('step lane: no system tee for the late tee to hand over to')


def evaluate_step(ctx, cases, res):
    """step lane: the orchestrator's classification.  Two judges: the model (step_exec_exit: a difference is a
    disagreement) and, independently of it, the oracle spec_ok_step applied to what the real step_exec returned - the
    Hence clause itself: in regress mode a log with a FAILED / UNEXPECTED_PASS line after the leading trace block gives
    a non-zero status, otherwise the runner's status is returned; 'failing' is decided by RLOracles.failing_lineb on the
    lines of the log (C13_oracles_exact: it is the Prop failing_line, and the oracle accepts the model)."""
    impl = get_impl(ctx)
    drv = get_drv(ctx)
    work = ctx.mkscratch('c13step')
    obs, err = run_step(impl, work, cases)
    qs = []
    for c, (o, _, _) in zip(cases, obs):
        rg = 1 if c['mode'] == 'robsd-regress' else 0
        qs.append('stepexec %d %d %s' % (rg, c['rc'], c['log'] or '-'))
        qs.append('failing %s' % (c['log'] or '-'))
        qs.append('okstep %d %d %s %s' % (rg, c['rc'], c['log'] or '-', o if o.isdigit() else '999999'))
    ans = run_driver(drv, qs)
    for i, c in enumerate(cases):
        m, failing, ok = ans[3 * i], ans[3 * i + 1] == '1', ans[3 * i + 2] == '1'
        o, same, which = obs[i]
        regress = c['mode'] == 'robsd-regress'
        res.evaluations += 1
        res.count('step: mode=%s%s%s' % (c['mode'], ' failing-line' if failing else '', ' late-tee' if c.get('late') else ''))
        res.extra['step_lane_cases'] = res.extra.get('step_lane_cases', 0) + 1
        if c['log']:
            count_classes(res, 'step', [bytes.fromhex(c['log'])], c)
        if c.get('late'):
            res.extra['late_tee_cases'] = res.extra.get('late_tee_cases', 0) + 1
            if failing and regress and c['rc'] == 0:
                res.extra['late_tee_cases_of_the_604d158_class'] = res.extra.get('late_tee_cases_of_the_604d158_class', 0) + 1
        if o == 'none':
            # no verdict at all: the stand-in script did not get as far as this case
            res.tie_errors.append('step lane: no return value observed for case %d (%s): %s' % (i, c.get('corpus', 'generated'), err[-200:]))
            continue
        if c.get('late') and which != 'late':
            res.tie_errors.append('step lane: case %d asked for the late tee but step_exec did not run the tee found on PATH '
                                  '(the adversarial schedule was not exercised)' % i)
        if failing and regress:
            res.nontrivial.add(hashlib.sha1(repr(c).encode()).hexdigest())
        if same != 'same':
            # what "after the pipeline" is assumed to mean: the file holds everything the runner printed
            res.disagreements.append({'case': c, 'model': 'the step log equals the output of the runner', 'impl': 'log file %s' % same,
                                      'via': 'log file after step_exec'})
        if ok and o == m:
            continue
        lost = failing and regress and o == str(c['rc'])
        if lost and c.get('late'):
            # the same case with the system's tee: still wrong means the classification is broken, not the schedule
            if run_step(impl, work, [dict(c, late=False)])[0][0][0] != m:
                lost = False
        elif lost:
            # the failure was lost: race with tee, or a broken classification?  Three more runs decide.
            again = [run_step(impl, work, [c])[0][0][0] for _ in range(3)]
            if any(a == m for a in again):
                c = dict(c, flaky=[o] + again)
            else:
                lost = False
        if lost:
            res.oracle_failures.append({'case': c, 'signature': RACE_SIG, 'impl': o,
                                        'what': 'step_exec returned %s for a regress step whose complete log has a FAILED/UNEXPECTED_PASS line after the '
                                                'leading trace block: regress_failed read the log before tee had written it' % o})
            continue
        if o != m:
            res.disagreements.append({'case': c, 'model': m, 'impl': o, 'via': 'step_exec', 'stderr': err})
        if not ok:
            if regress and failing:
                sig, what = 'failed-run-classified-as-passed', ('step_exec returned %s for a regress step whose log has a FAILED/UNEXPECTED_PASS line '
                                                               'after the leading trace block' % o)
            elif o == '0':
                sig, what = 'runner-failure-lost', 'step_exec returned 0 although the runner exited %d' % c['rc']
            else:
                sig, what = 'step-exec-status-wrong', ('step_exec returned %s: the runner exited %d and %s' % (
                    o, c['rc'], 'the log has no failing line' if regress else 'the log does not count in mode %s' % c['mode']))
            res.oracle_failures.append({'case': c, 'signature': sig, 'impl': o, 'what': what})


def step_lane_guards(res):
    """a lane that produced no verdict is not an evaluation (AGENT_WAVE3 item 5)"""
    x = res.extra
    if x.get('step_lane_cases', 0) < 1:
        res.tie_errors.append('step lane: zero cases')
    if x.get('late_tee_cases', 0) < 1 or x.get('late_tee_cases_of_the_604d158_class', 0) < 1:
        res.tie_errors.append('step lane: zero late-tee cases of the class of 604d158 (regress step, runner exits 0, failing line)')
    d = res.distribution
    if not any(k.startswith('lib: trim') for k in d):
        res.tie_errors.append('lib lane: zero trim cases')
    if d.get('lib: trim, trailing run of >= 2 trace lines', 0) < 1 or d.get('lib: trim, trailing trace run and an earlier separate one', 0) < 1:
        res.tie_errors.append('lib lane: no trim case with a trailing trace run of two lines / with two separate trace runs')
    if not any(k.startswith('lib: peek') for k in d) or not any(k.startswith('lib: parse') for k in d):
        res.tie_errors.append('lib lane: zero peek or parse cases')
    # every ordered pair of outcome keywords of different classes on one line under every one of the 15 selections
    # (the disjunction of [selected]: seeded/C13); corpus/C13/b13_pairs.json enumerates them
    want = {((a, b), fl) for a, b in KWPAIRS for fl in range(1, 16)}
    x['keyword_pair_x_selection_combinations'] = '%d of %d' % (len(want & PAIR_COMBOS), len(want))
    if want - PAIR_COMBOS:
        res.tie_errors.append('cmd lane: %d of the %d (keyword pair, selection) combinations were not evaluated, e.g. %r'
                              % (len(want - PAIR_COMBOS), len(want), sorted(want - PAIR_COMBOS)[0]))


def run(ctx, n=None):
    res = common.Result()
    res.rule = ('logs generated from the line kinds the property lists (trace lines, markers and near-miss markers incl. the " =" scan quirk, '
                'outcome keywords and keyword-like substrings, two keywords on a line, NUL bytes, CR / CRLF line ends, empty lines, lines of 1 KiB to 1 MiB, '
                'with/without final newline), 1-3 files, all 15 selections, print/no-print through the command (stderr compared: empty), plus the usage '
                'path (empty selection / no file; outside the property, compared with the pinned usage()); the library entry points '
                'peek/parse(+NEWLINE, pre-filled buffer)/trim in process (trim: trailing trace runs of 1-4 lines, two separate runs); util.sh step_exec '
                'with a stand-in runner in regress and other modes, also with a late tee on generated logs that end in a failing line; '
                'boundary size/shape classes (see "class: ..." in the distribution, decided from the bytes of every evaluated log): lines of 0-65537 bytes '
                'with the keyword at the start / middle / very end, as marker and as trace line; a keyword / marker / trace prefix straddling, ending at or '
                'starting at file offsets 1-64 KiB; 0-257 (1024 stored) blocks, lines per block, consecutive markers, hits, leading / trailing / inner trace '
                'lines, leading / trailing / inner blank lines; 15-257 files; empty / one-byte / only-marker / only-trace logs, CRLF, NUL, keywords in other '
                'case and as part of longer words, split by newline or NUL; every ordered pair of keywords of different classes under all 15 selections; '
                'non-trivial = exit 0 (result > 0, failing regress step) and a marker-like line present; distinct by content hash')
    quick = n is None and ctx.tier != 'thorough'
    n = n or ctx.budget(1500, 60000)
    PAIR_COMBOS.clear()
    cases = load_corpus()
    check_tools(res)
    # ---- the corpus first; within it the cases of known / repaired findings first (load_corpus sorts them so)
    for lane, ev in (('step', evaluate_step), ('lib', evaluate_lib), ('cmd', evaluate)):
        cc = [c for c in cases if c.get('lane', 'cmd') == lane]
        if cc:
            res.count('corpus: %s lane' % lane, len(cc))
            ev(ctx, cc, res)
    res.samples = [c for c in cases if c.get('finding')][:1]
    # ---- cmd
    ccases = huge_cases(ctx.rng, 30 if quick else 300) + [gen_case(ctx.rng) for _ in range(n)]
    res.samples += ccases[2:3]
    res.assumptions = ['bytes 0..255 only; random files up to ~25 lines, boundary classes up to 1025 lines / 1024 blocks / 64 KiB lines / 257 files, plus single lines up to 1 MiB in the correspondence (the extracted model appends by copying: counts above ~1000 per block are not compared; the theorems have no bound)',
                       'step lane: "the shell waits for the last command of the pipeline" is exercised under bash with the system tee and a late one, '
                       'not proved; the log file is compared with the runner\'s output after every step_exec']
    chunk = 20000
    for i in range(0, len(ccases), chunk):
        evaluate(ctx, ccases[i:i + chunk], res)
    if not res.distribution.get(USAGE_OUTSIDE):
        res.tie_errors.append('cmd lane: zero usage-path cases')
    # ---- lib
    lcases = [gen_lib_case(ctx.rng) for _ in range(max(300, n // 3))]
    res.samples.append(lcases[0])
    evaluate_lib(ctx, lcases, res)
    # ---- step
    nlate = 8 if quick else 40
    scases = (LATE_CASES + [gen_late_case(ctx.rng) for _ in range(nlate)] + [gen_late_case(ctx.rng, big=True) for _ in range(1 if quick else 4)]
              + [gen_step_case(ctx.rng) for _ in range(40 if quick else min(600, n // 50))])
    res.samples.append(scases[2])
    evaluate_step(ctx, scases, res)
    step_lane_guards(res)
    res.traces_validated = res.evaluations
    return res


def extended_search(ctx, res, proof):
    return run(ctx, n=20000)


def eval_any(ctx, case, res):
    lane = case.get('lane', 'cmd')
    if lane == 'lib':
        evaluate_lib(ctx, [case], res)
    elif lane == 'step':
        evaluate_step(ctx, [case], res)
    else:
        evaluate(ctx, [case], res)


def replay(ctx, rep):
    case = rep.get('case') or (rep.get('first_disagreements') or [{}])[0].get('case')
    if case is None:
        print(rep)
        return 1
    res = common.Result()
    eval_any(ctx, case, res)
    print('case:', {k: (v if len(str(v)) < 400 else str(v)[:400] + '...') for k, v in case.items()})
    print('disagreements:', res.disagreements)
    print('oracle failures:', res.oracle_failures)
    return 1 if (res.disagreements or res.oracle_failures) else 0


def shrink(ctx, failure):
    """smallest log (by lines) on which the same oracle signature still fails"""
    case = failure['case']
    lane = case.get('lane', 'cmd')
    if lane == 'cmd':
        if len(case['files']) != 1 or case['files'][0] is None:
            return None
        get, put = (lambda: case['files'][0]), (lambda h: dict(case, files=[h]))
    elif lane == 'lib':
        if case['file'] is None:
            return None
        get, put = (lambda: case['file']), (lambda h: dict(case, file=h))
    else:
        if case.get('late'):
            return None
        get, put = (lambda: case['log']), (lambda h: dict(case, log=h))
    lines = bytes.fromhex(get()).split(b'\n')
    if len(lines) > 200 or len(get()) > 200000:
        return None

    def still(ls):
        r = common.Result()
        eval_any(ctx, put(b'\n'.join(ls).hex()), r)
        return any(x.get('signature') == failure.get('signature') for x in r.oracle_failures)
    small = common.ddmin(lines, still, budget=40)
    return put(b'\n'.join(small).hex())
