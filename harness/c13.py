"""C13 - regress log extraction: model/spec vs robsd-regress-log, vs the library entry points in process,
and the callers' classification (util.sh step_exec) vs its model (DESIGN.md 7, C13).

Lanes (case['lane']):
  cmd   robsd-regress-log [-FPSXn] file...            exit + stdout vs model `main`, oracle spec_ok_main
  lib   regress_log_peek / _parse / _trim in process  (harness/rl_harness.c; REGRESS_LOG_NEWLINE and a pre-filled
        output buffer included) vs model `peek` / `parse` / `trim`, oracle spec_ok_peek
  step  the real step_exec of util.sh under bash with a stand-in runner that prints a prepared log and exits with a
        prepared status (tools/regresslog) vs model `step_exec_exit`; 'late': the pipeline's tee starts 0.2 s late
"""
import os, re, subprocess, hashlib
from concurrent.futures import ThreadPoolExecutor
import common
from common import hexs, unhex

TRANSLATORS = ['t_regresslog']
TRUSTED = ['translator t_regresslog.py (regexes on regress-log.c/.h, robsd-regress-log.c, util-regress.sh, util.sh step_exec, '
           'regress-html.c parse_run_log, step-exec.h)',
           'modelled, not verified: read(2) of the log files, strstr/strncmp/strlen/memchr of libc, '
           'stdio printf("%s"); getopt flag parsing is exercised and its option table translated, not modelled',
           'step lane: bash in place of ksh, tools/regresslog/fakeexec in place of robsd-exec, tools/regresslog/latetee/tee '
           '(a tee that starts late) as the adversarial schedule; tee(1) and the pipe are the system\'s']

TOOLS = os.path.join(common.VERIF, 'tools', 'regresslog')
RACE_SIG = 'step-exec-examines-log-before-tee-wrote-it'

KW = [b'FAILED', b'SKIPPED', b'DISABLED', b'EXPECTED_FAIL', b'UNEXPECTED_PASS', b'XFAILED', b'FAIL', b'PASSED',
      b'EXPECTED_FAILURE', b'UNEXPECTED_PASSED', b'NOT_SKIPPED']
MARKERS = [b'==== t1 ====', b'==== a b ====', b'===> sub/dir', b'==== ====', b'====  ====', b'==== x ==== ',
           b'====x ====', b'==== x===', b'=== x ====', b'==== a = b ====', b'==== a =====', b'===>', b'===', b'====',
           b'==== ', b'==== =', b'==== a ==== ====', b' ==== t ====', b'==== t ====\x00junk', b'===\x00>',
           # the " =" scan quirk and its neighbours (RLMarkers.ismarker_regress_spec)
           b'==== a =b ====', b'==== a= b ====', b'==== =a ====', b'==== a=b ====', b'====  = ====', b'==== a  ====',
           # CRLF logs: a test marker followed by CR is no marker, "===>" and keywords still match
           b'==== t1 ====\r', b'===> sub/dir\r', b'==== ====\r']
WORDS = [b'foo', b'bar baz', b'', b'cc -o x x.c', b'ok', b'+ not trace?', b'a\x00FAILED', b'\x00', b'*** Error 1', b'\r',
         b'x FAILED\r', b'\rFAILED', b'+ cd /usr/src\r', b'\r+ late', b'ok\r', b'FAILED\x00\r', b'\x00+']


def gen_line(rng):
    k = rng.random()
    if k < 0.22:
        return b'+ ' + rng.choice(WORDS + KW)
    if k < 0.45:
        return rng.choice(MARKERS)
    if k < 0.52:
        # two outcome keywords of different classes on one line: [selected] is a disjunction,
        # each disjunct must be decided on its own
        a, b = rng.sample([b'SKIPPED', b'DISABLED', b'FAILED', b'EXPECTED_FAIL', b'UNEXPECTED_PASS'], 2)
        return rng.choice([b'', b'2 tests: 1 ']) + a + rng.choice([b', 1 ', b' ', b' earlier, now ']) + b
    if k < 0.70:
        pre = rng.choice([b'', b'test ', b'x', b'\t'])
        post = rng.choice([b'', b' (reason)', b'!', b'\x00 tail'])
        return pre + rng.choice(KW) + post
    if k < 0.75:
        return b''
    return rng.choice(WORDS)


def long_line(rng, n):
    """a line of n bytes: filler, optionally a keyword at the start / in the middle / at the very end, optionally a NUL"""
    fill = rng.choice([b'x', b'=', b' =', b'ab '])
    body = (fill * (n // len(fill) + 1))[:n]
    k = rng.random()
    kw = rng.choice(KW[:5])
    if k < 0.3:
        body = body[:n - len(kw)] + kw
    elif k < 0.5:
        body = kw + body[len(kw):]
    elif k < 0.7:
        body = body[:n // 2] + kw + body[n // 2 + len(kw):]
    if rng.random() < 0.2:
        z = rng.randrange(n)
        body = body[:z] + b'\x00' + body[z + 1:]
    if rng.random() < 0.2:
        body = b'==== ' + body + b' ===='
    return body


def gen_log(rng, long_ok=True):
    n = rng.choice([0, 1, 2, 3, 5, 8, 13, 20])
    lines = [gen_line(rng) for _ in range(n)]
    if rng.random() < 0.5:   # leading trace block
        lines = [b'+ ' + rng.choice(WORDS + KW) for _ in range(rng.randint(1, 3))] + lines
    if long_ok and rng.random() < 0.03:   # line length is unbounded: cross the 1 KiB (peek scratch) and 64 KiB marks
        lines.insert(rng.randint(0, len(lines)), long_line(rng, rng.choice([1023, 1024, 1025, 5000, 70000])))
    sep = b'\r\n' if rng.random() < 0.08 else b'\n'
    data = sep.join(lines)
    if lines and rng.random() < 0.8:
        data += sep
    return data


def gen_case(rng):
    fl = rng.randint(1, 15)
    nfiles = rng.choice([1, 1, 1, 2, 3])
    files = []
    for _ in range(nfiles):
        files.append(None if rng.random() < 0.03 else gen_log(rng))
    return {'flags': fl, 'doprint': rng.random() < 0.75, 'files': [None if f is None else f.hex() for f in files]}


def huge_cases(rng, nlines=30):
    """beyond the initial 1 MiB of the scratch and output buffers of the command (the extracted model appends to
    its scratch block by copying: its cost grows with lines x bytes, hence few long lines in the quick tier)"""
    a = long_line(rng, (1 << 20) + 17)
    b = b'==== big ====\n' + b'\n'.join([b'line %d ' % i + b'.' * ((1200000 // nlines)) for i in range(nlines)]) + b'\nlast FAILED\nafter\n'
    return [{'flags': 15, 'doprint': True, 'files': [(b'+ t\n' + a + b'\nz SKIPPED\n').hex()]},
            {'flags': 1, 'doprint': True, 'files': [b.hex(), b'x FAILED'.hex()]}]


def gen_lib_case(rng):
    op = rng.choice(['peek', 'peek', 'parse', 'parse', 'parse', 'trim'])
    c = {'lane': 'lib', 'op': op, 'flags': rng.randint(1, 15), 'file': None if rng.random() < 0.03 else gen_log(rng).hex()}
    if op == 'parse':
        c['newline'] = rng.random() < 0.5
    if op != 'peek':
        c['prefill'] = rng.choice([b'', b'', b'earlier block\n', b'x', b'\n']).hex()
    if op == 'trim' and c['file'] is not None and rng.random() < 0.6:
        # trailing trace blocks, trace lines in the middle
        body = bytes.fromhex(c['file']) + b''.join(rng.choice([b'+ rm -f x\n', b'done\n', b'+ exit 0\n', b'+ a\n+ b\n'])
                                                 for _ in range(rng.randint(1, 4)))
        if rng.random() < 0.3:
            body = body[:-1]
        c['file'] = body.hex()
    return c


def gen_step_case(rng):
    log = gen_log(rng, long_ok=False)
    if rng.random() < 0.35:   # the runner traced its script, a test failed at the very end
        log = b'+ make regress\n' + log + rng.choice([b'x FAILED\n', b'y UNEXPECTED_PASS\n', b'z FAILED', b'ok\n'])
    return {'lane': 'step', 'mode': rng.choice(['robsd-regress', 'robsd-regress', 'robsd-regress', 'robsd', 'robsd-ports']),
            'rc': rng.choice([0, 0, 0, 1, 2, 124]), 'log': log.hex(), 'late': False}


LATE_CASES = [{'lane': 'step', 'mode': 'robsd-regress', 'rc': 0, 'late': True,
               'log': b'+ make regress\n==== t1 ====\nok\n==== t2 ====\nx FAILED\n'.hex()},
              {'lane': 'step', 'mode': 'robsd-regress', 'rc': 0, 'late': True, 'log': b'y UNEXPECTED_PASS\n'.hex()}]


def run_driver(path, lines, timeout=900):
    """common.run_driver with an unlimited stack: the extracted list functions are not tail recursive and a
    line of 1 MiB overflows the default 8 MiB stack"""
    r = subprocess.run(['bash', '-c', 'ulimit -s unlimited 2>/dev/null || ulimit -s hard; exec "$0"', path],
                       input='\n'.join(lines) + '\n', stdout=subprocess.PIPE, stderr=subprocess.PIPE, text=True, timeout=timeout)
    out = r.stdout.split('\n')
    if out and out[-1] == '':
        out.pop()
    if len(out) != len(lines):
        raise RuntimeError('driver %s: %d answers for %d questions (rc=%s, stderr=%s)' % (path, len(out), len(lines), r.returncode, r.stderr[-500:]))
    return out


def flag_toks(fl):
    # F S X P
    return [str((fl >> i) & 1) for i in range(4)]


def flag_args(fl, doprint):
    s = '-'
    for i, c in enumerate('FSXP'):
        if (fl >> i) & 1:
            s += c
    if not doprint:
        s += 'n'
    return s


def file_toks(case):
    return ['!' if f is None else (f if f else '-') for f in case['files']]


def run_impl(impl, work, idx, case):
    d = os.path.join(work, str(idx))
    os.makedirs(d, exist_ok=True)
    paths = []
    for j, f in enumerate(case['files']):
        p = os.path.join(d, 'log%d' % j)
        if f is not None:
            open(p, 'wb').write(bytes.fromhex(f))
        paths.append(p)
    try:
        r = subprocess.run([os.path.join(impl, 'robsd-regress-log'), flag_args(case['flags'], case['doprint'])] + paths,
                           stdout=subprocess.PIPE, stderr=subprocess.PIPE, timeout=60)
        return (r.returncode, r.stdout, r.stderr)
    except subprocess.TimeoutExpired:
        return (-999, b'', b'timeout')


def load_corpus():
    import json, glob
    cases = []
    for p in sorted(glob.glob(os.path.join(common.VERIF, 'corpus', 'C13', '*.json'))):
        cases.append(json.load(open(p)))
    return cases


def get_impl(ctx):
    if not getattr(ctx, '_c13_impl', None):
        ctx._c13_impl = ctx.build_impl()
    return ctx._c13_impl


def evaluate(ctx, cases, res):
    """cmd lane"""
    impl = get_impl(ctx)
    drv = ctx.build_driver('rl')
    work = ctx.mkscratch('c13work')
    with ThreadPoolExecutor(16) as ex:
        obs = list(ex.map(lambda ic: run_impl(impl, work, ic[0], ic[1]), enumerate(cases)))
    qs = []
    for c, (rc, out, err) in zip(cases, obs):
        base = flag_toks(c['flags']) + ['1' if c['doprint'] else '0']
        ft = [str(len(c['files']))] + file_toks(c)
        qs.append(' '.join(['main'] + base + ft))
        qs.append(' '.join(['ok'] + base + [str(rc if rc >= 0 else 999), hexs(out)] + ft))
    ans = run_driver(drv, qs)
    for i, (c, (rc, out, err)) in enumerate(zip(cases, obs)):
        m = ans[2 * i]
        ok = ans[2 * i + 1]
        res.evaluations += 1
        impl_s = '%d %s' % (rc, hexs(out))
        key = hashlib.sha1(repr(c).encode()).hexdigest()
        res.count('exit=%d' % rc)
        res.count('files=%d' % len(c['files']))
        blobs = [bytes.fromhex(f) for f in c['files'] if f]
        if any(b.count(b'\n') > 1 and b.count(b'\r\n') == b.count(b'\n') for b in blobs):
            res.count('cmd: CRLF log')
        if any(b'\x00' in b for b in blobs):
            res.count('cmd: NUL byte in a log')
        if any(max((len(l) for l in b.split(b'\n')), default=0) >= 1024 for b in blobs):
            res.count('cmd: line of >= 1024 bytes')
        if rc == 0 and any(b'===' in b for b in blobs):
            res.nontrivial.add(key)
        if m != impl_s:
            res.disagreements.append({'case': c, 'model': m[:2000], 'impl': impl_s[:2000]})
        if ok != '1':
            what = 'robsd-regress-log %s: exit %d, output differs from the specified extraction' % (
                flag_args(c['flags'], c['doprint']), rc)
            if rc < 0 or rc > 2:
                what = 'robsd-regress-log terminated abnormally (status %d)' % rc
            res.oracle_failures.append({'case': c, 'signature': 'extract-mismatch', 'what': what,
                                        'impl': impl_s[:2000], 'stderr': err[-300:].decode('latin1')})
        if rc != 0 and out:
            res.oracle_failures.append({'case': c, 'signature': 'output-on-nonzero-exit',
                                        'what': 'exit %d with %d bytes on stdout' % (rc, len(out)), 'impl': impl_s[:2000]})
    return res


def header_bits(impl):
    hdr = open(os.path.join(impl, 'regress-log.h')).read()
    bits = dict(re.findall(r'^#define\s+REGRESS_LOG_([A-Z]+)\s+0x([0-9a-fA-F]+)u', hdr, re.M))
    return {k: int(v, 16) for k, v in bits.items()}


def evaluate_lib(ctx, cases, res):
    """lib lane: peek / parse / trim in process"""
    impl = get_impl(ctx)
    drv = ctx.build_driver('rl')
    work = ctx.mkscratch('c13lib')
    exe = os.path.join(work, 'rl_harness')
    objs = [os.path.join(impl, o) for o in ('regress-log.o', 'buffer.o', 'consistency.o')]
    r = common.sh(['cc', '-I' + impl, os.path.join(common.VERIF, 'harness', 'rl_harness.c')] + objs + ['-o', exe])
    if r.returncode != 0:
        raise common.BuildFailure('rl_harness: ' + r.stdout[-1500:])
    bits = header_bits(impl)
    lines, qs = [], []
    for i, c in enumerate(cases):
        p = os.path.join(work, 'f%d' % i)
        if c['file'] is not None:
            open(p, 'wb').write(bytes.fromhex(c['file']))
        fl = c['flags']
        cfl = sum(bits[n] for j, n in enumerate(['FAILED', 'SKIPPED', 'XFAILED', 'XPASSED']) if (fl >> j) & 1)
        fh = c['file'] if c['file'] else '-'
        if c['op'] == 'peek':
            lines.append('peek %d %s' % (cfl, p))
            qs.append(' '.join(['peek'] + flag_toks(fl) + [fh]))
        elif c['op'] == 'parse':
            nl = bool(c.get('newline'))
            lines.append('parse %d %s %s' % (cfl | (bits['NEWLINE'] if nl else 0), p, c.get('prefill') or '-'))
            qs.append(' '.join(['parse'] + flag_toks(fl) + ['1' if nl else '0', fh, c.get('prefill') or '-']))
        else:
            lines.append('trim %s %s' % (p, c.get('prefill') or '-'))
            qs.append('trim ' + fh)
    p = subprocess.run([exe], input=('\n'.join(lines) + '\n').encode(), stdout=subprocess.PIPE, stderr=subprocess.PIPE, timeout=600)
    outs = p.stdout.decode().split('\n')[:-1]
    if len(outs) != len(cases):
        res.oracle_failures.append({'case': cases[len(outs)] if len(outs) < len(cases) else None, 'signature': 'abnormal-termination',
                                    'what': 'regress-log.c in process: harness died (status %s) at case %d' % (p.returncode, len(outs))})
        return
    ans = run_driver(drv, qs)
    pk = [(i, c) for i, c in enumerate(cases) if c['op'] == 'peek' and c['file'] is not None]
    oks = run_driver(drv, [' '.join(['okpeek'] + flag_toks(c['flags']) + [outs[i].split()[0], c['file'] or '-'])
                                  for i, c in pk]) if pk else []
    okmap = {i: o for (i, _), o in zip(pk, oks)}
    for i, (c, o, m) in enumerate(zip(cases, outs, ans)):
        res.evaluations += 1
        res.count('lib: %s%s' % (c['op'], ' NEWLINE' if c.get('newline') else ''))
        if c['file'] is None:
            want = '-1 ' + (c.get('prefill') or '-') if c['op'] == 'parse' else '-1 -'
            if c['op'] == 'trim':
                want = '-1 ' + (c.get('prefill') or '-')
        elif c['op'] == 'peek':
            want = m + ' -'
        elif c['op'] == 'parse':
            want = m
        else:
            want = '1 ' + m
        if c['file'] and b'===' in bytes.fromhex(c['file']) and not o.startswith('0 ') and not o.startswith('-1'):
            res.nontrivial.add(hashlib.sha1(repr(c).encode()).hexdigest())
        if o != want:
            res.disagreements.append({'case': c, 'model': want[:2000], 'impl': o[:2000], 'via': 'in process'})
        if okmap.get(i, '1') != '1':
            res.oracle_failures.append({'case': c, 'signature': 'peek-mismatch', 'impl': o,
                                        'what': 'regress_log_peek returned %s: not "1 iff a selected line exists after the leading trace block"' % o.split()[0]})


def run_step(impl, work, cases):
    for i, c in enumerate(cases):
        open(os.path.join(work, '%d.log' % i), 'wb').write(bytes.fromhex(c['log']))
        open(os.path.join(work, '%d.rc' % i), 'w').write('%d\n' % c['rc'])
        open(os.path.join(work, '%d.mode' % i), 'w').write(c['mode'] + '\n')
        late = os.path.join(work, '%d.late' % i)
        if c.get('late'):
            open(late, 'w').close()
        elif os.path.exists(late):
            os.unlink(late)
    r = subprocess.run(['bash', os.path.join(TOOLS, 'step_exec_cases.sh'), impl, work, str(len(cases))],
                       stdout=subprocess.PIPE, stderr=subprocess.PIPE, timeout=600)
    got = {}
    for l in r.stdout.decode('latin1').splitlines():
        t = l.split()
        if len(t) == 2 and t[0].isdigit():
            got[int(t[0])] = t[1]
    return [got.get(i, 'none') for i in range(len(cases))], r.stderr[-300:].decode('latin1')


def evaluate_step(ctx, cases, res):
    """step lane: the orchestrator's classification.  The oracle is the Hence clause itself: in regress mode a log
    with a FAILED / UNEXPECTED_PASS line after the leading trace block gives a non-zero status (the model's
    regress_failed is proved equivalent to that, C13_hence_regress_failed)."""
    impl = get_impl(ctx)
    drv = ctx.build_driver('rl')
    work = ctx.mkscratch('c13step')
    qs = []
    for c in cases:
        qs.append('stepexec %d %d %s' % (1 if c['mode'] == 'robsd-regress' else 0, c['rc'], c['log'] or '-'))
        qs.append('stepexec 1 0 %s' % (c['log'] or '-'))
    ans = run_driver(drv, qs)
    obs, err = run_step(impl, work, cases)
    for i, c in enumerate(cases):
        m, failing = ans[2 * i], ans[2 * i + 1] == '1'
        o = obs[i]
        res.evaluations += 1
        res.count('step: mode=%s%s%s' % (c['mode'], ' failing-line' if failing else '', ' late-tee' if c.get('late') else ''))
        if failing and c['mode'] == 'robsd-regress':
            res.nontrivial.add(hashlib.sha1(repr(c).encode()).hexdigest())
        if o == m:
            continue
        lost = failing and c['mode'] == 'robsd-regress' and o == str(c['rc'])
        if lost and c.get('late'):
            # the same case with the system's tee: still wrong means the classification is broken, not the schedule
            if run_step(impl, work, [dict(c, late=False)])[0][0] != m:
                lost = False
        elif lost:
            # the failure was lost: race with tee, or a broken classification?  Three more runs decide.
            again = [run_step(impl, work, [c])[0][0] for _ in range(3)]
            if any(a == m for a in again):
                c = dict(c, flaky=[o] + again)
            else:
                lost = False
        if lost:
            res.oracle_failures.append({'case': c, 'signature': RACE_SIG, 'impl': o,
                                        'what': 'step_exec returned %s for a regress step whose complete log has a FAILED/UNEXPECTED_PASS line after the '
                                                'leading trace block: regress_failed read the log before tee had written it' % o})
            continue
        res.disagreements.append({'case': c, 'model': m, 'impl': o, 'via': 'step_exec', 'stderr': err})
        if c['mode'] == 'robsd-regress' and failing and o == '0':
            res.oracle_failures.append({'case': c, 'signature': 'failed-run-classified-as-passed', 'impl': o,
                                        'what': 'step_exec returned 0 for a regress step whose log has a FAILED/UNEXPECTED_PASS line after the leading trace block'})
        elif o in ('0', 'none') and c['rc'] != 0:
            res.oracle_failures.append({'case': c, 'signature': 'runner-failure-lost', 'impl': o,
                                        'what': 'step_exec returned %s although the runner exited %d' % (o, c['rc'])})


def run(ctx, n=None):
    res = common.Result()
    res.rule = ('logs generated from the line kinds the property lists (trace lines, markers and near-miss markers incl. the " =" scan quirk, '
                'outcome keywords and keyword-like substrings, two keywords on a line, NUL bytes, CR / CRLF line ends, empty lines, lines of 1 KiB to 1 MiB, '
                'with/without final newline), 1-3 files, all 15 selections, print/no-print through the command; the library entry points '
                'peek/parse(+NEWLINE, pre-filled buffer)/trim in process; util.sh step_exec with a stand-in runner in regress and other modes, '
                'also with a late tee; non-trivial = exit 0 (result > 0, failing regress step) and a marker-like line present; distinct by content hash')
    quick = n is None and ctx.tier != 'thorough'
    n = n or ctx.budget(1500, 60000)
    cases = load_corpus()
    ccases = [c for c in cases if c.get('lane', 'cmd') == 'cmd'] + huge_cases(ctx.rng, 30 if quick else 300) + [gen_case(ctx.rng) for _ in range(n)]
    res.samples = ccases[:1]
    res.assumptions = ['bytes 0..255 only; files up to ~25 lines plus single lines up to 1 MiB in the correspondence (the theorems have no bound)']
    chunk = 20000
    for i in range(0, len(ccases), chunk):
        evaluate(ctx, ccases[i:i + chunk], res)
    lcases = [c for c in cases if c.get('lane') == 'lib'] + [gen_lib_case(ctx.rng) for _ in range(max(300, n // 3))]
    res.samples.append(lcases[0])
    evaluate_lib(ctx, lcases, res)
    scases = [c for c in cases if c.get('lane') == 'step'] + LATE_CASES + [gen_step_case(ctx.rng) for _ in range(40 if quick else min(600, n // 50))]
    res.samples.append(scases[0])
    evaluate_step(ctx, scases, res)
    res.traces_validated = res.evaluations
    return res


def extended_search(ctx, res, proof):
    return run(ctx, n=20000)


def eval_any(ctx, case, res):
    lane = case.get('lane', 'cmd')
    if lane == 'lib':
        evaluate_lib(ctx, [case], res)
    elif lane == 'step':
        evaluate_step(ctx, [case], res)
    else:
        evaluate(ctx, [case], res)


def replay(ctx, rep):
    case = rep.get('case') or (rep.get('first_disagreements') or [{}])[0].get('case')
    if case is None:
        print(rep)
        return 1
    res = common.Result()
    eval_any(ctx, case, res)
    print('case:', {k: (v if len(str(v)) < 400 else str(v)[:400] + '...') for k, v in case.items()})
    print('disagreements:', res.disagreements)
    print('oracle failures:', res.oracle_failures)
    return 1 if (res.disagreements or res.oracle_failures) else 0


def shrink(ctx, failure):
    """smallest log (by lines) on which the same oracle signature still fails"""
    case = failure['case']
    lane = case.get('lane', 'cmd')
    if lane == 'cmd':
        if len(case['files']) != 1 or case['files'][0] is None:
            return None
        get, put = (lambda: case['files'][0]), (lambda h: dict(case, files=[h]))
    elif lane == 'lib':
        if case['file'] is None:
            return None
        get, put = (lambda: case['file']), (lambda h: dict(case, file=h))
    else:
        if case.get('late'):
            return None
        get, put = (lambda: case['log']), (lambda h: dict(case, log=h))
    lines = bytes.fromhex(get()).split(b'\n')
    if len(lines) > 200 or len(get()) > 200000:
        return None

    def still(ls):
        r = common.Result()
        eval_any(ctx, put(b'\n'.join(ls).hex()), r)
        return any(x.get('signature') == failure.get('signature') for x in r.oracle_failures)
    small = common.ddmin(lines, still, budget=40)
    return put(b'\n'.join(small).hex())
