"""Source of MANIFEST.json (bin/mkmanifest)."""
HOOK_COMMITS = ['a0e31689d71f0b6a9fcc4b2cc54f64a3d495494e', '40f6828af68cf8e37d02b4b886997a2471b94304', '3325b20b558a4a8c127cbb77bf01e82940ae3896']
NOTES = ('Every check: translators regenerate coq/gen from /repo, Properties_<id>.v is rebuilt with coqc (full .vo) and its '
         'Print Assumptions output audited, the implementation is rebuilt from /repo\'s working tree in a scratch directory, '
         'the extracted model and the extracted specification oracle are run against it. See DESIGN.md.')
PENDING = 'check not built yet in this round (planned, see DESIGN.md section 7); not claimed until its proof and tie exist'
CLAIMS = {
 'C13': {
  'text': 'Coq theorems (closed under the global context) that the model of robsd-regress-log equals a comprehension-style '
          'specification for every selection, every list of files and every byte content: exit 0/1/2 characterised, output = '
          'blocks of log lines in order, every selected line ends a block reaching back to the last marker or previous block, '
          'print/no-print and peek agreement. The model is tied to the binary by byte-exact differential runs on generated logs.',
  'note': 'trusted: Coq kernel, extraction (ExtrOcamlBasic), hex glue, generators; read(2)/strstr/printf of libc are modelled, not verified; '
          'correspondence bounded by generated logs (<= ~25 lines, 1-3 files)',
  'technique': 'Coq proof of model = specification (induction over lines) + extracted-model differential correspondence with robsd-regress-log',
 },

 'C09': {
  'text': 'Coq theorems (closed under the global context): the model of interpolate.c computes exactly the substitution relation '
          '(copy bytes, replace the first well-formed ${n} by the recursively interpolated value, continue), for all templates, environments and '
          'depth limits; malformed/unknown references are errors; every reference cycle of any length is rejected at every depth; the depth limit read '
          'from the source is exact (3 nested variables accepted, 4 rejected); files interpolate line by line all-or-nothing with exit 1 and empty '
          'output on failure. Termination is by construction (structural recursion, no fuel). Tied to the code by the translated limit and by '
          'differential runs through robsd-config -v ... - and an in-process interpolate_str harness (both flag values).',
  'note': 'trusted: Coq kernel, extraction, translator regex for the limit, generators; strchr/arena/buffer/stdio modelled not verified; the lookup callback is '
          'a pure function in this model; correspondence bounded by generated templates (<= ~10 tokens) and environments (<= 7 variables)',
  'technique': 'Coq proof (model <-> inductive substitution relation, cycle and depth theorems) + regenerated constant + extracted-model differential correspondence',
 },

 'C01': {
  'text': 'Coq theorems (closed under the global context) over an executable model of step.c / robsd-step.c (lexer, header and row parser, defaults, '
          'strtonum, the write-time value check, sort, serialisation through the interpolation model, -W and -R): a well-formed file parses back to exactly its rows; '
          'one write is accepted iff the abstract dictionary specification accepts it and then the file is the serialisation of the updated dictionary (ascending ids, '
          'other rows unchanged), otherwise exit 1 with identical bytes; by induction every history of writes from the empty file leaves a file representing the '
          'dictionary of the accepted writes; reading a field at a position returns the dictionary value; for EVERY file content a rejected write changes nothing and exit 0 '
          'implies no flush failure and a newly serialised file; decimal print/parse round-trips for every integer. Field table, bounds, value check and the fclose check are '
          'regenerated from the source on every run.',
  'note': 'Scope: key=value arguments addressing the id column (step=...) are outside the quantifier (hypothesis no_id_key). Trusted/assumed: Coq kernel, extraction, translator regexes, '
          'strtoll syntax re-written in Gallina, stdio buffering and fopen("w") truncation, the file system (flush fault injected with ulimit -f 0), qsort as a stable sort on distinct ids. '
          'Four genuine defects found by this check were repaired (fix: commits bda6bfa, 33c7519). Correspondence bounded by generated histories (<= 12 writes).',
  'technique': 'Coq proof (parse o serialise = id, refinement of an abstract dictionary by induction over histories) + regenerated field table/bounds + extracted-model differential '
               'correspondence with robsd-step on histories incl. an injected flush fault + extracted dictionary oracle on observed histories',
 },
 'C07': {
  'text': 'PARTIAL. Coq theorems (closed under the global context) about a statement-by-statement model of step_exec/step_fork/killwaitpg/'
          'killwaitpg1/sighandler/exitstatus composed with an explicit kernel model, for ALL process trees, timeouts and schedules (runner '
          'steps, SIGTERM/SIGALRM arrivals, members exiting on their own): once a signal arrives while the runner is blocked in waitpid it ends '
          'by exit with the main process reaped, SIGTERM sent to the whole group, SIGKILL only against a TERM-ignoring main (then nobody is left), '
          'no default-disposition member alive, status 124 for the alarm and non-zero otherwise (unless the main process exited 0 by itself first); '
          'the kill phase always terminates (measure); without a signal nothing is killed and the main process\'s code is returned. The statement '
          'for every arrival point after the fork is REFUTED by two windows (theorems with witnesses, reproduced on the real binary, known findings '
          'sigterm-before-handler and signal-before-waitpid); the exact guard under which it holds is proved.',
  'note': 'ASSUMED not verified: the kernel model (kill(-pgid) reaches exactly the live group members, SIGKILL kills, SIGTERM kills default-disposition '
          'members, waitpid reaps only the main process, a handled signal interrupts a blocking waitpid and otherwise only sets gotsig, default SIGTERM '
          'ends the runner, the alarm cannot fire before alarm()); not modelled: delivery latency, PID reuse, members leaving the group or forking during '
          'the kill, uninterruptible members, the waiteof failure path. Observed only: agreement of model and robsd-exec on driven schedules (6/40 trees '
          '<= 10 processes, every sync point x TERM/ALRM/real alarm(1), second signals, self-exits) and 24/400 undriven timings; real races are sampled, '
          'not exhausted. Trusted: Coq kernel, extraction, driver glue, t_kill.py regexes, the ROBSD_VERIF sync-point hook, tools/kl_sched.py (/proc scan) '
          'and tools/proctree.c; exitstatus modelled with glibc W* macros for non-negative statuses.',
  'technique': 'Coq proof (invariants over a small-step runner+kernel transition system, refutation witnesses by vm_compute, guarded partial theorem, oracle '
               'reflection) + regenerated call-order/constant tie + extracted-model correspondence with the real robsd-exec driven through sync points + '
               'extracted spec oracle on /proc observations',
 },
 'C15': {
  'text': 'Coq theorems (closed under the global context) about the model of invocation_read/match_directory/invocation_alloc/invocation_walk + robsd-ls main, '
          'for every directory content (any entries of any d_type with distinct names), root and keep-dir string, lock file content and every function that '
          'behaves like qsort: listed <-> DT_DIR, not hidden, path != keep-dir; each once; strictly descending by byte-wise name order; -B drops exactly the entry '
          'whose printed path equals the first line of .running; the specification has one solution and the oracle accepts exactly it. '
          'Tied to the binary by byte-exact runs of robsd-ls -m <mode> -C <conf> [-B] in all five modes.',
  'note': 'known finding B-lists-lock-target-spelled-differently: -B compares strings, a lock spelled differently (robsd -r + non-canonical robsddir) is not omitted '
          '(C15_B_omits_denoted_directory_refuted; C15_B_omits_exactly_lock_target is the byte-for-byte statement). Assumed, not verified: readdir/d_type from the kernel, '
          'qsort contract, strcmp/snprintf/printf, no PATH_MAX truncation, names without newline for the line oracle; configuration loader exercised not modelled; '
          'DT_UNKNOWN via LD_PRELOAD stand-in; opendir failure modelled but not producible as root; correspondence bounded by generated roots (<= 22 entries)',
  'technique': 'Coq proof (uniqueness of sorted permutations under a strict order, Base/Sort.v) + extracted-model differential correspondence + extracted spec oracle told the lock target by file identity',
 },
 'C16': {
  'text': 'PARTIAL. Coq theorems about the model of robsd-clean + util.sh purge on an abstract tree, for every well-formed tree, lock content, keep/count/keep-attic and qsort, '
          'under the guard lock_consistent (lock absent/unusable and nothing running, or its first line is exactly the path robsd-ls prints for the running invocation): '
          'retention 0 is a no-op; afterwards the root holds exactly the running invocation plus the newest others, min(N, all) in total; nothing of a removed invocation is left; '
          'every entry outside the removed invocations and the attic is unchanged and nothing new appears outside the attic; with the attic enabled old attic paths stay, every victim '
          'reappears at attic/YYYY/MM/DD.X, and every new attic entry is a created parent or the copy of a non-tmp entry that is whitelisted or a directory holding a whitelisted name; '
          'whitelist, +1 compensation and tr characters are regenerated from util.sh and proved equal to the documented ones. Tied to bash robsd-clean -m canvas by whole-tree comparison.',
  'note': 'C16_kept_set_refuted without the guard: known findings clean-lock-spelled-differently (running invocation archived) and clean-stale-lock-keeps-one-less; candidate patch '
          'findings/D15_clean_lock.diff not applied. Partial also because bash and GNU tail/find/cp/rm/tr run behind stand-ins (stat -f %Sm -t, find -delete ignoring ENOTEMPTY, chflags, logname, date); '
          'only canvas mode end to end; modes/owners/timestamps not modelled; names without newline, leading/trailing blanks; the attic clauses of the oracle are checked against the model by execution, not proved',
  'technique': 'Coq proof (fold over victims with outside/gone/attic-provenance lemmas on a flat path-list tree, listing model of C15 reused) + translator util.sh -> Gen_Util.v + differential correspondence + extracted tree oracle with an independent whitelist',
 },
 'C17': {
  'text': 'Coq theorems about the models of build_id (as util.sh has it now: count+1 advanced to the next free suffix), build_init and log_id on what find(1) sees: '
          'the directory name handed out is not the name of any entry of the root, for every tree and for every history of runs and arbitrary removals (C17_build_id_fresh; '
          'it stops compiling when the loop is removed again); build_init takes over an existing directory silently; for every sequence of attempts in a build directory '
          'satisfying log_inv (in particular a fresh one) every log name is fresh, names are pairwise distinct and earlier entries stay (C17_log_id_fresh). '
          'Tied to the real functions of util.sh under bash on generated directory states and to run/clean histories through the real canvas and robsd-clean.',
  'note': 'D10 (count+1 collided after an older same-day invocation was cleaned while a newer one remained) fixed in 70fb0eb, kept as C17_regression_count_plus_one_collides + corpus replays; '
          'the translator recognises either build_id body and raises on anything else. Assumed: bash for ksh, GNU find/wc/tr/printf/echo, date via stand-in, glob PREFIX* modelled as a prefix test '
          '(step names over letters, digits, . _ - /); the oracle is applied to reachable states, other contents (files/links named like invocations, nested matches, newlines, deleted logs) are comparison-only',
  'technique': 'Coq proof (fuel-bounded next-free search with a pigeonhole argument, decimal injectivity from DecimalNat, invariant over attempt sequences) + translator util.sh -> Gen_Util.v (build_id variant, log constants) + differential correspondence + extracted freshness oracles',
 },
 'C19': {
  'text': 'Coq theorems (25, closed under the global context) over an executable model of libks/arena.c (frames, bump pointer, '
          'alignment, ASan poison gap as a parameter, frame doubling, malloc/calloc/realloc fast+slow path/strndup/strdup/sprintf/'
          'cleanup nodes stored in arena memory/scope enter+leave/validate/arena_free) for EVERY API-respecting operation sequence '
          '(LIFO leaves, any sizes < 2^64, any depth, one or two arenas): returned pointers maxalign = pointer aligned; live blocks '
          'inside their frame behind the header and pairwise disjoint; no operation changes a byte of a live block except the '
          'client\'s own write (per step and over whole traces); realloc keeps the common prefix; leaving a scope keeps exactly the '
          'outer scopes\' blocks, never takes the len=0 branch, runs exactly that scope\'s cleanups newest first (permutation '
          'accounting over traces); malloc/calloc/str*/cleanup/growing realloc through a non-innermost scope trap; everything else '
          'within the API never traps or crashes (errx only above 2^63 bytes); uint64 arithmetic of align_address does not wrap; the '
          'extracted oracle never objects to the model\'s own trace. Constants (frame multiplier, maxalign, sizeof frame/cleanup, '
          'POISON_SIZE normal/ASan, pointer size) are regenerated from arena.c on every run.',
  'note': 'proved about the model; tied to the code by exact differential runs (offsets, shapes, cleanups, sampled contents, trap/exit) '
          'of an in-process harness that #includes arena.c and traces arena-buffer.c/arena-vector.c, normal and clang ASan builds, '
          'plus the extracted oracle and shadow copies applied to the implementation (bounded by generated sequences: <= 120 ops, '
          'sizes <= 1 MiB and >= 2^63). Assumed: malloc returns aligned non-aliasing chunks and does not fail, addresses do not wrap, '
          'cleanup functions do not use the arena, compiler sizeof; stats/diagnostics not modelled. Stated exactly, not repaired: '
          'shrinking realloc ignores the scope (inner block shrunk through an outer scope is undetected: C19_outer_shrink_undetected, '
          'findings/C19_outer_shrink.c); non-LIFO leave hands out the frame header; after arena_free only leaves are within the API. '
          'The growing-realloc defect (D11) was repaired (fix: 08bdded).',
  'technique': 'Coq invariant proof over all operation sequences (ghost live-block table, stacking order, scope marks, cleanup chains in a '
               'byte/fragment memory model) + translator for constants + extracted-model and extracted-oracle differential '
               'correspondence with an in-process C harness (normal + ASan)',
 },

 'C02': {
  'text': 'Coq theorems (closed under the global context) about a transition system of any number of processes each performing open, flock, read, '
          '[truncate, write], unlock as separate atomic steps under EVERY schedule: at most one process is between flock and unlock; only the holder changes the file; '
          'whatever a process has read is the complete committed result of the processes granted the lock before it (never a truncated or half-written file); when all '
          'started processes have finished the file equals applying them one at a time in lock order, each exactly once (no lost update); for robsd-step commands '
          '(C01 model) each report equals running the command alone on that prefix; without the lock a two-writer schedule loses an update (witness). '
          'Tied to the code by driving 2-4 real robsd-step processes through sync points in step.c along generated schedules: the observed event trace must be a trace of '
          'the model with the same file content after every event and the same reports, and the final file/reports must equal some serial order (extracted oracle).',
  'note': 'ASSUMED, not verified: flock(2) semantics, atomicity of the operations between sync points, fopen("w") truncating at open, lock release at exit. A crash inside the critical '
          'section is outside the quantifier. One report-order race (waiter reports after_lock before the releasing process reports after_unlock) is normalised by the harness only when '
          'the previous holder was running towards its single remaining operation. Trusted: Coq kernel, extraction, ROBSD_VERIF hook (verif.h + points in step.c), scheduler, /proc wchan.',
  'technique': 'Coq invariant proof over all schedules of a lock-protected read-truncate-write transition system + refutation witness without the lock + hook-driven schedule correspondence with '
               'real processes + extracted serialisability oracle',
 },

 'C03': {
  'text': 'Coq theorems (closed under the global context): step_next equals the literal specification (last recorded non-skipped step if it failed / is in flight / is end, '
          'else the following one, failure when only skipped steps are recorded) for EVERY row list; for every schedule of synchronous steps with arbitrary exit codes, every skip set and '
          'every crash point between two step-file writes - also across repeated crashes and resumes (inductive reachability) - the resume point never lies beyond a step that did not complete '
          'and no successfully completed step other than end lies at or beyond it; every file the sequential orchestrator can leave has the shape the report relies on (C05). '
          'Tied to the code by running the real step_next of util.sh (bash + real robsd-step) on generated step files and by end-to-end canvas runs killed (SIGKILL of the session) before the '
          'first record / while a step runs / right after a completion record and resumed with canvas -r, once or twice.',
  'note': 'PARTIAL in the tie: bash stands in for ksh, robsd-wait/logname/sendmail/chflags are stand-ins, the abstract step file (ascending rows) is what C01 proves robsd-step keeps; a crash INSIDE one '
          'robsd-step -W is outside the quantifier; the loop model covers synchronous steps (parallel ones: C04). Trusted: Coq kernel, extraction, harness. No translator: the shell functions are tied '
          'by correspondence only.',
  'technique': 'Coq proof (invariant "good" preserved by the orchestrator loop, inductive reachability over crash/resume histories, reflection of the boolean oracle) + differential correspondence of step_next and '
               'of killed-and-resumed real canvas invocations + extracted oracle on observed resume points and executed steps',
 },

 'C04': {
  'text': 'PARTIAL. Coq theorems (closed under the global context) about a transition system of the robsd() loop and the jobs it forks, for EVERY configuration (synchronous/parallel steps, '
          'exit codes, skip marks, ncpu) and EVERY schedule of main-loop and job moves: an invariant (remembered jobs <= ncpu, everything running is a remembered job or the foreground step, '
          'terminal states are quiet) from which: never more than ncpu parallel steps at once; a step starts only at the loop head in configuration order and never when skipped; a synchronous '
          'step only when nothing runs (barrier); a parallel step only when no synchronous step runs; after a failing synchronous step nothing starts and the status is non-zero; a failing '
          'parallel step leaves the loop\'s course unchanged; end only if every started synchronous step succeeded. Tied to the code by end-to-end canvas runs with gated probe steps: after every '
          'completion the model (eager schedule) predicts exactly which steps start next; the extracted trace oracle judges the observed starts/ends, exit status and end record.',
  'note': 'ASSUMED: the contract of robsd-wait (stand-in outside OpenBSD), bash for ksh (&, $!, set -e, pipelines), probe commands; only the bookkeeping is proved. The correspondence uses one schedule family '
          '(main loop runs as far as it can between completions) for <= 7 steps, ncpu <= 3; the theorems cover all schedules. Hook: ROBSD_VERIF_NCPU.',
  'technique': 'Coq invariant proof over all schedules of the orchestrator transition system + end-to-end schedule-driven correspondence with the real canvas + extracted trace oracle',
 },
 'C11': {
  'text': 'PARTIAL. Coq theorems on the same transition system extended with the step-file writes of step_exec_job and the hook calls, for every configuration and schedule: every started step '
          'that finished has exactly one record with its real exit status, finished exactly once; when the invocation has ended nothing runs and every record is a completion record, an initial '
          '(skip) record or the end record - none in flight; hook calls are exactly the finished steps with their names and exit statuses, and at the end every started step has finished; the '
          'report/mail/end-hook decision of trap_exit as a function of the outcome; a second invocation while the lock is held by another build directory is refused and changes nothing. '
          'Tied to the code by the same end-to-end canvas runs as C04 (foreground and detached, optional second invocation): records, per-record log files holding the step output, hook log, lock '
          'sampled during and after, report presence and mail count are judged by the extracted accounting oracle.',
  'note': 'ASSUMED/observed only: log file contents, lock file handling and mail transport are shell + userland behaviour seen through stand-ins (sendmail, logname, chflags); robsd-wait contract; bash for ksh. '
          'The lock/second-invocation theorem is about a small separate model of lock_acquire/trap_exit. Resumed invocations: C03.',
  'technique': 'Coq invariant proof (record/hook accounting over all schedules) + end-to-end correspondence with the real canvas + extracted accounting oracle',
 },
 'C20': {
  'text': 'Coq theorems (all closed under the global context). (a) Each of the 15 KS_*_overflow0 fallbacks, regenerated on every run '
          'from libks/arithmetic.c by a clang-AST translator into Gallina with explicit C integer semantics, for ALL operands of its type '
          'never traps, returns 1 exactly when the mathematical result is unrepresentable and stores the exact result otherwise (lia/nia, '
          'no enumeration). (b) The models of vector.c and buffer.c with their real representation (capacity, doubling loop, overflow guards, '
          'two-pass printf reservation, str/release, getline iterator) refine the list / byte-string programs for every operation sequence, '
          'any element size, any allocator granting < 2^50 bytes, any qsort returning a sorted permutation; getline returns exactly the lines. '
          '(c) The model of map.c with its real structure (insertion-order list, bucket chains, expansion with rehash, table freed with the last '
          'element, (el,nx) iterator) refines an insertion-ordered dictionary for ANY hash function on every disciplined sequence; iteration '
          'returns each live entry once in insertion order, also when the entry just returned is removed; elements are never altered or copied.',
  'note': 'proved about models; tied to the code on every run by: translator validation of the 15 fallbacks against three compiled builds '
          '(cc -O0, cc -O2, clang trapping UBSan) on the full boundary grid + aimed operands; in-process differential runs of vector.c, buffer.c, '
          'map.c (results, capacities, table shape, final bucket structure incl. HASH_JEN placement) on seeded sequences crossing several '
          'reallocations / expansions; the extracted specification oracles applied to what the implementation returned. Only observed: the '
          'builtin path (__builtin_*_overflow contract assumed), pointer stability (handles translated from addresses), behaviour under real '
          'allocators. Assumed: LP64, little-endian, CInt.v reading of C11, realloc/calloc/qsort/vsnprintf/memcmp contracts, no allocation failure '
          'below 2^50 bytes; allocation-failure paths of map.c not modelled; map call-site discipline (insert only absent keys, never remove the '
          'element the iterator points to) is a hypothesis, call sites listed by the harness. Correspondence bounded by generated sequences '
          '(<= ~3000 keys, <= 700 ops) - the theorems have no bound. The unsigned-multiply defect (D12) was repaired (fix: 7208c0f).',
  'technique': 'Coq: translator-regenerated leaf functions + symbolic execution/nia; refinement by induction over operation lists with structural '
               'invariants (rehash lemma for bucket expansion); extracted-model differential correspondence and extracted spec oracles against '
               'the rebuilt libks sources',
 },

 'C06': {
  'text': 'Coq theorems (closed under the global context): for every configuration view (variables as config_interpolate_lookup renders them, step list, hook list), trace flag and step name, '
          'robsd-exec hands execvp exactly the configured list of the FIRST step of that name, each element rendered as a whole by the '
          'substitution relation of C09, empty renderings dropped, nothing added or split (argv embeds monotonically into the configured list); '
          'robsd-hook likewise without dropping, and executes nothing when no hook is configured. The exit status mapping exitstatus(), translated '
          'from clang\'s AST with glibc\'s W* macros expanded, is total on all integers and equals: code passed through, 128+signal, 124 on SIGALRM, '
          '0 iff exited 0. Unknown step / uninterpolatable schedule / failing execvp give a non-zero status with a diagnostic and never a crash '
          '(C06_unresolvable_is_error, for find_step as the source has it now; it stops compiling if the NULL check is removed; the shipped code crashed - D5, repaired in 0771f90, '
          'witness kept as C06_unresolvable_is_error_refuted about the unchecked variant).',
  'note': 'Observed, not proved: that the C code behaves like the model (process-level correspondence on generated configurations in all five modes, argv dumped by a probe, '
          'every exit code, every non-stopping signal, regress-timeout; compiled exitstatus() vs its translation on 196k pairs each run). Assumed: '
          'the kernel (fork/execvp/waitpid/signals) as a universally quantified function from argv to "exec failed" or a wait status; glibc\'s wait '
          'status encoding; the configuration parser (C08) producing the view the harness builds beside each file; C09\'s interpolation model. '
          'A stopped step is not exercised. execvp(NULL) when every element renders empty is libc-undefined and only checked as "non-zero + diagnostic".',
  'technique': 'Coq: structural induction over the configured lists against the Subst relation, arithmetic proof of the translated leaf function, variant switch by translator flag; '
               'translator t_exec.py; extracted model + oracle; differential process-level harness with tools/argvprobe.c',
 },

 'C14': {
  'text': 'Coq theorems (21, closed under the global context): for every command line and every qsort that returns a sorted permutation, the model of robsd-regress-html '
          'renders one column per invocation in descending start-time order, one row per suite with failing suites first, the pass rate floor(100*(total-fail)/total), never '
          'dereferences the column pointer outside the invocation vector, and writes exactly the specified output tree (every run link names a file of it). The cell of suite S under '
          'invocation I shows the status derived from that run\'s exit code and log, linking to arch/date/log, iff S ran in I - PROVED ONLY under the guards "start times '
          'pairwise distinct" and "each suite at most once per invocation"; without them it is refuted for every qsort (known finding run-shown-under-wrong-invocation).',
  'note': 'Observed, not proved: that the C code is the model - generated trees (1-3 arches, 0-40 invocations, ties, duplicate suites, invalid inputs), index.html compared as a parsed matrix, '
          'output tree by content, leaf functions on grids, ASan lane; memory safety of the binary itself is a sanitizer observation. Assumed: the file system, qsort contract, '
          'libc string functions, names without HTML metacharacters or "/" in arch and log names, an empty output directory. D8 (float pass rate) and the D9 bound were repaired in /repo (ea4de2c, 4acd4e2); '
          'Html/HtmlTie.v makes C14_rate and C14_no_oob stop compiling on a revert and the corpus replays the witnesses.',
  'technique': 'Coq: executable model of regress-html.c over the C01 step-file and C13 regress-log models, comprehension spec + boolean oracle, uniqueness of strictly sorted permutations for the column walk; '
               'translator t_html.py; process-level correspondence + extracted spec oracle on the parsed matrix; in-process leaf harness; ASan build',
 },

 'C05': {
  'text': 'Coq theorems (closed under the global context) over the model of report.c for every mode, row list and file-system view: status/subject say ok iff no non-skipped row failed, '
          'otherwise the count (regress, canvas) or the failing step (sequential modes); sections are exactly the listed rows in order with name, '
          '(int)exit and log name, failing rows always, skipped rows never; the body is the lines from the tenth-last non-empty line on (cvs logs, '
          'packages.diff, extracted regress blocks of C13, whole log for canvas) - in full for the code as it is now (C05_body_current; D14 repaired in 91740ae); '
          'no report iff the stated read errors; no NUL/CR byte is printed.',
  'note': 'Status theorem under explicit hypotheses (skipped rows carry exit 0; sequential modes: only the last non-skipped row may fail) with refutation '
          'witnesses outside them - that the sequential orchestrator only writes such files is C03_orchestrator_files_are_good. Observed only: model = robsd-report byte for byte on generated build '
          'directories (450 quick / 12k thorough). Assumed: libc printf/qsort/fnmatch, kernel file I/O, lock file names the given directory, config loader.',
  'technique': 'Coq model (two layers: report_struct, render) + independent spec + extracted oracles; translator t_report.py for thresholds, names, '
               'comparison operators, sanitize table and the excerpt variant; process-level byte-exact correspondence in five modes',
 },
 'C12': {
  'text': 'PARTIAL. Proved (Coq, closed under the global context) about the models, for all inputs: the parsers are total functions (structural recursion; the one fuelled loop of the step parser '
          'never runs out of fuel); the input cursor of lexer.c stays inside its buffer for every sequence of getc/ungetc calls (guards read from the source by a translator); every helper model '
          '(robsd-step -R/-W, robsd-regress-log, interpolation through robsd-config -) exits with a documented status and prints nothing on standard output when it rejects. '
          'OBSERVED only: absence of memory errors / undefined behaviour / hangs in the C code - a clang ASan+UBSan build of every helper fed with grammar-derived inputs of all five configuration grammars, '
          'step files, regress logs, templates and report build directories, their byte-level mutations (NUL, quotes, braces, $, 70 kB tokens, huge integers, truncation) and raw bytes, 5 s limit each, '
          'compared with the C01/C13/C09 models on inputs up to 3 kB.',
  'note': 'Memory safety of C cannot be proved with the installed tools (no VST/CompCert); the sanitizer lanes are exploration bounded by the generator (2.5k executions quick, 60k thorough). '
          'The configuration parser is judged here only by the exit-status/diagnostic oracle (C08 compares it with its model). fuzz-config/fuzz-step targets of the repository are not run.',
  'technique': 'Coq proofs of totality/fuel sufficiency, cursor bounds and exit-status/fail-closed facts about the models + translator for the lexer guards + sanitizer-instrumented differential exploration',
 },
 'C18': {
  'text': 'Coq theorems (closed under the global context): total = end row\'s duration else sum over non-skipped non-end rows (regress: last time - first time); HH:MM:SS exact for 0..2^40 with %02d '
          'padding; delta suffix iff |delta| > threshold (60 s total, 0 per step) with the right sign; a Size: line iff the file is visible, not CHANGELOG/numbered '
          'diff, present in this and the previous (greatest other) invocation and changed by >= 1 MiB (1 KiB bsd.rd); size text = correctly rounded tenth, ties to '
          'even, unit by magnitude; util.sh duration_total / regress_duration_total equal steps_total_duration. Thresholds and the comparison operators at them are regenerated from report.c.',
  'note': 'format_size is exact for sizes < 2^53 (double conversion) assuming glibc prints the correctly rounded decimal; sums assumed not to overflow int64 '
          '(C18_total_fits gives the bound). Observed only: Duration:/Size: lines byte for byte, and the shell totals run from the working tree under bash '
          '(bash for ksh) on a sample. Durations outside 0..2^40 (in-flight -1) are compared with the model but not judged.',
  'technique': 'same model/extraction/fixtures as C05; thresholds and comparison operators regenerated so that changing them breaks a proof; byte-exact correspondence + extracted oracles',
 },
 'C08': {
  'text': 'Coq theorems (closed under the global context), for every environment and every table: config_parse accepts a text iff it lexes without complaint into the spelling of a list of entries '
          'that conforms to the table (keywords of the mode only, values of the documented shape, non-repeatable variables met while undefined, users/'
          'directories existing after substitution, globs not failing, time-outs fitting an int in seconds, steps with a command, required variables '
          'defined) - both directions, all productions incl. regress options and canvas steps, with the dictionary defined (C08_accept_iff_conforms*). '
          'The regenerated tables equal the hand-transcribed man-page tables up to row order for robsd/cross/ports/regress; canvas has robsddir in addition '
          '(refuted+partial, known finding). Every rejection exits 1, prints nothing on stdout and leaves a diagnostic naming the file (C08_reject_names_file_holds_now, '
          'for the source as repaired by 78f946e; witness theorem for the previous body kept). Values: first definition wins, default of the matching row otherwise, lists '
          'joined by single spaces, booleans 1/0, time-outs in seconds; for an accepted configuration every plain keyword (all but regress-user, '
          'regress-timeout, robsddir) equals its first defining entry whatever other entries surround it; an entry writes only its own names. rdomain: '
          'k-th reference = 11 + k mod 245 and consecutive references differ, for every k (C08_rdomain_cycle_holds_now, for the source as repaired by c0e596d; '
          'witness 255,11,11,12 for the previous body kept).',
  'note': 'Proved about the Gallina model (Conf/ConfDefs.v) for all tables/environments; instantiated with tables regenerated from conf*.c, conf-token.h, mode.h '
          '(t_conf.py) and, for the oracle, with DocSpec tables. NOT proved: invariance of conformance under reordering of table rows (the statement is about the '
          'regenerated tables; canon(Gen)=Doc is a separate theorem and the oracle runs on Doc tables), value persistence for regress-user/regress-timeout/robsddir, '
          'absence of C-level traps (model flag c_abort). Observed only: model = robsd-config on generated cases (exit, stdout, complete diagnostic sequence). '
          'Assumed: stat/getpwnam/glob/fnmatch(literal*literal)/getenv/sysconf/if_group_addr as environment record, compiler overflow builtins, C locale ctype, '
          '512-byte diagnostic buffer not exceeded; DocSpec is a hand transcription (required = occurs in the page\'s example; crossdir/chroot/ports-dir unchecked strings). '
          'Two genuine defects found by this check were repaired (fix: commits c0e596d, 78f946e); known finding: canvas-accepts-undocumented-robsddir.',
  'technique': 'Coq 8.16: executable model, declarative entry grammar, soundness/completeness by induction on fuel/entries, invariant sections over the interpolation '
               'machinery, table equalities by vm_compute; translator t_conf.py (anchored regexes, two recognised variants for rdomain and for the diagnostic path); extraction + '
               'process-level differential testing with environment queries resolved against the real file system; oracle = reader on documented tables.',
 },
 'C10': {
  'text': 'Coq theorems (closed under the global context): listing lines carry consecutive numbers from the offset; -o k (1<=k<=N) prints exactly the suffix of the full listing starting at step k, k>N is "offset too large"; '
          'interpolation changes neither names, flags nor order; robsd/cross/ports list exactly the static table whose de-duplicated names are the documented steps, end last; '
          'regress lists the documented steps around the configured tests: after mount those of ${regress} that run in parallel (switch on and no no-parallel option on any '
          'entry of that path) in the order written and flagged, then the others in the order written, none parallel when parallel no - stated on the configuration state and, '
          'through C08, on the entries of the accepted text; canvas lists the step entries in the order written with their flags, then end; every listed name is found by '
          'find_step in the same schedule; commands of script steps start with sh; a canvas command may resolve to an empty argv (refuted with witness, known finding).',
  'note': 'Proved about the model (Conf/SchedDefs.v on the C08 model); step tables, argv template, placeholder regenerated by t_conf.py, which also compares the text of '
          'config_robsd_regress_get_steps/is_parallel/config_default_get_steps/the listing loop with the transcribed form (a harmless edit there is reported as a broken tie). '
          'Observed: robsd-step -L at many offsets and robsd-exec on every listed name against stub scripts / the resolved argv. Not modelled: fork/exec/wait (C06/C07). '
          'Known finding: listed-step-empty-command.',
  'technique': 'Coq theorems by induction/computation, entry-level tracking lemmas shared with C08, regenerated step tables, extracted oracle over parsed listings told what the generator configured, differential testing.',
 },
}
NOT_APPLICABLE = {p: PENDING for p in ['C%02d' % i for i in range(1, 21)] if p not in CLAIMS}

# ---------------------------------------------------------------------------------------------------------------
# Strengthening pass (after the review in findings/gap_report_1.md): claims restated to match what is now proved.
def _upd(pid, text=None, note=None, note_add=None, technique_add=None):
    c = CLAIMS[pid]
    if text is not None:
        c['text'] = text
    if note is not None:
        c['note'] = note
    if note_add:
        c['note'] = c['note'].rstrip() + ' ' + note_add
    if technique_add:
        c['technique'] = c['technique'].rstrip() + ' ' + technique_add


_upd('C04',
     text='PARTIAL. Coq theorems (closed) on the transition system of robsd()\'s loop and its jobs, for every configuration, ncpu, skip set, initial step file of that '
          'configuration (fresh or resumed) and EVERY schedule: the property-shaped checker spec_ok_trace/check_trace - the oracle applied to real runs - accepts every '
          'reachable state\'s sequence of starts/ends, and the whole oracle every ended run (guard: no end record in the initial file, end last; witness outside the guard '
          'proved); what acceptance means is proved on the sequence itself (configuration order with nothing skipped over, skipped steps never start, at most once, barrier '
          'before a synchronous step, earlier synchronous steps finished, < ncpu running, nothing after a synchronous failure, exit status / end record / completeness); '
          'enabledness (a parallel step starts whenever the queue is not full, whatever runs; one gone job suffices; a synchronous step iff the barrier is clear); failed mode '
          'iff a started synchronous step finished non-zero; no start after such a finish on the event log; non-interference: parallel exit codes never change which steps '
          'start, when, or what is enabled; state invariant incl. the ncpu bound. Tied to the code by end-to-end canvas runs with gated probe steps and by a line-by-line pin of robsd()/step_exec_job.',
     note_add='The shape of robsd()/step_exec_job in util.sh is pinned line by line by harness/t_orch.py (Gen_Orch.v) and compared with the modelled shape '
              '(C04_loop_is_the_modelled_one); the semantics of the shell constructs stay assumed.',
     technique_add='+ oracle-soundness proof (checker-state/model-state invariants) + source pin translator t_orch.py')
_upd('C11',
     text='PARTIAL. Coq theorems on the same transition system extended with the step-file writes of step_exec_job, the hook calls and ONE lock/invocation model, for every '
          'configuration and schedule: every started step that finished has exactly one record with its real exit status, finished exactly once; at the end nothing runs and no '
          'record is in flight; hook calls are exactly the finished steps with names and exit statuses plus the end hook exactly when end was recorded; skipped steps never run, '
          'keep their skip record and get no hook; the report/mail/end-hook/exit-status decision stated over the RECORDS (exit 0 iff an end record exists; a failing parallel step '
          'alone: exit 0 with a report - proved and replayed on robsd); the accounting oracle spec_ok_account accepts every ended fresh run of the model; lock model (build_init, '
          'lock_acquire, exit trap, lock_release) for the running invocation and all invocations started meanwhile in any interleaving: it gets the lock, the lock names it at every '
          'point and is gone afterwards, every other invocation - for every pair of names incl. prefix-related ones - is refused with status 1 touching nothing but its own directory, '
          'stated for the ownership tests the translator found in util.sh; the two record writes of step_exec_job are the C01 dictionary writes (insert and update case, start time kept).',
     note='Not modelled (observed): log contents (the oracle\'s log bits are set by fiat in the theorem), duration (non-negativity not claimed: the clock may step), mail transport. '
          'ASSUMED: lock_acquire atomic (cat-then-echo window), robsd-wait contract, bash for ksh. Excluded by hypothesis: end in the skip set (observation in '
          'findings/C11_skip_end_observation.md); the accounting-oracle theorem is for fresh invocations (C03 for resume). util.sh trap_exit/lock_*/robsd()/step_exec_job pinned '
          'line by line by t_orch.py; the lock functions additionally run alone against the extracted model.',
     technique_add='+ oracle-soundness proof + combined lock/orchestrator interleaving model + source pin translator + lock unit correspondence')
_upd('C15',
     text='PARTIAL (two readings, each with exact guard + refutation). Coq theorems about the model of invocation_read/match_directory/invocation_alloc/invocation_walk + robsd-ls main, '
          'for every directory content, root, keep-dir, lock content and every qsort-like function: listed <-> d_type DT_DIR, not hidden, path != keep-dir; each once; strictly '
          'descending; -B drops exactly the entry whose printed path equals the first line of .running, and for a given directory that happens iff the lock spells its path as printed '
          '(C15_B_omits_denoted_iff); in terms of the REAL kinds the set clause holds when readdir fills d_type faithfully (C15_exact_set_real) and on a file system answering DT_UNKNOWN '
          'nothing is listed with exit 0 (C15_dt_unknown_lists_nothing); unique solution, oracle accepts exactly it, both exit branches. Byte-exact runs of robsd-ls in all five modes.',
     note='known finding B-lists-lock-target-spelled-differently. Replayed observation outside the quantifier (a property of the file system, not of the root\'s contents): '
          'DT_UNKNOWN lists nothing (findings/C15_dt_unknown.md, candidate patch not applied). Assumed: readdir names distinct, qsort contract, no PATH_MAX truncation, names without newline; '
          'configuration loader exercised, not modelled; correspondence bounded by generated roots (<= 22 entries).')
_upd('C16',
     text=CLAIMS['C16']['text'].replace(' Tied to bash robsd-clean', ' The kept set is characterised for EVERY lock (C16_kept_set_total); outside lock_consistent every lock naming no listed path '
          'keeps the n-1 newest (C16_kept_set_outside_guard); the guard is discharged for the lock a new invocation writes; attic COMPLETENESS: one destination per removed invocation, every '
          'whitelisted non-tmp entry arrives there with its content and nothing else is new, under the guard that destinations are pairwise apart (true for Y-M-D.X names, which build_id '
          'produces; refuted for a-a/a and replayed); the tree oracle spec_ok_clean is PROVED to accept every model result (guards: lock_consistent, date-shaped names, no v/v/tmp entry - '
          'each with a witness); robsd-clean\'s retention/attic tail and util.sh purge are read by the translator. Tied to bash robsd-clean'),
     note=CLAIMS['C16']['note'].replace('; the attic clauses of the oracle are checked against the model by execution, not proved', ''))
_upd('C17',
     text=CLAIMS['C17']['text'].replace(' Tied to the real functions', ' End to end: build_id composed with build_init on a tree with file contents yields the tree plus exactly four fresh entries '
          'in every state reachable by runs and cleaning, and never removes or changes an entry in any tree (C17_new_invocation_fresh / _never_overwrites); log names stay fresh under any '
          'interleaving with entries appearing (not top-level STEM.log.k) and non-log entries disappearing (C17_log_env_fresh); both oracles are proved to accept the models. Tied to the real functions'),
     note_add='NOT claimed (outside the quantifier, stated by theorems and replayed): concurrency - two runs computing build_id before either creates the directory share it and both pass '
              'lock_acquire (C17_concurrent_same_id_not_excluded, findings/C17_concurrent_same_id.md); a deleted log lets log_id reuse an existing name (C17_log_del_refuted, nothing in robsd deletes a log; '
              'candidate patch findings/C17_log_id_after_delete.diff not applied).')
_upd('C14',
     text='Coq theorems (32, closed): for every command line and every sorted-permutation qsort, the model renders one column per invocation by descending start time; one row per suite, equal to '
          'the insertion sort of the suites by (group, failures, name); pass rate floor(100*(total-fail)/total) for all counts, 0 for none. exit 1 iff nothing is named, an invocation is invalid, '
          'or an arch/date path collides. UNGUARDED: every rendered cell is the status and arch/date/log link of SOME run of that suite, never under a newer invocation; no row is longer than the '
          'header; the row is exactly the placement by counting (C14_row_placement). "Cell(S,I) shows a status iff S ran in I" is PROVED under the per-row guard (S once per invocation, and its '
          'invocations have unique start times), and REFUTED for every qsort without it (known finding run-shown-under-wrong-invocation). C14_wrong_invocation_iff says exactly when a run is shown '
          'under another invocation of equal start time. The column pointer is modelled with the source\'s own end pointer and loop test (read by the translator): no read outside the vector, and the '
          'bound is tight. The output tree is the specified one; a run\'s link holds that run\'s extraction provided the path is created with that content only (refuted for two steps sharing a log '
          'name). The executable oracle accepts the model\'s own page except clause 6 (names without "/"), and fully under the per-row guards. C14_historical_* are pins of deleted code, not results.',
     note_add='html.c does not escape names (observation, findings/C14_observations_strengthen.md); <, > and " are not generated. total counts recorded runs, not suites. Only the ri pointer of '
              'render_suite is index-modelled; html.c, the map and the vector are not. The self lane executes the oracle theorem on every case.')
_upd('C19',
     text='PROVED for every well-formed configuration (instantiated for both builds and page sizes 4-64 KiB), unbounded sequences and sizes: every pointer any call returns is maxalign-aligned for '
          'ALL call sequences (no API hypothesis); for every state reachable from arena_alloc by a well-bracketed run (scopes left innermost first - the named guard lifo_okb, which is what the '
          'arena_scope() macro enforces) respecting client_okb (open scope, arena not freed, realloc names a live user block with its true size, client writes inside live user blocks): live blocks '
          'are disjoint, inside their frame behind the header, and keep their bytes over any continuation until their own or an enclosing scope is left or they are reallocated (liveness derived, not '
          'assumed); realloc keeps the common prefix; a leave frees exactly that scope\'s blocks and runs exactly its cleanups, newest first; from arena_alloc to all-scopes-left the cleanups that ran '
          'are a permutation of those registered, and in any run (also ending in trap or exit) none runs more often than registered; every allocation, cleanup or realloc (growing or shrinking, of any '
          'live block) through a non-innermost scope traps, and everything else returns or exits only for more than 2^63 bytes; arena-backed buffers and full vectors issue only growing reallocs '
          'inside the API, trapping exactly through outer scopes; the executable oracle (content checks computed from the states) accepts every run of the model.',
     note='Outside the property, stated as exact observations: leaving a non-innermost scope is not detected (a block of a still-open scope is handed out again; the frame header is handed out; '
          'findings/C19_nonlifo_leave.md - robsd leaves scopes only through the block-structured macro). The outer-scope shrink hole was found here, repaired in /repo 4eb1227, and pinned by '
          'C19_shrink_validated_now, C19_outer_shrink_damage and the corpus case; the earlier growth hole by 08bdded. OBSERVED only: two-arena non-interference (trusted: distinct malloc chunks), '
          'vector_reserve on a non-full vector (names less than the block size; C19_vector_partial_reserve_outside_api), buffer.c and vector.c keeping their size fields in step with what they were '
          'granted (hypotheses buf_ok, vec_ok). Disjointness is vacuous for zero-size blocks. The offset-0 header witness is proved for the 8 build configurations only. Memory safety of arena.c '
          'itself is observed under ASan, not proved.')

_upd('C01',
     text='Coq theorems (closed under the global context) over an executable model of step.c / robsd-step.c (lexer, header and row parser, defaults, strtonum, write-time value check, the id test of '
          'action_write, sort, serialisation through the interpolation model, -W, -R by position and by name, and a file system that accepts only the first k bytes of the rewrite) and an abstract '
          'dictionary. For EVERY history and EVERY argument list (step=... included), column f of id i holds the value of the most recent accepted write to i that mentions f, the documented default when '
          'none does, and there is no row when no write to i was accepted (C01_latest_value). The dictionary specification is adequate: put/find, last key wins, strictly ascending keys, other ids '
          'unchanged. One write is accepted iff the specification accepts it, and then the file is the serialisation of the updated dictionary; otherwise exit 1 with identical bytes. By induction every '
          'history from the empty file leaves a file representing the dictionary of the accepted writes; reading a column at the id\'s position or by the row\'s name prints exactly that latest value. '
          'These hold for every argument list by eq_refl on the switch the translator reads from action_write. A rejected write changes nothing, for every file content and under every file-system fault. '
          'Exit 0 under any fault means the file is header plus the requested rows in ascending order and reads back as exactly them (guard: no $ in stored strings; a hand-made file outside the guard '
          'refutes it). A refusal after k bytes leaves exactly the first k bytes of the new content and exits 1 iff k < length; what the next command then sees is stated. REFUTED for histories that '
          'contain a refused write: earlier rows are lost (witness; KNOWN finding refused-write-damages-file). HISTORICAL RECORD about the command without the id test (repaired in /repo 17c91c8): step=J '
          'with J different from the -i id renumbered the row. Both harness oracles (by position and by name) are proved to accept every run of the model. Decimal print/parse round-trips for every integer. '
          'The field table, bounds, value check, fwrite/fclose result checks, the id test and the serialise-before-truncate order are regenerated from the source on every run.',
     note='Trusted/assumed: Coq kernel, extraction, translator regexes (t_step.py, t_lock.py), strtoll syntax re-written in Gallina, fopen("w") truncating, and the file system modelled as "the first k bytes are '
          'accepted" (RLIMIT_FSIZE = k with SIGXFSZ ignored, tools/c01_fsize.c). ASSUMED about libc: a 4096-byte stdio block, fwrite writes whole blocks itself and fclose the tail; compared with robsd-step at '
          'byte granularity around the block boundaries. qsort order of rows with equal id is not modelled (such rows are compared as a multiset). The read theorems cover single-line ${field} templates. '
          'Repaired through this check: fix: commits bda6bfa, 33c7519, 17c91c8. Known finding: refused-write-damages-file (no small repair that keeps the inode and the flock protocol). Correspondence '
          'bounded by generated histories of <= 12 writes with refusal points k at 0, in the header, in a row, on a row boundary, around 4096/8192, and len-1.',
     technique_add='+ byte-granular refused-write correspondence + source-order pin')
_upd('C02',
     text='Coq theorems (closed) on a transition system of robsd-step processes whose rewrite is split into several write(2) calls (mids, any): mutual exclusion, only the holder writes, whatever a LOCKING '
          'process reads is a committed prefix, quiescent implies serial, and the file content at EVERY reachable state. A reader that does not lock can see empty or partial content (witness), so the property '
          'is about locking readers, as stated. Composition with C01: eff is the C01 history, so any quiescent concurrent run from the empty file equals a serial C01 history in lock order - for every set of '
          'commands and every lock order - and reads return the latest value in that order; final_reports equal the reports of the same commands run serially. spec_ok_serial is proved to accept every model run. '
          'The call order of step.c/robsd-step.c is regenerated (t_lock.py) and proved to be the model\'s program-counter order. Witnesses: no lock, early unlock, refused write under the lock. Tied to the code by '
          'real robsd-step processes driven through sync points along adversarial schedules, an undriven lane under a delay shim, and a call-tracing lane.',
     note_add='Adds the t_lock regexes (helper functions expanded in place, error exits dropped) and the tracing LD_PRELOAD lane to the trusted base. The glibc chunking of the rewrite is assumed and observed, '
              'not proved. Fault x concurrency: witness only.')
_upd('C03',
     text='Coq theorems (closed): step_next equals the literal specification for every row list. For every configuration skeleton (ascending ids, names MAY repeat), every skip set, every crash point between two '
          'step-file writes, repeated crashes and resumes WITH EXIT CODES FREE AT EVERY ATTEMPT, and resumed invocations that rewrite skip records at step 1: the files satisfy the invariant goodk (prefix completed, '
          'live names, coverage, skip records exit 0). The resume point is never beyond an uncompleted step. A resumed run executes nothing below the resume point, no completed step again, the interrupted or failed '
          'step first, and nothing is passed over (C03_resumed_run_executes, C03_resume_reexecutes). step_next and the loop are proved equal to functions assembled from util.sh by translation (t_shell.py). Both '
          'harness oracles are proved (reflection / accept every model run). Boundary for parallel steps as a theorem (C03_parallel_resume_skips_inflight), replayed on the real canvas.',
     note='PARTIAL in the tie (bash for ksh, stand-ins). A crash inside one robsd-step -W is outside the quantifier (C01/C02). The execution theorems are about resumed invocations that add no skip records. '
          'Parallel steps are outside the property ("sequential invocation"): an in-flight parallel step below a completed one is not re-run on resume (boundary theorem, findings/C03_parallel_resume.md, '
          'candidate diff not applied). t_shell.py pins the decisions, not the whole control flow of robsd() (t_orch.py pins that).')
_upd('C05',
     text=CLAIMS['C05']['text'] + ' The two hypotheses of the status theorem are discharged for every file the orchestrator writes (C05_status_orchestrated, C05_written_skip_records_exit0; all modes, parallel '
          'schedules, crash and resume) on the same rows; the excerpt is characterised as a log suffix at a line start with min(10, n) non-empty lines; failing section and status are proved down to the printed bytes; '
          'every harness oracle is proved to accept the model.',
     note_add='Caveat as theorems: when a file of a listed row cannot be read there is no report at all (exit 1, empty output) - C05_report_main_silent, C05_never_hidden_refuted; outside the quantifier for the '
              'orchestrator\'s own logs. The cvs-log case (never written: robsd-ports without cvs-root, first checkout) was a genuine defect, repaired in /repo da850b3 and pinned by '
              'C05_ports_cvs_logs_missing_holds_now. Historical pins are Remarks and not counted.')
_upd('C18',
     text=CLAIMS['C18']['text'].replace('util.sh duration_total / regress_duration_total equal steps_total_duration', 'the shell totals, assembled from util.sh / util-regress.sh by translation '
          '(C18_shell_translated), equal steps_total_duration') + ' The composed Duration:/Size: lines of a produced report are the specified text; in-flight -1 rows never change report existence, status or '
          'sections (C18_inflight_does_not_break); no int64 overflow: every partial sum (C and shell) and the regress difference stay strictly inside int64 for fewer than 2^22 rows, |duration| <= 2^40, '
          '|time| < 2^62 (C18_no_overflow, C18_no_overflow_wall).')
_upd('C13',
     text='Coq theorems (closed under the global context) for every selection, every list of files and every byte content (any line length, NUL, CR): the model of robsd-regress-log equals a comprehension-style '
          'specification; exit 0/1 iff some line after the longest leading prefix of "+" lines contains a keyword of a selected outcome, stated on bytes, and exit 2 iff a file is unreadable; a test marker is '
          '"==== ====" or "==== x ====" without " =" inside " x " (the documented regex is neither sufficient nor necessary); the blocks are the unique solution of a relational specification; for any file list '
          'the printed lines are the blocks of all files in order with one empty separator line between them; the block lines are a subsequence of the log lines, and the selected lines printed are exactly the '
          'selected lines after the trace blocks, with multiplicity and order, each ending its own block; print/no-print and peek agreement, regress_log_trim specified, and the oracles accept exactly the model\'s '
          'runs; the "Hence" clause: an iff for regress_failed, an exact characterisation of step_exec\'s status, and the clause holds for step_exec for every tee schedule in the present source (pin on a translated '
          'switch; the earlier in-pipeline check refuted it - found by this check and fixed in /repo 604d158); the clause is FALSE for robsd-regress-html taken alone (a recorded exit 0 never yields a failure '
          'status) and true composed with step_exec\'s status; keywords, marker strings, scan characters, selection structure, option table, exit codes and the callers\' options and status chain are regenerated '
          'from the source on every run (t_regresslog.py).',
     note='trusted: Coq kernel, extraction (ExtrOcamlBasic), hex glue, generators, translator t_regresslog.py; read(2)/strstr/printf of libc are modelled, not verified; correspondence: generated logs (<= ~25 lines '
          'plus single lines up to 1 MiB), 1-3 files, through the command, the three library entry points in process (NEWLINE and a pre-filled buffer included) and the real util.sh step_exec with a stand-in runner '
          'and a late-scheduled tee; bash stands in for ksh; the property text\'s "solely lines of the log" holds up to the separator lines.')
_upd('C09',
     text=CLAIMS['C09']['text'].replace('output on failure.', 'output on failure. The depth index only limits: the relation is monotone in it, the depth-free relation SubstInf is its union and is functional, and '
          'a template with an interpolation has a least depth d0 (it succeeds at every depth >= d0 and fails with "recursion too deep", and nothing else, below it), while a template without one fails at every '
          'depth. The output never contains NUL. INTERPOLATE_IGNORE_LOOKUP_ERRORS is a relation of its own (an unknown well-formed reference is copied verbatim and scanning continues), and the model is proved '
          'equivalent to it. The characters $ { }, the order of the tests, the IGNORE copy and the two depth sites are matched token for token in the source (t_interpsrc.py).'),
     note_add='t_interpsrc.py (token-level translator) joins the trusted list; the diagnostic text is pinned by it but stderr is not a model output.')
_upd('C08',
     text='Coq theorems (closed). Acceptance: for robsd, robsd-cross, robsd-ports and robsd-regress the implementation\'s reader accepts a text iff the text conforms to the DOCUMENTED grammar (DocSpec.v, '
          'hand-transcribed from the man pages), and then defines the same dictionary (C08_accept_iff_documented; independence of row order proved, C08_row_order_irrelevant); canvas accepts exactly the '
          'documented grammar plus one settable required row robsddir (known finding). The reader is sound and complete for the declarative entry grammar of any table (C08_accept_iff_conforms*). Lexer laws '
          'for integers, comments and strings. Every rejection exits 1, prints nothing on stdout and leaves a diagnostic naming the file (C08_reject_names_file_holds_now, source as repaired by 78f946e). '
          'Values: every settable plain keyword of every mode interpolates to its first defining entry\'s value, except robsddir in canvas (C08_value_of_accepted_all/_covers); per-test options '
          'env/parallel/quiet/root are changed only by their own test and the flags have exactly the documented values; ${kw} yields exactly the rendering when it contains no $; defaults by computation; '
          'rdomain: k-th reference = 11 + k mod 245 for every k, any two of 245 consecutive references differ (source as repaired by c0e596d); an accepted configuration reaches no C-level trap '
          '(C08_accepted_no_abort_holds_now, source as repaired by 35cfab1).',
     note='Proved about the Gallina model (Conf/ConfDefs.v) for all tables/environments; instantiated with tables regenerated from conf*.c, conf-token.h, mode.h (t_conf.py) and with the DocSpec tables. '
          '_refuted theorems for the rdomain wrap, the path-less diagnostic and the builddir re-entry are historical pins (translator switches now true). Not proved: regress-<p>-targets/-env end to end '
          '(a reference materialises the targets default), n successive ${rdomain} in one template. Observed only: model = robsd-config on generated cases (exit, stdout, complete diagnostic sequence). '
          'Assumed: stat/getpwnam/glob/fnmatch(literal*literal)/getenv/sysconf/if_group_addr as environment record, compiler overflow builtins, C locale ctype, 512-byte diagnostic buffer not exceeded; DocSpec '
          'is a hand transcription (required = occurs in the page\'s example; crossdir/chroot/ports-dir unchecked strings). Three genuine defects found by this check were repaired (fix: commits c0e596d, '
          '78f946e, 35cfab1); known finding: canvas-accepts-undocumented-robsddir.')
_upd('C12',
     text='PARTIAL. Proved (Coq, closed) for all inputs about the models: robsd-config never reaches any of the ten assert/trap/unbounded-recursion sites of the configuration reader '
          '(C12_config_no_abort_holds_now; nine dead for every trap_free table, the tenth dead with the re-entry guard of /repo 35cfab1 - found by this proof); robsd-config exits 0 or 1 with a classified '
          'diagnostic and empty stdout on exit 1 (C12_config_exit_and_diag); every outcome of robsd-step -R/-W, robsd-regress-log and interpolation is classified with its cause (C12_step_read_outcome, '
          'C12_step_write_outcome, C12_regress_log_outcome, C12_interpolation_reject_names_line); the parsers are total, the lexer cursor stays inside its buffer for every getc/ungetc sequence (guards read '
          'from the source), fuels are never exhausted. OBSERVED only: absence of memory errors / undefined behaviour / hangs in the C code - a clang ASan+UBSan build of every helper fed with grammar-derived '
          'inputs of all five configuration grammars, step files, regress logs, templates and report build directories, their byte-level mutations and raw bytes, 5 s limit each, compared with the models.',
     note_add='The re-entry lane (configurations whose robsddir expands to ${builddir}) is compared with the model. No stderr in the step/regress models; report/html/ls/hook have no C12 theorem.')
_upd('C06',
     text='Coq theorems (closed): the vector robsd-exec hands to execvp is the element-wise rendering of the first step of that name, for the abstract view (C06_argv_exact) and for every accepted configuration '
          'FILE of the five modes (C06_argv_exact_parsed, through the proved bridge to the C08/C10 parser model; robsd-regress under the guard that the schedule renders without the rdomain counter). Script '
          'steps have the shape sh -eu [-x] script name. The runner exits 0 iff the command exited 0, stated for the whole runner with the exact guard "fork handshake in time and no SIGALRM caught" '
          '(C06_runner_exit_zero_iff); SIGALRM is impossible outside robsd-regress with a positive timeout (invariant over C07\'s transition system); the two exceptions are theorems with witnesses. Non-zero '
          'codes and signals pass through (C06_exit_faithful on the clang-translated exitstatus). Unresolvable is non-zero with a diagnostic (C06_unresolvable_is_error); an empty vector gives a non-zero status '
          'with a diagnostic. robsd-hook\'s three outcomes are characterised. The oracle accepts every model run.',
     note='The kernel (fork/execvp/waitpid/signals) is universally quantified via kernel_ok and null_exec_fails. The fork handshake timeout is modelled (run_fork/HsLate) and driven on the real binary through an '
          'LD_PRELOAD delay shim: a step that cannot be put under supervision within 1 s yields "process group failure" and a non-zero status although its command may exit 0 (consistent with "cannot be started '
          'yields non-zero with a diagnostic"; observation findings/C06_fork_handshake.md; the signal side is C07\'s known finding). "No crash" is relative to three enumerated sites. The python-built view is '
          'compared with the parsed file on every step case. C06_unresolvable_is_error_refuted and C06_shipped_crash_iff are historical pins about the pre-0771f90 body.')
_upd('C10',
     text='Coq theorems (closed): for every accepted configuration that has a schedule the listing is numbered 1..N, N>=1, ending with end; a schedule exists iff every command renders (robsd-regress: if); fixed '
          'steps are the documented lists; regress and canvas entries appear exactly as configured, parallel first, none parallel when the switch is off (stated on the entries of the accepted text through C08); '
          '-o k in decimal yields the suffix for 1..N, "too large" for N+1..INT_MAX, and is refused outside that range; every listed name is resolved by the runner to the FIRST step of that name, by the C10 '
          'runner and, through the proved bridge, by the C06 runner (C10_one_runner, C10_listed_resolvable_one_runner); a listed position resolves to itself under pairwise different names and is unreachable '
          'otherwise (witnesses replayed: regress "umount", duplicate canvas names, a canvas step called end); the listing oracles accept the model; the canvas end step is appended in place (pin on 8c850c1).',
     note='k = N+1 is "offset too large" (the literal reading 1..N+1 of the quantifier includes it as the boundary). Name collisions and names with white space (the line format read back word by word by util.sh) '
          'are observations outside the literal statement: every listed name IS resolvable; findings/C10_name_collisions.md, candidate patch (95 lines, changes what the parser accepts) not applied. rdomain in a '
          'step command is outside the one-runner guard (witness). Known finding: listed-step-empty-command. Step tables, argv template, placeholder regenerated by t_conf.py/t_exec.py and proved to coincide.')
_upd('C07',
     text='PARTIAL. Coq theorems (closed under the global context) about a statement-by-statement model of step_exec/step_fork/waiteof/killwaitpg/killwaitpg1/sighandler/exitstatus, including the fork handshake and its '
          '"process group failure" path, composed with an explicit kernel model, for ALL process trees (as member lists), timeouts and schedules (runner steps, SIGTERM, expiry of the timeout, members exiting, the '
          'child coming up). Once an event reaches the runner blocked in waitpid(-pid) it makes at most 56 further transitions, is never blocked, and whenever it cannot move it has exited with the main process '
          'reaped, SIGTERM sent to the group, SIGKILL only against a TERM-ignoring main (then nobody left), no default-disposition member alive, status 124 for the alarm (exactly 124 if no SIGTERM follows) and '
          'non-zero otherwise unless the main process exited 0 itself; no [terminated] premise. With a positive timeout the alarm is armed whenever the runner waits; without one no SIGALRM ever arrives. Without an '
          'event nothing is killed in any state and the main process\'s code is returned (or 1 after a failed handshake). The statement for every arrival point is REFUTED by three windows, each characterised for '
          'every tree and schedule (sigterm-before-handler, signal-before-waitpid incl. the lost timeout, signal-during-group-failure incl. the never-armed timeout), all reproduced on the real binary (known '
          'findings). The exact guard is proved as an IFF: spec holds at rest iff no event happened or some event found the runner in waitpid(-pid). Survivors are characterised exactly, and the harness oracle '
          'applied to the model accepts exactly under that guard. KillDefs.exitstatus equals C06\'s clang-translated exitstatus for all integers.',
     note_add='Since the strengthening pass: not modelled - a child that dies before closing the pipe; the tree\'s parent/child structure (only the member list has semantics). Observed additionally: handshake lanes '
              '(child held before setsid via the LD_PRELOAD shim tools/kl_hold.c: SIGTERM / timeout expiry / nothing on the failure path, released in time). Candidate patch for the third window '
              '(findings/D18_group_failure.diff) not applied: it would cut a step short without a termination request.')
_upd('C20',
     text='Coq theorems (all closed). (a) The 15 fallbacks, regenerated by a clang-AST translator, never trap and are exact for ALL operands, and have the C types their names promise; the 15 arithmetic.h entry points '
          'are exact for either preprocessor branch (builtin = its documented contract, assumed). (b) vector.c/buffer.c models refine the list / byte-string programs for every sequence and ANY allocator (a failure '
          'at any size changes nothing); at byte level, with the old-size expressions regenerated from the sources and any realloc keeping oldsize bytes, the block decodes to the abstract contents after every '
          'sequence; single buffer_getline calls from any offset return exactly the remaining lines; qsort results are determined by key. (c) map.c model, ANY hash, EVERY sequence, NO call-site discipline: lookups '
          'sound and complete, remove takes exactly one entry, every run is a run of a multi-dictionary (on the distinct-key discipline: of the deterministic dictionary); the iterator under arbitrary interleaving '
          'returns entries at most once in insertion order and is complete for survivors, also while the current entry is removed; with the allocator modelled and for any calloc-failure plan the calls are legal, '
          'account exactly for the owned blocks, and never touch a live element (values do not move). Stated with witnesses replayed on libks (outside the property: duplicate keys, allocation failure): which '
          'duplicate a lookup answers flips at a bucket expansion; a NULL from MAP_INSERT can leave the element linked (expansion alloc failure) or leaked (table alloc failure).',
     note='Proved about models. Tied to the code on every run by: translators (fallbacks, entry-point shape, constants, realloc old-size expressions); three compiled arithmetic builds on the boundary grid (fallback and '
          'entry point vs model); in-process differential runs of vector/buffer through libc and through strict callbacks with refused sizes; map.c with calloc/free interposed (results, shapes, every allocator call, '
          'structure, map_free, leaks), duplicate-key and calloc-failure sequences; extracted oracles (list, bytes, multi-dictionary) plus an independent allocator-discipline replay. Assumed: LP64, little-endian, '
          'CInt.v, the builtin contract, realloc keeps oldsize bytes, qsort/vsnprintf/memcmp. Not modelled: printf n<0 for >= 2^31 bytes, 32-bit counters, use-after-free sequences (skipped). report.c and '
          'robsd-wait.c insert without a preceding find (duplicates possible: no observable consequence in report.c; robsd-wait with a repeated pid argument is not reachable from util.sh) - '
          'findings/C20_map_duplicate_keys.md; allocation-failure observations and candidate patch in findings/C20_map_alloc_failure.md (not applied: outside the quantifier). Repaired through this check: 7208c0f.')

# ---------------------------------------------------------------------------------------------------------------
# Third pass (after findings/gap_report_2.md): specifications state the property's reading, verdicts are never muted,
# known findings are recognised by predicates on the case.
_upd('C15',
     text='PARTIAL. Coq theorems about the model of invocation_read/match_directory/invocation_alloc/invocation_walk + robsd-ls main, for every directory content with pairwise distinct names, root, keep-dir, '
          'lock content and qsort-like function: listed <-> d_type DT_DIR, not hidden, path != keep-dir (C15_exact_set, C15_never_lists_others); each once (C15_nodup), strictly descending in BYTE order '
          '(C15_strictly_descending) - name order, which is not age from the tenth invocation of a day on (DATE.10 < DATE.9; consequences recorded under C16/C17/C18); -B drops exactly the entry whose printed path '
          'equals the first line of .running (C15_B_omits_exactly_lock_target), for a given directory iff the lock spells its path as printed (C15_B_omits_denoted_iff, _partial, _refuted, '
          'C15_B_respelled_still_listed); unique solution and both exit branches (C15_spec_met_and_unique, C15_stdout, C15_stdout_both_branches); the listing is C16\'s notion of invocation '
          '(C15_listing_is_invocations). On a file system answering DT_UNKNOWN nothing is listed, exit 0 (C15_dt_unknown_lists_nothing). Observed: byte-exact runs of robsd-ls in five modes; the oracle judges '
          'every generated root except those served through the DT_UNKNOWN stand-in.',
     note='known finding B-lists-lock-target-spelled-differently (corpus/C15/00). Outside the quantifier by an explicit case predicate (harness/c15.py outside_dt_unknown; counted as "outside:", never via '
          'known_findings): a file system answering DT_UNKNOWN is a property of the file system, not of the root\'s contents; model-vs-implementation comparison still runs on it (findings/C15_dt_unknown.md, '
          'patch not applied). Assumed: readdir names distinct, qsort contract, no PATH_MAX truncation, names without newline; configuration loader exercised, not modelled; roots <= 22 entries in the correspondence.')
_upd('C16',
     text='PARTIAL. The model is robsd_clean_x: robsd-clean + util.sh purge on an abstract tree WITH the failures of mkdir/cp under set -e (the function the driver runs; 0 disagreements with the real script in five '
          'modes, whole-tree comparison, incl. blocked attics and cleanings performed by real canvas runs). For every well-formed tree, lock content, keep/count/keep-attic, qsort: retention 0 is a no-op; in EVERY '
          'case exit 0, nothing new outside the attic, nothing outside the attic and the victims removed or changed (C16_always). Under [completes] (every victim archived; discharged when only directories sit '
          'where attic directories go, C16_completes_when_attic_clear; outside: C16_attic_blocked_refuted, known finding) and [lock_consistent] (discharged for the lock lock_acquire writes, lock_acquire being the '
          'interpretation of the translated util.sh statements): the root holds the running invocation plus the first others IN DESCENDING NAME ORDER, min(N, all) (C16_kept_set_partial); removed exactly, nothing '
          'else touched, attic sound; attic complete with content, one destination per victim, under [apart] (true for what build_id hands out; C16_attic_complete_refuted otherwise); old attic content keeps its '
          'bytes except at victims\' destinations. NEWEST = most recently created holds exactly when the age list descends by name (C16_newest_by_age_partial), which is so in every state reachable by runs and real '
          'cleanings with at most nine invocations a day (C16_newest_are_most_recent; build_id as repaired by 8474b10), and fails from the tenth on (C16_newest_is_name_order_refuted, known finding). Every lock: '
          'C16_kept_set_total, C16_kept_set_outside_guard, C16_kept_set_refuted. Oracles proved to accept the model under the stated guards (the age oracle is the one applied to the implementation). Tables and '
          'script tail regenerated and pinned.',
     note='known findings: clean-lock-spelled-differently, clean-stale-lock-keeps-one-less (patch findings/D15_clean_lock.diff not applied), newest-is-name-order-not-age (corpus/C16/10-13), '
          'clean-attic-path-not-a-directory (corpus/C16/20-22, findings/C16_attic_blocked.md); each recognised by input class AND exact recorded behaviour, anything else is an ordinary violation. fixed: 8474b10 '
          '(D23; corpus/C16/30-31 = real canvas traces judged by age; regression signature reissued-name-sorts-below-existing). Outside by explicit predicate: attic enabled and an invocation directory not named '
          'Y-M-D (outside_names). Partial also because bash and GNU userland run behind stand-ins (stat -f %Sm -t, find -delete ignoring ENOTEMPTY, chflags, logname, date, robsd-clean-snap); symbolic links in '
          'attic paths, modes/owners/timestamps not modelled; names without newline.')
_upd('C17',
     text='Coq theorems about build_id (as util.sh has it: largest suffix in use today + 1, /repo 8474b10; translator recognises three bodies, pin C17_util_sh_build_id), build_init, log_id. Reading (1) "carried by no '
          'entry now": for every tree and every history of runs and arbitrary removals (C17_build_id_fresh, C17_build_id_flat, C17_build_id_named_after_date). Reading (2) "never handed out before, whatever has been '
          'cleaned away": for every sequence of runs and REAL cleanings (robsd_clean_x, any keep/count/keep-attic) on a day with at most nine invocations the k-th run is DATE.k, names strictly increase in listing '
          'order, the latest is kept (C17_never_reissued_partial); beyond nine a day and under removal of the newest by hand it fails (C17_never_reissued_refuted, known finding). Historical: '
          'C17_regression_count_plus_one_collides (D10), C17_regression_next_free_reissues (D23). End to end on trees with contents: C17_new_invocation_fresh, C17_new_invocation_never_overwrites, '
          'C17_fresh_builddir_is_build_init. lock_acquire is the interpretation of the statements read out of util.sh (C17_lock_acquire_is_util_sh); C17_sequential_runs_excluded; NOT claimed: '
          'C17_concurrent_same_id_not_excluded. Logs: C17_log_id_fresh (log_inv, established by C17_log_inv_initial), C17_log_env_fresh, boundary C17_log_del_refuted; oracles sound and complete. Observed: real '
          'util.sh functions under bash on generated states (build_id oracle on every stream), histories of 5-13 operations through the real canvas and robsd-clean judged for no-reissue and one attic directory per '
          'archived invocation.',
     note='fixed: 70fb0eb (D10, corpus 00-01), 8474b10 (D23, corpus 10-12; regression signature build-id-reissues-cleaned-name). known: name-reissued-beyond-nine-a-day (corpus 20). Outside by explicit predicates on '
          'the case (counted "outside:", never via known_findings): a log is deleted / a name STEM.log.k is put there by something else (the quantifier is sequences of attempts; nothing in robsd deletes a log), an '
          'initial build directory violating log_inv; on those cases log-id-failed and log-overwritten are still judged. Assumed: bash for ksh, GNU find/wc/tr/printf/echo, date stand-in, glob PREFIX* as prefix '
          'test, numeric suffixes below 2^63, build_id/build_init/lock_acquire call order pinned as text. Not claimed: two concurrent runs sharing one id (findings/C17_concurrent_same_id.md).')
_upd('C01',
     text=CLAIMS['C01']['text'].replace('none does, and there is no row when no write to i was accepted (C01_latest_value).', 'none does, and there is no row when no write to i was accepted (C01_latest_value: adequacy of the dictionary; '
          'C01_latest_value_read: the same on what robsd-step prints).').replace('One write is accepted iff the specification accepts it,', 'For a well-formed sorted file one write is accepted iff the specification accepts it '
          '(C01_write_refines_dictionary),').replace('Exit 0 under any fault means the file is header plus the requested rows in ascending order and reads back as exactly them (guard: no $ in stored strings; a hand-made file outside the guard '
          'refutes it).', 'After ANY history from the empty file, for every next command and every refusal point, exit 0 only if the arguments were acceptable and the file is header + the updated rows sorted by id, reading back as '
          'exactly them (C01_exit0_after_any_history; for arbitrary files under the guard "no $ in stored strings", C01_exit0_holds_state / _refuted).').replace('A refusal after k bytes leaves exactly the first k bytes of the new content and exits 1 iff k < length; what the next command then sees is stated.',
          'That a refusal after k bytes leaves the first k bytes is the DEFINITION of the fault model (assumed; compared byte for byte); proved: exit 1 iff k < length (C01_partial_write_view) and what the next command sees for an '
          'empty file, a row-boundary cut and an unparsable file (C01_after_refused_write; that every other cut is unparsable is observed).').replace('Both harness oracles (by position and by name) are proved to accept every run of the model.',
          'The harness applies the TWO-SIDED dictionary oracle - an acceptable write must exit 0 and be stored - proved to accept every run of the model (C01_oracle2_accepts_model, C01_oracle_two_sided); the remaining signatures '
          '(exit0-without-new-state, rejected-write-changed-file, rows-not-ascending, failed-write-damaged-file) are python checks (observed).'),
     note_add='The translator switches are matched as whole guarded statements, anything else raises. The known finding is recognised by the case (refusal_class: a fault plan injected into that very write, k below the length, rc 1, '
              'file = new[:k]); lane kill (SIGTERM at the sync points of the real robsd-step -W) is outside the quantifier: counted, compared with the k=0 state. The corpus (one case per fixed/known entry) runs first and its '
              'absence is an error.')
_upd('C02',
     text=CLAIMS['C02']['text'].replace('The call order of step.c/robsd-step.c is regenerated (t_lock.py) and proved to be the model\'s program-counter order.', 'The calls of step.c/robsd-step.c are regenerated (t_lock.py, checking brace depth and the '
          'exact statement of every lock, unlock, truncate, write and close); each is given its file-system meaning (exec_op: assumed) and the calls between two sync points ARE LockDefs.step (C02_source_calls_are_model_steps); every '
          'interleaving of processes executing the generated lists is a run of the model, hence mutually exclusive, prefix-reading and serialisable (C02_source_interleavings_are_model_runs, _are_serialised). What waiters experience '
          'after a refused write is proved on the model extended by one refusal transition (C02_waiter_reads_cut, C02_poisoned_run; not part of the quantifier).'),
     note_add='A process without events is a tie error. Corpus = the seeded schedules. Thorough = 4000 random schedules, no exhaustive two-process enumeration; refinement is at sync-point granularity.')
_upd('C13',
     note_add='Since the third pass: regress_log_trim is pinned and its switches consumed by the model (C13_tie_trim); the report.c caller is bridged to Report/ReportDefs.v (C13_report_exit0_decision, C13_hence_report_composed); '
              'the recorded exit (Orch) is an instantiation (C13_recorded_exit, C13_hence_recorded). The step_exec clause holds now ASSUMING the shell waits for the last command of the pipeline. Exact peek, trim and step '
              'oracles; late-tee cases are generated; the corpus loader raises when empty.')
_upd('C14',
     note_add='Since the third pass: cell failures are attributed per row by the extracted rows_report (signatures cell-wrong-for-guarded-row, cell-not-a-run-of-its-suite); the known finding is matched per row (the row\'s own suite '
              'has equal start times / occurs twice in one invocation). Html/HtmlPage.v matches the real index.html byte for byte, the strict reader Html/HtmlParse.v is extracted, C14_index_roundtrip is proved under an exact '
              'guard (signature index-html-malformed). Names containing markup are outside the property by predicate (html.c escapes nothing: findings/C14_html_no_escaping.md, witness C14_index_roundtrip_refuted). '
              'C14_status_is_C13_html_status bridges to C13. The byte-for-byte comparison is the only tie for html.c and the render_* functions.')
_upd('C19',
     text='PROVED (47 theorems, closed) for every well-formed configuration (both builds, page sizes 4-64 KiB; wf_cfg includes "growth is validated" and "shrinking is validated", pinned to the source by C19_grow_validated_now / '
          'C19_shrink_validated_now), unbounded sequences and sizes, over the states reachable from arena_alloc by a WELL-BRACKETED run (guard lifo_okb = what the arena_scope() macro enforces) respecting client_okb (open scope, arena '
          'not freed, realloc names a live user block with its size or a positive part of it, client writes inside live user blocks): returned pointers and live blocks are maxalign-aligned; live blocks lie inside their frame '
          'behind the header and are pairwise disjoint; no operation changes a byte of a live block except the client\'s own write and the unnamed tail of a block handed to realloc with fewer bytes than it has; a block stays '
          'live and unchanged until its own or an enclosing scope is left or it is reallocated (liveness derived); realloc keeps the common prefix; leaving the innermost scope frees exactly its blocks and runs exactly its '
          'cleanups newest first; cleanups are a permutation of those registered once all scopes are left, none runs more often than registered in any run; every allocation, cleanup or realloc (growing or shrinking) through a '
          'non-innermost scope traps, everything else returns or exits only above 2^63 bytes; arena-backed buffers and ALL arena-backed vectors issue growing reallocs inside the API that trap exactly through outer scopes, with the '
          'calls defined from expressions regenerated from buffer.c/vector.c; uint64 arithmetic does not wrap; the executable oracle accepts every well-bracketed run of the model. REFUTED outside the LIFO guard, inside the '
          'property (KNOWN finding nonlifo-leave-undetected): a leave of a non-innermost scope is not detected; a block of a scope still open is handed out again (C19_nonlifo_leave_overlaps_live_block), the frame header is '
          'handed out (C19_nonlifo_leave_hits_header); the oracle reports it (C19_oracle_flags_nonlifo_leave); from there the model no longer claims to describe arena.c.',
     note='"Aligned for ALL call sequences" holds of the model only (Remark) and is FALSE of arena.c: observed by replay on both builds (corpus/C19/nonlifo_header_written.json). robsd leaves scopes only through the macro, so '
          'the known finding has low severity. Repaired in /repo and pinned by translator switches: growth through an outer scope (08bdded, corpus d11_*) and shrinking an inner block through an outer scope (4eb1227, corpus '
          'outer_shrink_*). OBSERVED only: two-arena non-interference (ASSUMED: distinct malloc chunks), calloc zeroing / strdup bytes (sampled), memory safety of arena.c under ASan. ASSUMED: malloc aligned/non-aliasing/'
          'non-failing, addresses do not wrap, cleanup functions do not use the arena, compiler sizeof (sizeof(struct vector) is read by compile-and-print: 56), vsnprintf. Disjointness is vacuous for zero-size blocks. The header '
          'witness is proved for the 8 build configurations only. Correspondence (bounded): <= 120 ops, sizes <= 1 MiB and >= 2^63, normal and ASan builds.')
_upd('C20',
     text='PROVED (62 theorems, closed). Arithmetic: the 15 fallbacks regenerated from arithmetic.c are exact and never trap, with the C types their names promise; the entry points are exact for either preprocessor branch RELATIVE '
          'TO the builtin\'s documented contract (assumed; compared with three builds). Vector/buffer: for every sequence and ANY allocator the models refine the list / byte-string programs, a failure changes nothing; at BYTE '
          'level with the old sizes and the vprintf reservation regenerated from the sources the block decodes to the abstract contents after every sequence and every answer is computed from the block; getline: single calls and '
          'ANY interleaving with buffer operations answer the first line of the rest, NULL rewinds; sort results are determined by key. Map, ANY hash / power-of-two bucket count / threshold, every sequence: lookups are sound and '
          'complete for the live ELEMENTS, remove takes out exactly the element found, elements never move and allocator calls are legal, iteration is strictly increasing, returns live entries, complete for survivors. THE '
          'SPECIFICATION of the lookup clause is the dictionary over DISTINCT keys (Ks/MapKeySpec.v; C20_map_spec_removed_keys_absent). It is REFUTED for map.c\'s model on every sequence that inserts a present key, removes it once '
          'and looks it up (C20_map_removed_key_still_present_refuted, C20_map_dict_refuted, C20_map_dup_lookup_stable_refuted) - three KNOWN findings with one root (MAP_INSERT never looks for the key) - and PROVED under the exact '
          'guard no_reinsert (C20_map_dict_partial). What map.c does instead is a multi-dictionary (C20_map_refines_multidict), used only to recognise the known finding. The executed oracles accept the executed models.',
     note='Allocation failure is OUTSIDE C20\'s quantifier: under injected failure (explicit predicate on the case) the property oracles judge only the operations before the first failure and the rest is model-vs-libks '
          'correspondence only (findings/C20_map_alloc_failure.md: MAP_INSERT NULL-but-linked and the element leak are observed and counted, not judged). Sequences that remove the entry the C iterator points to are use-after-free '
          'in C: counted outside, not executed. ASSUMED: CInt.v\'s reading of C11 on LP64, the builtin\'s contract, the realloc callback keeps the first old-size bytes, qsort sorts, vsnprintf returns the length it writes, an allocator '
          'never grants 2^62 bytes, little-endian HASH_JEN. Pinned as text: totlen and the guard order of vector_reserve1, buffer_getline_impl\'s memchr/end test/NUL copy. The witnesses of the refuted clauses are located by '
          'computation from the regenerated constants. Call sites: report.c creates duplicates without observable symptom; robsd-wait.c only with a repeated pid argument by hand. Repaired through this check: 7208c0f.')
_upd('C05',
     text='Coq theorems (closed under the global context) about the model of report.c as the working tree has it (cur_sw: the forms the translator found); each is closed by a lemma about the fully repaired source and type-checks only '
          'while C05_source_has_every_repair (cur_sw = fixed_sw by computation) holds. Specification = the property\'s reading: every non-skipped row with a non-zero exit (-1 included) has its section; a log that does not exist is '
          'an empty log; the cvs step shows the cvs logs of its mode. Proved for every mode, row list and file-system view: status/subject ok iff no non-skipped row failed, else count / failing step (hypotheses discharged for '
          'orchestrator-written files); sections = the listed rows in order with name, (int)exit, log name; body = specification (excerpt = log suffix at a line start with min(10, n) non-empty lines); NEVER HIDDEN without a '
          'silent alternative (C05_never_hidden): inside the quantifier a report is produced and holds every failing row\'s section; no report exactly under spec_error, which holds only outside (C05_error_only_outside); down '
          'to the printed bytes. The harness\'s verdict is an oracle on exit status and stdout BYTES proved to accept the model (C05_bytes_oracle_accepts_model). Earlier forms of the source are refuted unconditionally: '
          'C05_missing_log_refuted (D24), C05_regress_cvs_refuted (D25), C05_ports_cvs_logs_missing_refuted (D20), C05_body_refuted (D14).',
     note='Guards, explicit: cvs_guard (robsd-ports, or no cvs log is there-but-unreadable; outside it report.c prints an incomplete cvs section instead of failing: C05_unreadable_cvs_log_not_an_error); the status theorem\'s two '
          'hypotheses, discharged for the sequential and the parallel loop (that robsd/cross/ports schedules hold no parallel step is a C10 table fact, assumed). Outside the quantifier by a predicate on the case '
          '(rp_common.outside_reason): a file that is a directory, a missing lock file, a passing dpb row without packages.diff, a regress row without log name - counted, not judged; the correspondence still compares them. '
          'Observed only: model = robsd-report byte for byte on generated build directories (450 quick / 12k thorough) and on directories written by the real canvas script under bash with stand-ins (completed, failed, killed in '
          'flight, killed between the in-flight record and tee\'s open). Assumed: libc printf/qsort/fnmatch, kernel file I/O, config loader. Pinned as text (sha256): last_lines, report_status, report_steps, report_skip_step, '
          'is_log_empty, report_comment, report_generate, previous_builddir, step_get_log_path, format_file; whole bodies with known variants: report_step_log, canvas_report_step_log, regress_report_step_log. Defects found and '
          'repaired in /repo: 91740ae, da850b3, 9cee41d, 2340721.')
_upd('C18',
     text=CLAIMS['C18']['text'].replace('present in this and the previous (greatest other) invocation', 'present in this and the previous invocation - "previous" is specified by creation order (spec_previous); report.c takes the greatest '
          'other name, which is the previous invocation exactly under name_order_is_age (C18_previous_partial; true for fewer than ten builds a day) and is refuted from the tenth build on (C18_previous_refuted, C18_sizes_refuted; '
          'known finding previous-is-name-order-not-age) -') + ' The harness\'s verdict is an oracle on exit status and stdout bytes proved to accept the model (C18_bytes_oracle_accepts_model).',
     note=CLAIMS['C18']['note'].replace('sums assumed not to overflow int64 (C18_total_fits gives the bound)', 'no int64 overflow is proved, not assumed (C18_no_overflow, C18_no_overflow_wall: fewer than 2^22 rows, |duration| <= 2^40, '
          '|time| < 2^62)') + ' "Previous" is judged by the creation order the harness records; outside by predicate: creation orders build_id cannot produce, a report for an invocation that is not the newest, directories '
          'build_id did not name.')
_upd('C04',
     text='PARTIAL. Coq theorems (closed) on the transition system of robsd()\'s loop and its jobs, every schedule: the checker spec_ok_trace accepts every reachable state\'s starts/ends (C04_checker_accepts_every_run) and every ended '
          'run (_partial/_refuted/_fresh_run). What acceptance means is proved on the sequence itself (C04_accepted_start_obeys_the_rules, ..stops_after_sync_failure, C04_oracle_meaning). Enabledness: C04_parallel_start_enabled, '
          '..after_one_gone, C04_sync_start_enabled_when_barrier_clear. C04_failed_iff_a_sync_step_failed, C04_no_start_after_sync_failure, C04_parallel_exits_do_not_interfere, C04_invariant/C04_ncpu_bound. Every way a fresh '
          'invocation with a non-skipped end step can end is a terminal state (C04_loop_never_runs_out_partial); REFUTED for skip { "end" } (C04_invocation_ends_while_parallel_step_runs_refuted). The skip set of the theorems is '
          'what the step file says; -s on a resume at step >= 2 is ignored (C04_command_line_skip_on_resume_refuted, known finding). A hook that reads stdin: C04_hook_reading_stdin_decided, by cases on the generated constant '
          '(fixed d8ba809). TIE: the statement groups of robsd()\'s loop body and step_exec_job are written down in source order by t_orch.py, and their interpretation is proved to be main_step / job_step and every run of them '
          '(C04_loop_is_the_modelled_one; C04_other_loops_are_not_the_model); the canvas tail and five small functions are pinned as text.',
     note='ASSUMED: the contract of robsd-wait - no line of robsd-wait.c is executed, modelled or translated; the Linux stub is pinned and run. bash stands in for ksh. lock_alive and reboot exits are interpreted as no-ops. Guards: '
          'wf_cfg (includes distinct names), file_of_cfg, skip_agrees, end_last, fresh_ok. Observed only: one eager schedule family, <= 7 steps, ncpu <= 3, steps dying of signals, a settle time of half the observed start-up '
          'latency (40 ms - 0.5 s). Hook: ROBSD_VERIF_NCPU.')
_upd('C11',
     text=CLAIMS['C11']['text'].replace('(insert and update case, start time kept)', '(for a step with no earlier record and for its completion, start time kept)') + ' Since the third pass: C11_no_inflight_unless_killed lets '
          'records of the initial file through (_partial/_refuted say when; known finding inflight-parallel-record-left-after-resume); C11_every_end_is_terminal_partial; skip { "end" }: '
          'C11_skipped_end_gets_the_end_hook_refuted, C11_exit_trap_while_parallel_step_runs_refuted (two known findings); a second invocation is refused for every OTHER directory '
          '(C11_second_invocation_refused_untouched_partial) and NOT refused when it names the running directory (C11_second_invocation_refused_for_every_directory_refuted, known); a refused resume re-mails and re-hooks the '
          'old directory (C11_refused_resume_reports_again, known); duration: C11_duration_nonneg_partial under a monotone clock, _refuted otherwise, observed against the real run time; tie: '
          'C11_exit_trap_and_lock_are_the_modelled_ones (interpretation of the generated statement lists = orun / trap_exit / invoke_end).',
     note='Log contents are set by fiat; mail transport is not modelled; lock_acquire atomicity and a monotone clock are ASSUMED; the accounting oracle theorem is for fresh invocations only. robsd-wait contract, bash for ksh. '
          'util.sh trap_exit/lock_*/robsd()/step_exec_job are parsed into statement lists by t_orch.py whose interpretation is proved to be the model; the lock functions additionally run alone against the extracted model.')
_upd('C03',
     text=CLAIMS['C03']['text'].replace('step_next and the loop are proved equal to functions assembled from util.sh by translation (t_shell.py).', 'step_next\'s row decision and walk, the skip test, the two record writes and the end '
          'record are translated (t_shell.py: C03_step_next_translated, C03_loop_translated); the recursion skeleton of the loop is written by hand in ResumeTie.v, robsd()\'s text is parsed by t_orch.py. A failed resume attempt: '
          'C03_failed_resume_decided / _repaired_forms / C03_failed_resume_removes_the_build_directory (fixed d2af489).'),
     note_add='e2e crash points are three kinds, ncpu 1.')
_upd('C06',
     text='Coq theorems (closed). Argument vector: the vector handed to execvp is the element-wise rendering of the first step of that name, nothing split or added (C06_argv_exact, C06_argv_no_splitting), for accepted FILES of all '
          'five modes (C06_argv_exact_parsed; robsd-regress under the rdomain-free guard); script shape sh -eu [-x] script name when no variable called trace was stored at parse time (C06_script_argv_shape; outside: '
          'C06_trace_flag_shadowed); hook: vector exact, three outcomes characterised. Exit status: the clang-translated exitstatus() decodes every int (C06_exit_faithful). step_exec as a whole: for a non-empty command it is '
          'run_fork; exit 0 requires handshake in time, no SIGALRM and the command exiting 0, and under that guard iff (C06_runner_exit_zero_iff); every non-zero exit has a diagnostic. Exceptions with witnesses: SIGALRM gives '
          '124 (impossible without a positive regress timeout, C06_alarm_only_when_armed); a late handshake gives 1 for a command that exited 0 (C06_exit_zero_iff_refuted_handshake, KNOWN FINDING, replayed), with SIGTERM during '
          'that wait 1 at once. ONE runner: every exit of C07\'s transition system is run_fork\'s exit (C06_one_runner, C06_exitstatus_models_agree for all integers). Errors: unresolvable is exit 1 with diagnostics, no crash '
          '(pin on 0771f90); a command of which nothing is left is refused, exit 1 with "empty step command", nothing forked, for every kernel function (C06_empty_command_is_error, pin on 8e76449). The oracles are the '
          'specification (C06_oracle_reflects_spec) and accept every model run.',
     note='ASSUMED: the kernel enters as the universally quantified kern (vector to "execvp failed" or a wait status; kernel_ok), gotsig and the handshake case; C06_one_runner instantiates them from C07\'s system, whose kernel model '
          'is itself assumed. Not modelled or observed: environment, cwd, fds and umask of the command; stopped steps; allocation failures. KNOWN FINDING handshake-timeout-masks-exit-zero, recognised by the case (setsid delayed '
          'beyond waiteof\'s ms read from the source, command arranged to exit 0) and the exact shape. OUTSIDE the quantifier: a signal sent to the runner (model compared, oracle not applied). The harness view is compared with the '
          'parser model on every step case. Text pins that alarm on harmless edits: whole bodies of find_step, resolve_step_command, config_get_steps, hook_to_argv, config_default_trace, and step_exec around step_fork. '
          'Repaired through this check: 0771f90, 8e76449.')
_upd('C07',
     text='PARTIAL. Coq theorems (closed) about a transition system of step_exec, step_fork, waiteof, killwaitpg and killwaitpg1. Source tie (C07_model_matches_source): its step function is PROVED to be the interpretation of the '
          'transition table t_kill.py derives from step-exec.c on every run (rstep = tstep Gen_KillTable.table); exitstatus, siginstall, sighandler, step_timeout and the constants are pinned as text; exitstatus is also C06\'s clang '
          'translation (C07_exit_mapping). Composed with an explicit kernel model, for ALL process trees (as member lists), timeouts and schedules: after an event that finds the runner in waitpid(-pid) at most 56 further '
          'transitions, then exit with main reaped, SIGTERM sent, SIGKILL only against a TERM-ignoring main, no default-disposition member alive; without an event nothing is cut; no timeout means no alarm. spec is EXACT for the '
          'code (C07_all_arrival_points_partial: iff; C07_survivors_exact; C07_oracle_on_model) but concedes three literal readings, each a named Prop refuted by a replayed witness and tracked as a known finding (survivors after '
          'a normal end; status 0 after a request; 124 follows the last signal, not the cause). Three windows refute the all-arrival-points statement, each for every tree and schedule plus a witness '
          '(sigterm-before-handler, signal-before-waitpid, signal-during-group-failure; known findings, replayed). Repeated SIGTERM (robsd-kill): window 2 heals, windows 1 and 3 are final (C07_resent_sigterm). C06\'s runner is '
          'this system on exits (C06_one_runner).',
     note='ASSUMED: the kernel model (kill(-pgid) reaches exactly the live members; SIGKILL kills; SIGTERM kills default-disposition members; waitpid reaps only main; a handled signal interrupts a blocking waitpid; unhandled SIGTERM '
          'ends the runner; no alarm before alarm()). NOT MODELLED: any signal to the runner other than SIGTERM and SIGALRM (SIGINT, SIGHUP, SIGQUIT kill the runner at every pc, like window 1); SIGKILL or SIGSTOP of the runner; '
          'stopped steps; delivery latency; PID reuse; members leaving the group or forking during the kill; a child dying before it closes the pipe; parent/child structure. OBSERVED: agreement on driven schedules (every sync '
          'point x TERM/ALRM/real alarm; second and third signals; self-exits; handshake lanes) and undriven timings; kills are read from an interposed kill(2) (tools/kl_hold.c), the failure path from /proc/<pid>/syscall - the '
          'runner\'s words decide nothing. Known findings are matched by recorded delivery places AND the exact shape of the window theorem. TRUSTED: t_kill.py\'s derivation of the table skeleton from the matched statements '
          '(it raises on anything the table language cannot express). Hooks: verif.h sync points in step-exec.c.')
_upd('C10',
     text=CLAIMS['C10']['text'].replace('the listing is numbered 1..N, N>=1, ending with end', 'the step list is numbered 1..N, N>=1, ending with end (on the printed LINES this is refuted by a name holding a newline: '
          'C10_listing_lines_refuted, known finding listing-name-with-white-space)').replace('the canvas end step is appended in place (pin on 8c850c1)', 'on stdout -o k yields exactly the suffix for every k in 1..INT_MAX, for N+1 the empty '
          'one (C10_offset_stdout_suffix, C10_offset_past_end); a listed step whose command is empty is refused by the runner, exit 1, nothing forked (C10_listed_empty_command_refused, pin on 8e76449); the canvas end step: '
          'list_cmd_with canvas_end_reserved = list_cmd (pin on 8c850c1 with content; unreserved: the list is lost at 16*2^k steps)'),
     note='A schedule exists iff every command renders in the model\'s rdomain-free environment (robsd-regress: if); accepted configurations WITHOUT a schedule are generated (observed: stepsfail on both sides, nothing on stdout). '
          'k = N+1 is "offset too large" with empty stdout. Known findings listed-step-unreachable and listing-name-with-white-space are matched by predicates on the case (the candidate patch findings/C10_name_collisions.diff '
          'changes what the parser accepts: 95 lines, not applied); a guided parse keeps the listing oracles running for names with white space. rdomain in a step command is outside the one-runner guard (witness). Fixed: '
          '8c850c1 (canvas end step), 8e76449 (empty command). Step tables, argv template, placeholder regenerated by t_conf.py/t_exec.py and proved to coincide.')
_upd('C08',
     text='Coq model of the configuration reader on tables regenerated from conf*.c; for every table and environment acceptance is equivalent to the declarative grammar reading (C08_accept_iff_conforms(_tokens)). "Accepted iff '
          'it conforms to the DOCUMENTED grammar" is REFUTED in every mode (C08_accept_iff_documented_refuted). What holds in all five modes is acceptance iff conformance to the documented rows with the differences of '
          'Conf/DocExceptions.v applied, with the same dictionary (C08_accept_iff_documented_partial), and that list is proved to be exactly the difference between DocSpec (transcribed line by line from the five *.conf.5 pages '
          'and robsd-config.8, page:line per row) and the C tables (C08_doc_exceptions_exact). One witness per class is replayed on robsd-config; six classes are known findings (undocumented variables readable, documented '
          'variables undefined when unset, documented directories not checked, regress-env repeatable, canvas robsddir, canvas step without command); the representation class changes nothing. Rejections exit 1 with empty stdout '
          'and a diagnostic naming the file (source as repaired by 78f946e). Values: plain keywords (C08_value_of_accepted_all), ${regress}, ${regress-env}, ${canvas-dir}, per-test options, rdomain = 11 + k mod 245 for the '
          'k-th call (c0e596d) and through the interpolation with one shared counter. On an accepted text the whole command equals the command on the documented tables with exceptions (C08_value_oracle_reflection). An accepted '
          'configuration reaches no trap flag of the model (35cfab1).',
     note='Observed: model = robsd-config on generated cases; the oracle (reader on the purely documented tables) differs from robsd-config only inside the listed classes. Assumed: the reading rules R1-R6 of DocSpec.v; early '
          'expansion of env {} is a reading; stat/getpwnam/glob/fnmatch/getenv/sysconf/if_group_addr as environment record. Pinned as text: config_parse_keyword, config_validate, the parsers\' return codes. The lexer as a whole '
          'has no specification beyond C08_lexer_laws. Defaults by computation in one environment. Repaired through this check: c0e596d, 78f946e, 35cfab1.')
_upd('C12',
     text='PARTIAL. Proved (Coq, closed) for all inputs about the models: the configuration reader reaches none of its trap flags (C12_config_no_abort_holds_now; the source\'s assert/trap sites are counted by the translator and accounted '
          'for, C12_source_trap_sites_accounted); exit and stdout classification of the command models (robsd-config, robsd-step -R/-W, robsd-regress-log, interpolation), lexer cursor bounds, totality, fuels never exhausted. '
          '"Promptly" read as cost proportional to the input is REFUTED: C12_interp_cost_refuted; the exact bound 4^d*|out| <= |s|*V^d (C12_interp_output_bound, C12_config_interp_output_bound) is attained '
          '(C12_interp_fanout_attains_bound) - known finding interpolation-fanout-not-prompt, replayed. OBSERVED only: memory safety with ASan+UBSan builds of robsd-config, robsd-step, robsd-ls, robsd-hook, robsd-report, '
          'robsd-regress-log and robsd-regress-html, 5 s per execution in every lane, every seed asserted to be accepted by every tool before mutation, acceptance rates recorded per tool and mode.',
     note='Memory safety of C cannot be proved with the installed tools (no VST/CompCert). Mutation is blind, not coverage-guided; fuzz-config/fuzz-step targets of the repository are not run. list, ls, hook, report and html lanes '
          'are judged by the oracle only; inputs above 3000 bytes are not put to the list models; robsd-exec, robsd-stat and robsd-wait are not run here. Unreadable log paths are outside the quantifier. Repaired through this '
          'check: 35cfab1 (builddir re-entry), f0fc0f7 (silent rejection).')
_upd('C09',
     text=CLAIMS['C09']['text'].replace('The characters $ { }, the order of the tests, the IGNORE copy and the two depth sites are matched token for token in the source (t_interpsrc.py).', 'The three characters, the limit and the count of '
          'depth sites are tied (C09_source_characters), the diagnostic texts are tied (C09_source_messages); the order of the tests, the IGNORE copy and the place of the increment/decrement are PINNED AS TEXT by t_interpsrc.py. '
          'Size: 4^d*|out| <= |s|*V^d and the fan-out family attaining it (C09_output_bound, C09_fanout_exact).'),
     note_add='The oracle is the model, proved equal to the substitution relation (C09_model_iff_relation, C09_oracle_accepts_model). Environments hold up to 7 variables, fan-out up to 20 kB of result; only robsd-config -m canvas - '
              'and interpolate_str are run.')

# ---------------------------------------------------------------------------------------------------------------
# Corrections after the third (read-only) audit: wording brought in line with what the theorems state.
def _fix(pid, field, old, new):
    assert old in CLAIMS[pid][field], (pid, field, old[:40])
    CLAIMS[pid][field] = CLAIMS[pid][field].replace(old, new)


_fix('C14', 'text', 'Coq theorems (32, closed)', 'Coq theorems (closed; Properties_C14.v, two of them historical pins)')
_fix('C14', 'text', 'and REFUTED for every qsort without it', 'and REFUTED without it (two witness inputs, each for every qsort)')
_fix('C07', 'text', 'spec is EXACT for the code', 'spec is exact for the MODEL of the code')
_fix('C06', 'text', 'and accept every model run.', 'and accept every model run with the handshake in time (the late-handshake runs are the known finding).')
_fix('C16', 'text', 'NEWEST = most recently created holds exactly when the age list descends by name', 'NEWEST = most recently created holds when the age list descends by name')
_fix('C18', 'text', 'which is the previous invocation exactly under name_order_is_age', 'which is the previous invocation under name_order_is_age')
_fix('C05', 'text', 'C05_ports_cvs_logs_missing_refuted (D20)', 'C05_ports_cvs_logs_missing_refuted (da850b3)')
_fix('C15', 'text', 'C15_B_omits_denoted_iff, _partial, _refuted,', 'C15_B_omits_denoted_iff, C15_B_omits_denoted_partial, C15_B_omits_denoted_directory_refuted,')
_fix('C09', 'text', 'and the fan-out family attaining it (C09_output_bound, C09_fanout_exact)', 'and the fan-out family (C09_output_bound, C09_fanout_exact; that the family attains the bound is C12_interp_fanout_attains_bound)')
_fix('C11', 'text', 'PARTIAL. Coq theorems on the same transition system', 'PARTIAL. Coq theorems (guards: wf_cfg - distinct step names, end last -, file_of_cfg, and fresh_ok for the accounting oracle) on the same transition system')
_fix('C11', 'text', 'at the end nothing runs and no '
     'record is in flight;', 'at the end nothing runs and no record of THIS invocation\'s steps is in flight (records of the initial file may be: C11_no_inflight_unless_killed_partial / _refuted);')
_fix('C11', 'note', 'are parsed into statement lists by t_orch.py whose interpretation is proved to be the model', 'are parsed into statement lists by t_orch.py; the interpretation of the loop, step_exec_job and trap_exit lists is '
     'proved to be the model, the ownership tests of lock_acquire / lock_release are pinned (which comparison they use) and run alone against the extracted lock model')
_fix('C20', 'text', 'sort results are determined by key.', 'sort results are determined by key when keys are distinct.')
_fix('C01', 'text', 'or by the row\'s name prints exactly that latest value', 'or by the row\'s name (the FIRST row of that name in id order) prints exactly that latest value')
_fix('C12', 'note', 'Mutation is blind, not coverage-guided; fuzz-config/fuzz-step targets of the repository are not run.',
     'Two kinds of search: the lanes step/regress/config/interp/report/html mutate grammar-derived seeds blindly at byte level and run the helpers themselves; the lane fuzz is coverage-guided: libFuzzer (clang 14, '
     '-fsanitize=fuzzer,address,undefined) in process on a scratch copy, on the repository\'s own fuzz-config (all five modes) and fuzz-step targets built by the repository\'s `make fuzz` rule, and on five targets of this '
     'framework (harness/c12_fuzz_{conf,stepread,interp,regresslog,report}.c: interpolation, the regress log functions, robsd-step -R, what robsd-config/-step -L/-hook/-ls do behind config_parse, the report generator). '
     'Seeds are the grammar-derived inputs plus the stored corpus; dictionaries are generated from the sources; -timeout=5 is the "promptly" proxy; the seed derives from VERIF_SEED. Quick: 10 s per target (about 0.6 M '
     'executions), thorough: 120 s per target on 2-3 processes (about 13 M executions); executions, edge coverage and corpus size per target are in the evidence. An artefact is an oracle failure (signature '
     'fuzz-<target>-<class>-<function>) whose bytes replay. Limits: bounded by the time budget; coverage gives no signal for arithmetic conditions, so the int64-edge inputs of the report generator (two known findings: '
     'signed overflow in steps_total_duration and format_duration_and_delta) are stored corpus cases; robsd-regress-html and robsd-ls behind its directory scan have no coverage-guided target; in this lane glob(3) '
     'patterns with wildcards in more than one path component are answered "no match" and the temporary file of KS_tmpfd is a memory file; LeakSanitizer results are recorded as observations (two small leaks in '
     'config_parse_canvas_step / config_get_steps: findings/C12_fuzz_canvas_step_command_leak.md), not failures.')
