"""Source of MANIFEST.json (bin/mkmanifest)."""
HOOK_COMMITS = ['3325b20b558a4a8c127cbb77bf01e82940ae3896']
NOTES = ('Every check: translators regenerate coq/gen from /repo, Properties_<id>.v is rebuilt with coqc (full .vo) and its '
         'Print Assumptions output audited, the implementation is rebuilt from /repo\'s working tree in a scratch directory, '
         'the extracted model and the extracted specification oracle are run against it. See DESIGN.md.')
PENDING = 'check not built yet in this round (planned, see DESIGN.md section 7); not claimed until its proof and tie exist'
CLAIMS = {
 'C13': {
  'text': 'Coq theorems (closed under the global context) that the model of robsd-regress-log equals a comprehension-style '
          'specification for every selection, every list of files and every byte content: exit 0/1/2 characterised, output = '
          'blocks of log lines in order, every selected line ends a block reaching back to the last marker or previous block, '
          'print/no-print and peek agreement. The model is tied to the binary by byte-exact differential runs on generated logs.',
  'note': 'trusted: Coq kernel, extraction (ExtrOcamlBasic), hex glue, generators; read(2)/strstr/printf of libc are modelled, not verified; '
          'correspondence bounded by generated logs (<= ~25 lines, 1-3 files)',
  'technique': 'Coq proof of model = specification (induction over lines) + extracted-model differential correspondence with robsd-regress-log',
 },

 'C09': {
  'text': 'Coq theorems (closed under the global context): the model of interpolate.c computes exactly the substitution relation '
          '(copy bytes, replace the first well-formed ${n} by the recursively interpolated value, continue), for all templates, environments and '
          'depth limits; malformed/unknown references are errors; every reference cycle of any length is rejected at every depth; the depth limit read '
          'from the source is exact (3 nested variables accepted, 4 rejected); files interpolate line by line all-or-nothing with exit 1 and empty '
          'output on failure. Termination is by construction (structural recursion, no fuel). Tied to the code by the translated limit and by '
          'differential runs through robsd-config -v ... - and an in-process interpolate_str harness (both flag values).',
  'note': 'trusted: Coq kernel, extraction, translator regex for the limit, generators; strchr/arena/buffer/stdio modelled not verified; the lookup callback is '
          'a pure function in this model; correspondence bounded by generated templates (<= ~10 tokens) and environments (<= 7 variables)',
  'technique': 'Coq proof (model <-> inductive substitution relation, cycle and depth theorems) + regenerated constant + extracted-model differential correspondence',
 },
}
NOT_APPLICABLE = {p: PENDING for p in ['C%02d' % i for i in range(1, 21)] if p not in CLAIMS}
