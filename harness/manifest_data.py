"""Source of MANIFEST.json (bin/mkmanifest)."""
HOOK_COMMITS = ['a0e31689d71f0b6a9fcc4b2cc54f64a3d495494e', '40f6828af68cf8e37d02b4b886997a2471b94304', '3325b20b558a4a8c127cbb77bf01e82940ae3896']
NOTES = ('Every check: translators regenerate coq/gen from /repo, Properties_<id>.v is rebuilt with coqc (full .vo) and its '
         'Print Assumptions output audited, the implementation is rebuilt from /repo\'s working tree in a scratch directory, '
         'the extracted model and the extracted specification oracle are run against it. See DESIGN.md.')
PENDING = 'check not built yet in this round (planned, see DESIGN.md section 7); not claimed until its proof and tie exist'
CLAIMS = {
 'C13': {
  'text': 'Coq theorems (closed under the global context) that the model of robsd-regress-log equals a comprehension-style '
          'specification for every selection, every list of files and every byte content: exit 0/1/2 characterised, output = '
          'blocks of log lines in order, every selected line ends a block reaching back to the last marker or previous block, '
          'print/no-print and peek agreement. The model is tied to the binary by byte-exact differential runs on generated logs.',
  'note': 'trusted: Coq kernel, extraction (ExtrOcamlBasic), hex glue, generators; read(2)/strstr/printf of libc are modelled, not verified; '
          'correspondence bounded by generated logs (<= ~25 lines, 1-3 files)',
  'technique': 'Coq proof of model = specification (induction over lines) + extracted-model differential correspondence with robsd-regress-log',
 },

 'C09': {
  'text': 'Coq theorems (closed under the global context): the model of interpolate.c computes exactly the substitution relation '
          '(copy bytes, replace the first well-formed ${n} by the recursively interpolated value, continue), for all templates, environments and '
          'depth limits; malformed/unknown references are errors; every reference cycle of any length is rejected at every depth; the depth limit read '
          'from the source is exact (3 nested variables accepted, 4 rejected); files interpolate line by line all-or-nothing with exit 1 and empty '
          'output on failure. Termination is by construction (structural recursion, no fuel). Tied to the code by the translated limit and by '
          'differential runs through robsd-config -v ... - and an in-process interpolate_str harness (both flag values).',
  'note': 'trusted: Coq kernel, extraction, translator regex for the limit, generators; strchr/arena/buffer/stdio modelled not verified; the lookup callback is '
          'a pure function in this model; correspondence bounded by generated templates (<= ~10 tokens) and environments (<= 7 variables)',
  'technique': 'Coq proof (model <-> inductive substitution relation, cycle and depth theorems) + regenerated constant + extracted-model differential correspondence',
 },

 'C01': {
  'text': 'Coq theorems (closed under the global context) over an executable model of step.c / robsd-step.c (lexer, header and row parser, defaults, '
          'strtonum, the write-time value check, sort, serialisation through the interpolation model, -W and -R): a well-formed file parses back to exactly its rows; '
          'one write is accepted iff the abstract dictionary specification accepts it and then the file is the serialisation of the updated dictionary (ascending ids, '
          'other rows unchanged), otherwise exit 1 with identical bytes; by induction every history of writes from the empty file leaves a file representing the '
          'dictionary of the accepted writes; reading a field at a position returns the dictionary value; for EVERY file content a rejected write changes nothing and exit 0 '
          'implies no flush failure and a newly serialised file; decimal print/parse round-trips for every integer. Field table, bounds, value check and the fclose check are '
          'regenerated from the source on every run.',
  'note': 'Scope: key=value arguments addressing the id column (step=...) are outside the quantifier (hypothesis no_id_key). Trusted/assumed: Coq kernel, extraction, translator regexes, '
          'strtoll syntax re-written in Gallina, stdio buffering and fopen("w") truncation, the file system (flush fault injected with ulimit -f 0), qsort as a stable sort on distinct ids. '
          'Four genuine defects found by this check were repaired (fix: commits bda6bfa, 33c7519). Correspondence bounded by generated histories (<= 12 writes).',
  'technique': 'Coq proof (parse o serialise = id, refinement of an abstract dictionary by induction over histories) + regenerated field table/bounds + extracted-model differential '
               'correspondence with robsd-step on histories incl. an injected flush fault + extracted dictionary oracle on observed histories',
 },
 'C07': {
  'text': 'PARTIAL. Coq theorems (closed under the global context) about a statement-by-statement model of step_exec/step_fork/killwaitpg/'
          'killwaitpg1/sighandler/exitstatus composed with an explicit kernel model, for ALL process trees, timeouts and schedules (runner '
          'steps, SIGTERM/SIGALRM arrivals, members exiting on their own): once a signal arrives while the runner is blocked in waitpid it ends '
          'by exit with the main process reaped, SIGTERM sent to the whole group, SIGKILL only against a TERM-ignoring main (then nobody is left), '
          'no default-disposition member alive, status 124 for the alarm and non-zero otherwise (unless the main process exited 0 by itself first); '
          'the kill phase always terminates (measure); without a signal nothing is killed and the main process\'s code is returned. The statement '
          'for every arrival point after the fork is REFUTED by two windows (theorems with witnesses, reproduced on the real binary, known findings '
          'sigterm-before-handler and signal-before-waitpid); the exact guard under which it holds is proved.',
  'note': 'ASSUMED not verified: the kernel model (kill(-pgid) reaches exactly the live group members, SIGKILL kills, SIGTERM kills default-disposition '
          'members, waitpid reaps only the main process, a handled signal interrupts a blocking waitpid and otherwise only sets gotsig, default SIGTERM '
          'ends the runner, the alarm cannot fire before alarm()); not modelled: delivery latency, PID reuse, members leaving the group or forking during '
          'the kill, uninterruptible members, the waiteof failure path. Observed only: agreement of model and robsd-exec on driven schedules (6/40 trees '
          '<= 10 processes, every sync point x TERM/ALRM/real alarm(1), second signals, self-exits) and 24/400 undriven timings; real races are sampled, '
          'not exhausted. Trusted: Coq kernel, extraction, driver glue, t_kill.py regexes, the ROBSD_VERIF sync-point hook, tools/kl_sched.py (/proc scan) '
          'and tools/proctree.c; exitstatus modelled with glibc W* macros for non-negative statuses.',
  'technique': 'Coq proof (invariants over a small-step runner+kernel transition system, refutation witnesses by vm_compute, guarded partial theorem, oracle '
               'reflection) + regenerated call-order/constant tie + extracted-model correspondence with the real robsd-exec driven through sync points + '
               'extracted spec oracle on /proc observations',
 },
 'C15': {
  'text': 'Coq theorems (closed under the global context) about the model of invocation_read/match_directory/invocation_alloc/invocation_walk + robsd-ls main, '
          'for every directory content (any entries of any d_type with distinct names), root and keep-dir string, lock file content and every function that '
          'behaves like qsort: listed <-> DT_DIR, not hidden, path != keep-dir; each once; strictly descending by byte-wise name order; -B drops exactly the entry '
          'whose printed path equals the first line of .running; the specification has one solution and the oracle accepts exactly it. '
          'Tied to the binary by byte-exact runs of robsd-ls -m <mode> -C <conf> [-B] in all five modes.',
  'note': 'known finding B-lists-lock-target-spelled-differently: -B compares strings, a lock spelled differently (robsd -r + non-canonical robsddir) is not omitted '
          '(C15_B_omits_denoted_directory_refuted; C15_B_omits_exactly_lock_target is the byte-for-byte statement). Assumed, not verified: readdir/d_type from the kernel, '
          'qsort contract, strcmp/snprintf/printf, no PATH_MAX truncation, names without newline for the line oracle; configuration loader exercised not modelled; '
          'DT_UNKNOWN via LD_PRELOAD stand-in; opendir failure modelled but not producible as root; correspondence bounded by generated roots (<= 22 entries)',
  'technique': 'Coq proof (uniqueness of sorted permutations under a strict order, Base/Sort.v) + extracted-model differential correspondence + extracted spec oracle told the lock target by file identity',
 },
 'C16': {
  'text': 'PARTIAL. Coq theorems about the model of robsd-clean + util.sh purge on an abstract tree, for every well-formed tree, lock content, keep/count/keep-attic and qsort, '
          'under the guard lock_consistent (lock absent/unusable and nothing running, or its first line is exactly the path robsd-ls prints for the running invocation): '
          'retention 0 is a no-op; afterwards the root holds exactly the running invocation plus the newest others, min(N, all) in total; nothing of a removed invocation is left; '
          'every entry outside the removed invocations and the attic is unchanged and nothing new appears outside the attic; with the attic enabled old attic paths stay, every victim '
          'reappears at attic/YYYY/MM/DD.X, and every new attic entry is a created parent or the copy of a non-tmp entry that is whitelisted or a directory holding a whitelisted name; '
          'whitelist, +1 compensation and tr characters are regenerated from util.sh and proved equal to the documented ones. Tied to bash robsd-clean -m canvas by whole-tree comparison.',
  'note': 'C16_kept_set_refuted without the guard: known findings clean-lock-spelled-differently (running invocation archived) and clean-stale-lock-keeps-one-less; candidate patch '
          'findings/D15_clean_lock.diff not applied. Partial also because bash and GNU tail/find/cp/rm/tr run behind stand-ins (stat -f %Sm -t, find -delete ignoring ENOTEMPTY, chflags, logname, date); '
          'only canvas mode end to end; modes/owners/timestamps not modelled; names without newline, leading/trailing blanks; the attic clauses of the oracle are checked against the model by execution, not proved',
  'technique': 'Coq proof (fold over victims with outside/gone/attic-provenance lemmas on a flat path-list tree, listing model of C15 reused) + translator util.sh -> Gen_Util.v + differential correspondence + extracted tree oracle with an independent whitelist',
 },
 'C17': {
  'text': 'Coq theorems about the models of build_id (as util.sh has it now: count+1 advanced to the next free suffix), build_init and log_id on what find(1) sees: '
          'the directory name handed out is not the name of any entry of the root, for every tree and for every history of runs and arbitrary removals (C17_build_id_fresh; '
          'it stops compiling when the loop is removed again); build_init takes over an existing directory silently; for every sequence of attempts in a build directory '
          'satisfying log_inv (in particular a fresh one) every log name is fresh, names are pairwise distinct and earlier entries stay (C17_log_id_fresh). '
          'Tied to the real functions of util.sh under bash on generated directory states and to run/clean histories through the real canvas and robsd-clean.',
  'note': 'D10 (count+1 collided after an older same-day invocation was cleaned while a newer one remained) fixed in 70fb0eb, kept as C17_regression_count_plus_one_collides + corpus replays; '
          'the translator recognises either build_id body and raises on anything else. Assumed: bash for ksh, GNU find/wc/tr/printf/echo, date via stand-in, glob PREFIX* modelled as a prefix test '
          '(step names over letters, digits, . _ - /); the oracle is applied to reachable states, other contents (files/links named like invocations, nested matches, newlines, deleted logs) are comparison-only',
  'technique': 'Coq proof (fuel-bounded next-free search with a pigeonhole argument, decimal injectivity from DecimalNat, invariant over attempt sequences) + translator util.sh -> Gen_Util.v (build_id variant, log constants) + differential correspondence + extracted freshness oracles',
 },
 'C19': {
  'text': 'Coq theorems (25, closed under the global context) over an executable model of libks/arena.c (frames, bump pointer, '
          'alignment, ASan poison gap as a parameter, frame doubling, malloc/calloc/realloc fast+slow path/strndup/strdup/sprintf/'
          'cleanup nodes stored in arena memory/scope enter+leave/validate/arena_free) for EVERY API-respecting operation sequence '
          '(LIFO leaves, any sizes < 2^64, any depth, one or two arenas): returned pointers maxalign = pointer aligned; live blocks '
          'inside their frame behind the header and pairwise disjoint; no operation changes a byte of a live block except the '
          'client\'s own write (per step and over whole traces); realloc keeps the common prefix; leaving a scope keeps exactly the '
          'outer scopes\' blocks, never takes the len=0 branch, runs exactly that scope\'s cleanups newest first (permutation '
          'accounting over traces); malloc/calloc/str*/cleanup/growing realloc through a non-innermost scope trap; everything else '
          'within the API never traps or crashes (errx only above 2^63 bytes); uint64 arithmetic of align_address does not wrap; the '
          'extracted oracle never objects to the model\'s own trace. Constants (frame multiplier, maxalign, sizeof frame/cleanup, '
          'POISON_SIZE normal/ASan, pointer size) are regenerated from arena.c on every run.',
  'note': 'proved about the model; tied to the code by exact differential runs (offsets, shapes, cleanups, sampled contents, trap/exit) '
          'of an in-process harness that #includes arena.c and traces arena-buffer.c/arena-vector.c, normal and clang ASan builds, '
          'plus the extracted oracle and shadow copies applied to the implementation (bounded by generated sequences: <= 120 ops, '
          'sizes <= 1 MiB and >= 2^63). Assumed: malloc returns aligned non-aliasing chunks and does not fail, addresses do not wrap, '
          'cleanup functions do not use the arena, compiler sizeof; stats/diagnostics not modelled. Stated exactly, not repaired: '
          'shrinking realloc ignores the scope (inner block shrunk through an outer scope is undetected: C19_outer_shrink_undetected, '
          'findings/C19_outer_shrink.c); non-LIFO leave hands out the frame header; after arena_free only leaves are within the API. '
          'The growing-realloc defect (D11) was repaired (fix: 08bdded).',
  'technique': 'Coq invariant proof over all operation sequences (ghost live-block table, stacking order, scope marks, cleanup chains in a '
               'byte/fragment memory model) + translator for constants + extracted-model and extracted-oracle differential '
               'correspondence with an in-process C harness (normal + ASan)',
 },

 'C02': {
  'text': 'Coq theorems (closed under the global context) about a transition system of any number of processes each performing open, flock, read, '
          '[truncate, write], unlock as separate atomic steps under EVERY schedule: at most one process is between flock and unlock; only the holder changes the file; '
          'whatever a process has read is the complete committed result of the processes granted the lock before it (never a truncated or half-written file); when all '
          'started processes have finished the file equals applying them one at a time in lock order, each exactly once (no lost update); for robsd-step commands '
          '(C01 model) each report equals running the command alone on that prefix; without the lock a two-writer schedule loses an update (witness). '
          'Tied to the code by driving 2-4 real robsd-step processes through sync points in step.c along generated schedules: the observed event trace must be a trace of '
          'the model with the same file content after every event and the same reports, and the final file/reports must equal some serial order (extracted oracle).',
  'note': 'ASSUMED, not verified: flock(2) semantics, atomicity of the operations between sync points, fopen("w") truncating at open, lock release at exit. A crash inside the critical '
          'section is outside the quantifier. One report-order race (waiter reports after_lock before the releasing process reports after_unlock) is normalised by the harness only when '
          'the previous holder was running towards its single remaining operation. Trusted: Coq kernel, extraction, ROBSD_VERIF hook (verif.h + points in step.c), scheduler, /proc wchan.',
  'technique': 'Coq invariant proof over all schedules of a lock-protected read-truncate-write transition system + refutation witness without the lock + hook-driven schedule correspondence with '
               'real processes + extracted serialisability oracle',
 },

 'C03': {
  'text': 'Coq theorems (closed under the global context): step_next equals the literal specification (last recorded non-skipped step if it failed / is in flight / is end, '
          'else the following one, failure when only skipped steps are recorded) for EVERY row list; for every schedule of synchronous steps with arbitrary exit codes, every skip set and '
          'every crash point between two step-file writes - also across repeated crashes and resumes (inductive reachability) - the resume point never lies beyond a step that did not complete '
          'and no successfully completed step other than end lies at or beyond it; every file the sequential orchestrator can leave has the shape the report relies on (C05). '
          'Tied to the code by running the real step_next of util.sh (bash + real robsd-step) on generated step files and by end-to-end canvas runs killed (SIGKILL of the session) before the '
          'first record / while a step runs / right after a completion record and resumed with canvas -r, once or twice.',
  'note': 'PARTIAL in the tie: bash stands in for ksh, robsd-wait/logname/sendmail/chflags are stand-ins, the abstract step file (ascending rows) is what C01 proves robsd-step keeps; a crash INSIDE one '
          'robsd-step -W is outside the quantifier; the loop model covers synchronous steps (parallel ones: C04). Trusted: Coq kernel, extraction, harness. No translator: the shell functions are tied '
          'by correspondence only.',
  'technique': 'Coq proof (invariant "good" preserved by the orchestrator loop, inductive reachability over crash/resume histories, reflection of the boolean oracle) + differential correspondence of step_next and '
               'of killed-and-resumed real canvas invocations + extracted oracle on observed resume points and executed steps',
 },

 'C04': {
  'text': 'PARTIAL. Coq theorems (closed under the global context) about a transition system of the robsd() loop and the jobs it forks, for EVERY configuration (synchronous/parallel steps, '
          'exit codes, skip marks, ncpu) and EVERY schedule of main-loop and job moves: an invariant (remembered jobs <= ncpu, everything running is a remembered job or the foreground step, '
          'terminal states are quiet) from which: never more than ncpu parallel steps at once; a step starts only at the loop head in configuration order and never when skipped; a synchronous '
          'step only when nothing runs (barrier); a parallel step only when no synchronous step runs; after a failing synchronous step nothing starts and the status is non-zero; a failing '
          'parallel step leaves the loop\'s course unchanged; end only if every started synchronous step succeeded. Tied to the code by end-to-end canvas runs with gated probe steps: after every '
          'completion the model (eager schedule) predicts exactly which steps start next; the extracted trace oracle judges the observed starts/ends, exit status and end record.',
  'note': 'ASSUMED: the contract of robsd-wait (stand-in outside OpenBSD), bash for ksh (&, $!, set -e, pipelines), probe commands; only the bookkeeping is proved. The correspondence uses one schedule family '
          '(main loop runs as far as it can between completions) for <= 7 steps, ncpu <= 3; the theorems cover all schedules. Hook: ROBSD_VERIF_NCPU.',
  'technique': 'Coq invariant proof over all schedules of the orchestrator transition system + end-to-end schedule-driven correspondence with the real canvas + extracted trace oracle',
 },
 'C11': {
  'text': 'PARTIAL. Coq theorems on the same transition system extended with the step-file writes of step_exec_job and the hook calls, for every configuration and schedule: every started step '
          'that finished has exactly one record with its real exit status, finished exactly once; when the invocation has ended nothing runs and every record is a completion record, an initial '
          '(skip) record or the end record - none in flight; hook calls are exactly the finished steps with their names and exit statuses, and at the end every started step has finished; the '
          'report/mail/end-hook decision of trap_exit as a function of the outcome; a second invocation while the lock is held by another build directory is refused and changes nothing. '
          'Tied to the code by the same end-to-end canvas runs as C04 (foreground and detached, optional second invocation): records, per-record log files holding the step output, hook log, lock '
          'sampled during and after, report presence and mail count are judged by the extracted accounting oracle.',
  'note': 'ASSUMED/observed only: log file contents, lock file handling and mail transport are shell + userland behaviour seen through stand-ins (sendmail, logname, chflags); robsd-wait contract; bash for ksh. '
          'The lock/second-invocation theorem is about a small separate model of lock_acquire/trap_exit. Resumed invocations: C03.',
  'technique': 'Coq invariant proof (record/hook accounting over all schedules) + end-to-end correspondence with the real canvas + extracted accounting oracle',
 },
 'C20': {
  'text': 'Coq theorems (all closed under the global context). (a) Each of the 15 KS_*_overflow0 fallbacks, regenerated on every run '
          'from libks/arithmetic.c by a clang-AST translator into Gallina with explicit C integer semantics, for ALL operands of its type '
          'never traps, returns 1 exactly when the mathematical result is unrepresentable and stores the exact result otherwise (lia/nia, '
          'no enumeration). (b) The models of vector.c and buffer.c with their real representation (capacity, doubling loop, overflow guards, '
          'two-pass printf reservation, str/release, getline iterator) refine the list / byte-string programs for every operation sequence, '
          'any element size, any allocator granting < 2^50 bytes, any qsort returning a sorted permutation; getline returns exactly the lines. '
          '(c) The model of map.c with its real structure (insertion-order list, bucket chains, expansion with rehash, table freed with the last '
          'element, (el,nx) iterator) refines an insertion-ordered dictionary for ANY hash function on every disciplined sequence; iteration '
          'returns each live entry once in insertion order, also when the entry just returned is removed; elements are never altered or copied.',
  'note': 'proved about models; tied to the code on every run by: translator validation of the 15 fallbacks against three compiled builds '
          '(cc -O0, cc -O2, clang trapping UBSan) on the full boundary grid + aimed operands; in-process differential runs of vector.c, buffer.c, '
          'map.c (results, capacities, table shape, final bucket structure incl. HASH_JEN placement) on seeded sequences crossing several '
          'reallocations / expansions; the extracted specification oracles applied to what the implementation returned. Only observed: the '
          'builtin path (__builtin_*_overflow contract assumed), pointer stability (handles translated from addresses), behaviour under real '
          'allocators. Assumed: LP64, little-endian, CInt.v reading of C11, realloc/calloc/qsort/vsnprintf/memcmp contracts, no allocation failure '
          'below 2^50 bytes; allocation-failure paths of map.c not modelled; map call-site discipline (insert only absent keys, never remove the '
          'element the iterator points to) is a hypothesis, call sites listed by the harness. Correspondence bounded by generated sequences '
          '(<= ~3000 keys, <= 700 ops) - the theorems have no bound. The unsigned-multiply defect (D12) was repaired (fix: 7208c0f).',
  'technique': 'Coq: translator-regenerated leaf functions + symbolic execution/nia; refinement by induction over operation lists with structural '
               'invariants (rehash lemma for bucket expansion); extracted-model differential correspondence and extracted spec oracles against '
               'the rebuilt libks sources',
 },

 'C06': {
  'text': 'Coq theorems (closed under the global context): for every configuration view (variables as config_interpolate_lookup renders them, step list, hook list), trace flag and step name, '
          'robsd-exec hands execvp exactly the configured list of the FIRST step of that name, each element rendered as a whole by the '
          'substitution relation of C09, empty renderings dropped, nothing added or split (argv embeds monotonically into the configured list); '
          'robsd-hook likewise without dropping, and executes nothing when no hook is configured. The exit status mapping exitstatus(), translated '
          'from clang\'s AST with glibc\'s W* macros expanded, is total on all integers and equals: code passed through, 128+signal, 124 on SIGALRM, '
          '0 iff exited 0. Unknown step / uninterpolatable schedule / failing execvp give a non-zero status with a diagnostic and never a crash '
          '(C06_unresolvable_is_error, for find_step as the source has it now; it stops compiling if the NULL check is removed; the shipped code crashed - D5, repaired in 0771f90, '
          'witness kept as C06_unresolvable_is_error_refuted about the unchecked variant).',
  'note': 'Observed, not proved: that the C code behaves like the model (process-level correspondence on generated configurations in all five modes, argv dumped by a probe, '
          'every exit code, every non-stopping signal, regress-timeout; compiled exitstatus() vs its translation on 196k pairs each run). Assumed: '
          'the kernel (fork/execvp/waitpid/signals) as a universally quantified function from argv to "exec failed" or a wait status; glibc\'s wait '
          'status encoding; the configuration parser (C08) producing the view the harness builds beside each file; C09\'s interpolation model. '
          'A stopped step is not exercised. execvp(NULL) when every element renders empty is libc-undefined and only checked as "non-zero + diagnostic".',
  'technique': 'Coq: structural induction over the configured lists against the Subst relation, arithmetic proof of the translated leaf function, variant switch by translator flag; '
               'translator t_exec.py; extracted model + oracle; differential process-level harness with tools/argvprobe.c',
 },

 'C14': {
  'text': 'Coq theorems (21, closed under the global context): for every command line and every qsort that returns a sorted permutation, the model of robsd-regress-html '
          'renders one column per invocation in descending start-time order, one row per suite with failing suites first, the pass rate floor(100*(total-fail)/total), never '
          'dereferences the column pointer outside the invocation vector, and writes exactly the specified output tree (every run link names a file of it). The cell of suite S under '
          'invocation I shows the status derived from that run\'s exit code and log, linking to arch/date/log, iff S ran in I - PROVED ONLY under the guards "start times '
          'pairwise distinct" and "each suite at most once per invocation"; without them it is refuted for every qsort (known finding run-shown-under-wrong-invocation).',
  'note': 'Observed, not proved: that the C code is the model - generated trees (1-3 arches, 0-40 invocations, ties, duplicate suites, invalid inputs), index.html compared as a parsed matrix, '
          'output tree by content, leaf functions on grids, ASan lane; memory safety of the binary itself is a sanitizer observation. Assumed: the file system, qsort contract, '
          'libc string functions, names without HTML metacharacters or "/" in arch and log names, an empty output directory. D8 (float pass rate) and the D9 bound were repaired in /repo (ea4de2c, 4acd4e2); '
          'Html/HtmlTie.v makes C14_rate and C14_no_oob stop compiling on a revert and the corpus replays the witnesses.',
  'technique': 'Coq: executable model of regress-html.c over the C01 step-file and C13 regress-log models, comprehension spec + boolean oracle, uniqueness of strictly sorted permutations for the column walk; '
               'translator t_html.py; process-level correspondence + extracted spec oracle on the parsed matrix; in-process leaf harness; ASan build',
 },

 'C05': {
  'text': 'Coq theorems (closed under the global context) over the model of report.c for every mode, row list and file-system view: status/subject say ok iff no non-skipped row failed, '
          'otherwise the count (regress, canvas) or the failing step (sequential modes); sections are exactly the listed rows in order with name, '
          '(int)exit and log name, failing rows always, skipped rows never; the body is the lines from the tenth-last non-empty line on (cvs logs, '
          'packages.diff, extracted regress blocks of C13, whole log for canvas) - in full for the code as it is now (C05_body_current; D14 repaired in 91740ae); '
          'no report iff the stated read errors; no NUL/CR byte is printed.',
  'note': 'Status theorem under explicit hypotheses (skipped rows carry exit 0; sequential modes: only the last non-skipped row may fail) with refutation '
          'witnesses outside them - that the sequential orchestrator only writes such files is C03_orchestrator_files_are_good. Observed only: model = robsd-report byte for byte on generated build '
          'directories (450 quick / 12k thorough). Assumed: libc printf/qsort/fnmatch, kernel file I/O, lock file names the given directory, config loader.',
  'technique': 'Coq model (two layers: report_struct, render) + independent spec + extracted oracles; translator t_report.py for thresholds, names, '
               'comparison operators, sanitize table and the excerpt variant; process-level byte-exact correspondence in five modes',
 },
 'C12': {
  'text': 'PARTIAL. Proved (Coq, closed under the global context) about the models, for all inputs: the parsers are total functions (structural recursion; the one fuelled loop of the step parser '
          'never runs out of fuel); the input cursor of lexer.c stays inside its buffer for every sequence of getc/ungetc calls (guards read from the source by a translator); every helper model '
          '(robsd-step -R/-W, robsd-regress-log, interpolation through robsd-config -) exits with a documented status and prints nothing on standard output when it rejects. '
          'OBSERVED only: absence of memory errors / undefined behaviour / hangs in the C code - a clang ASan+UBSan build of every helper fed with grammar-derived inputs of all five configuration grammars, '
          'step files, regress logs, templates and report build directories, their byte-level mutations (NUL, quotes, braces, $, 70 kB tokens, huge integers, truncation) and raw bytes, 5 s limit each, '
          'compared with the C01/C13/C09 models on inputs up to 3 kB.',
  'note': 'Memory safety of C cannot be proved with the installed tools (no VST/CompCert); the sanitizer lanes are exploration bounded by the generator (2.5k executions quick, 60k thorough). '
          'The configuration parser is judged here only by the exit-status/diagnostic oracle (C08 compares it with its model). fuzz-config/fuzz-step targets of the repository are not run.',
  'technique': 'Coq proofs of totality/fuel sufficiency, cursor bounds and exit-status/fail-closed facts about the models + translator for the lexer guards + sanitizer-instrumented differential exploration',
 },
 'C18': {
  'text': 'Coq theorems (closed under the global context): total = end row\'s duration else sum over non-skipped non-end rows (regress: last time - first time); HH:MM:SS exact for 0..2^40 with %02d '
          'padding; delta suffix iff |delta| > threshold (60 s total, 0 per step) with the right sign; a Size: line iff the file is visible, not CHANGELOG/numbered '
          'diff, present in this and the previous (greatest other) invocation and changed by >= 1 MiB (1 KiB bsd.rd); size text = correctly rounded tenth, ties to '
          'even, unit by magnitude; util.sh duration_total / regress_duration_total equal steps_total_duration. Thresholds and the comparison operators at them are regenerated from report.c.',
  'note': 'format_size is exact for sizes < 2^53 (double conversion) assuming glibc prints the correctly rounded decimal; sums assumed not to overflow int64 '
          '(C18_total_fits gives the bound). Observed only: Duration:/Size: lines byte for byte, and the shell totals run from the working tree under bash '
          '(bash for ksh) on a sample. Durations outside 0..2^40 (in-flight -1) are compared with the model but not judged.',
  'technique': 'same model/extraction/fixtures as C05; thresholds and comparison operators regenerated so that changing them breaks a proof; byte-exact correspondence + extracted oracles',
 },
 'C08': {
  'text': 'Coq theorems (closed under the global context), for every environment and every table: config_parse accepts a text iff it lexes without complaint into the spelling of a list of entries '
          'that conforms to the table (keywords of the mode only, values of the documented shape, non-repeatable variables met while undefined, users/'
          'directories existing after substitution, globs not failing, time-outs fitting an int in seconds, steps with a command, required variables '
          'defined) - both directions, all productions incl. regress options and canvas steps, with the dictionary defined (C08_accept_iff_conforms*). '
          'The regenerated tables equal the hand-transcribed man-page tables up to row order for robsd/cross/ports/regress; canvas has robsddir in addition '
          '(refuted+partial, known finding). Every rejection exits 1, prints nothing on stdout and leaves a diagnostic naming the file (C08_reject_names_file_holds_now, '
          'for the source as repaired by 78f946e; witness theorem for the previous body kept). Values: first definition wins, default of the matching row otherwise, lists '
          'joined by single spaces, booleans 1/0, time-outs in seconds; for an accepted configuration every plain keyword (all but regress-user, '
          'regress-timeout, robsddir) equals its first defining entry whatever other entries surround it; an entry writes only its own names. rdomain: '
          'k-th reference = 11 + k mod 245 and consecutive references differ, for every k (C08_rdomain_cycle_holds_now, for the source as repaired by c0e596d; '
          'witness 255,11,11,12 for the previous body kept).',
  'note': 'Proved about the Gallina model (Conf/ConfDefs.v) for all tables/environments; instantiated with tables regenerated from conf*.c, conf-token.h, mode.h '
          '(t_conf.py) and, for the oracle, with DocSpec tables. NOT proved: invariance of conformance under reordering of table rows (the statement is about the '
          'regenerated tables; canon(Gen)=Doc is a separate theorem and the oracle runs on Doc tables), value persistence for regress-user/regress-timeout/robsddir, '
          'absence of C-level traps (model flag c_abort). Observed only: model = robsd-config on generated cases (exit, stdout, complete diagnostic sequence). '
          'Assumed: stat/getpwnam/glob/fnmatch(literal*literal)/getenv/sysconf/if_group_addr as environment record, compiler overflow builtins, C locale ctype, '
          '512-byte diagnostic buffer not exceeded; DocSpec is a hand transcription (required = occurs in the page\'s example; crossdir/chroot/ports-dir unchecked strings). '
          'Two genuine defects found by this check were repaired (fix: commits c0e596d, 78f946e); known finding: canvas-accepts-undocumented-robsddir.',
  'technique': 'Coq 8.16: executable model, declarative entry grammar, soundness/completeness by induction on fuel/entries, invariant sections over the interpolation '
               'machinery, table equalities by vm_compute; translator t_conf.py (anchored regexes, two recognised variants for rdomain and for the diagnostic path); extraction + '
               'process-level differential testing with environment queries resolved against the real file system; oracle = reader on documented tables.',
 },
 'C10': {
  'text': 'Coq theorems (closed under the global context): listing lines carry consecutive numbers from the offset; -o k (1<=k<=N) prints exactly the suffix of the full listing starting at step k, k>N is "offset too large"; '
          'interpolation changes neither names, flags nor order; robsd/cross/ports list exactly the static table whose de-duplicated names are the documented steps, end last; '
          'regress lists the documented steps around the configured tests: after mount those of ${regress} that run in parallel (switch on and no no-parallel option on any '
          'entry of that path) in the order written and flagged, then the others in the order written, none parallel when parallel no - stated on the configuration state and, '
          'through C08, on the entries of the accepted text; canvas lists the step entries in the order written with their flags, then end; every listed name is found by '
          'find_step in the same schedule; commands of script steps start with sh; a canvas command may resolve to an empty argv (refuted with witness, known finding).',
  'note': 'Proved about the model (Conf/SchedDefs.v on the C08 model); step tables, argv template, placeholder regenerated by t_conf.py, which also compares the text of '
          'config_robsd_regress_get_steps/is_parallel/config_default_get_steps/the listing loop with the transcribed form (a harmless edit there is reported as a broken tie). '
          'Observed: robsd-step -L at many offsets and robsd-exec on every listed name against stub scripts / the resolved argv. Not modelled: fork/exec/wait (C06/C07). '
          'Known finding: listed-step-empty-command.',
  'technique': 'Coq theorems by induction/computation, entry-level tracking lemmas shared with C08, regenerated step tables, extracted oracle over parsed listings told what the generator configured, differential testing.',
 },
}
NOT_APPLICABLE = {p: PENDING for p in ['C%02d' % i for i in range(1, 21)] if p not in CLAIMS}
