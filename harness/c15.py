"""C15 - invocation listing: model/spec vs robsd-ls -m <mode> -C <conf> [-B] (DESIGN.md 7, C15)."""
import glob, hashlib, json, os, shutil, subprocess
from concurrent.futures import ThreadPoolExecutor
import common, iv_common
from common import hexs, unhex

TRANSLATORS = ['t_util']
TRUSTED = ['modelled, not verified: readdir(3)/d_type as delivered by the kernel (names pairwise distinct, no "/" or NUL), '
           'qsort(3) (hypothesis "returns a permutation whose adjacent elements compare <= 0"; proved irrelevant beyond that), '
           'strcmp/snprintf/printf of libc, paths shorter than PATH_MAX (no snprintf truncation), names and root without newline '
           'for the line-level oracle; the configuration loader is exercised (five modes), not modelled; '
           'DT_UNKNOWN answers are produced by the LD_PRELOAD stand-in tools/iv_dtype_preload.c and compared model-vs-'
           'implementation only: such a file system is outside the quantifier (outside_dt_unknown in harness/c15.py), '
           'on every other case the entries are what they really are and the oracle judges; '
           'an unreadable root (opendir failure) is modelled but cannot be produced as uid 0']

DAYS = [b'2024-01-01', b'2024-01-02', b'2023-12-31', b'2024-01-10']
MISC = [b'rel', b'a', b'A', b'a-b', b'a.b', b'a b', b'\xc3\xa9', b'\xff', b'~', b'2024-01-02.', b'2024-01-02.1.1',
        b'2024-01-02x', b'2024-01-0', b'z', b'\x7f', b'\x80', b'\x01', b'tmp', b'attic2', b'atti', b'2024-01-02.01']
HIDDEN = [b'.hidden', b'.2024-01-02.1', b'..x', b'.attic', b'.r']
SIG_RESPELLED = 'B-lists-lock-target-spelled-differently'
LOCKS = ['absent', 'target', 'target', 'target', 'canonical', 'target_nonl', 'target_two', 'target_nul', 'target_nul_after', 'stale',
         'respelled', 'respelled2', 'empty', 'nl_only', 'dirlock', 'nameonly']
# more shapes of the lock file (drawn with a smaller probability): CRLF line end, more than one 4096-byte block with and
# without a newline, the first line cut one byte short (a PREFIX of the target's path, possibly another invocation's path)
LOCKS_B = ['target_crlf', 'target_long', 'long_nonl', 'target_cut', 'target_long2']
SPELL = ['abs', 'abs', 'slash', 'dslash', 'rel', 'dotrel']


# ---- boundary classes (sizes / shapes a fixed buffer, a narrowed integer, a growth step or an off-by-one trips over) ----
# suffix values next to the integer limits (robsd-ls never parses them: strcmp only - the point is that nothing does)
BIG_SUFFIX = [0, 1, 2 ** 31 - 1, 2 ** 31, 2 ** 32 - 1, 2 ** 32, 2 ** 63 - 1]
# names byte-adjacent to a date / to the names the code treats specially; lengths 1 and NAME_MAX
ADJACENT = [b'2024-01-01 ', b'2024-01-010', b'2024-01-01.', b'2024-01-01-', b'2024-01-01..', b'2024-01-0',
            b'ATTIC', b'Attic', b'attic ', b'attic.1', b'atticc', b'TMP', b'tmp', b'2', b'x']
NAME_MAX = iv_common.NAME_MAX
LONG_NAMES = [b'2024-01-02.' + b'1' * (NAME_MAX - 11), b'2024-01-02.' + b'1' * (NAME_MAX - 12), b'n' * NAME_MAX,
              b'n' * (NAME_MAX - 1), b'.' + b'h' * (NAME_MAX - 1)]
# numbers of ACCEPTED directories around the growth steps of VECTOR(struct invocation_entry) (16, doubling)
COUNTS = [15, 16, 17, 31, 32, 33, 63, 64, 65, 255, 256]
# invocations of ONE day: one/two/three/four digits
PER_DAY = [9, 10, 11, 99, 100, 101, 999, 1000]
# length of robsddir as spelled.  PATH_MAX is 4096 with the NUL: "pmax" = the longest root for which root + "/" + the
# longest name of the case still is a path the kernel accepts (4095 bytes); one byte more and neither opendir nor the
# harness could name the entry, and snprintf into char path[PATH_MAX] truncates - LsDefs.mkpath has no truncation
# (TRUSTED: paths shorter than PATH_MAX), so the class is capped exactly there.
ROOT_LENS = [254, 255, 256, 1023, 1024, 1025, 'pmax']
PATH_MAX = iv_common.PATH_MAX


def gen_name(rng):
    k = rng.random()
    if k < 0.62:
        d = rng.choice(DAYS[:rng.choice([1, 2, 4])])
        if rng.random() < 0.2:
            return d
        if rng.random() < 0.06:
            return d + b'.' + str(rng.choice(BIG_SUFFIX)).encode()
        return d + b'.' + str(rng.choice([1, 2, 3, 9, 10, 11, 12, 19, 20, 99, 100, 101, 999, 1000])).encode()
    if k < 0.72:
        return b'attic'
    if k < 0.84:
        return rng.choice(HIDDEN)
    if k < 0.88:
        return rng.choice(ADJACENT)
    if k < 0.90:
        return rng.choice(LONG_NAMES)
    return rng.choice(MISC)


def gen_kind(rng, name):
    k = rng.random()
    if name == b'attic':
        return 'dir' if k < 0.8 else rng.choice(['file', 'symdir'])
    if k < 0.62:
        return 'dir'
    if k < 0.76:
        return 'file'
    if k < 0.86:
        return 'symdir'
    if k < 0.91:
        return 'symdangling'
    if k < 0.95:
        return 'fifo'
    return 'unknowndir'


def expand(case):
    """entries of a case: the explicit ones plus the compact form `bulk` = [[prefix hex, lo, hi, kind], ...] standing for
    prefix + decimal(k), lo <= k <= hi (keeps corpus files with hundreds of invocations small)"""
    ents = [list(e) for e in case['entries']]
    seen = {e[0] for e in ents}
    for ph, lo, hi, kind in case.get('bulk') or []:
        for k in range(lo, hi + 1):
            h = ph + str(k).encode().hex()
            if h not in seen:
                seen.add(h)
                ents.append([h, kind])
    return ents


def gen_many(rng):
    """`bulk` descriptions for a root with exactly n accepted directories (n around a growth step of the vector) or a day
    with 9..1000 invocations: consecutive numbers of one or more days, so that the suffixes cross the 9/10, 99/100 and
    999/1000 boundaries and every shorter name is a prefix of a longer one"""
    r = rng.random()
    if r < 0.72:
        n = rng.choice(COUNTS)
        days = rng.choice([1, 1, 2, 4])
    else:
        # a day with 999/1000 invocations costs the extracted model and oracle (quadratic list programs) ~5 s: drawn
        # rarely here, once in corpus/C15/b15_per_day_1000.json
        n = rng.choice(PER_DAY[:6] if r < 0.985 else PER_DAY[6:])
        days = 1
    bulk = []
    left = n
    for i, d in enumerate(DAYS[:days]):
        take = left if i == days - 1 else rng.randint(0, left)
        if take:
            lo = rng.choice([1, 1, 1, 0, 2])
            bulk.append([(d + b'.').hex(), lo, lo + take - 1, 'dir'])
        left -= take
    return bulk, n


def gen_case(rng):
    n = rng.choice([0, 1, 2, 3, 4, 6, 9, 14, 22])
    ents = {}
    bulk = None
    if rng.random() < 0.05:
        bulk, _ = gen_many(rng)
        n = rng.choice([0, 1, 3, 6])        # plus a few entries that are not listed
        taken = {bytes.fromhex(e[0]) for e in expand({'entries': [], 'bulk': bulk})}
    else:
        taken = set()
    for _ in range(n):
        nm = gen_name(rng)
        if nm not in ents and nm not in taken:
            k = gen_kind(rng, nm)
            # in a bulk case the number of ACCEPTED directories is the class: the extras are of kinds that are not listed
            ents[nm] = k if not bulk or k != 'dir' else 'file'
    if rng.random() < 0.04:
        # a file system that never fills in d_type (C15_dt_unknown_lists_nothing)
        ents = {k: ('unknowndir' if v == 'dir' else v) for k, v in ents.items()}
    names = list(ents) + (sorted(taken)[:3] + sorted(taken)[-3:] if bulk else [])
    kinds = dict(ents)
    kinds.update({x: 'dir' for x in taken})
    lock = rng.choice(LOCKS + (LOCKS_B if rng.random() < 0.35 else []))
    target = None
    if names and lock.startswith('target') or lock in ('respelled', 'respelled2', 'nameonly', 'canonical', 'long_nonl'):
        # mostly a listed directory, sometimes anything
        dirs = [x for x in names if kinds[x] == 'dir' and not x.startswith(b'.') and x != b'attic']
        pool = dirs if (dirs and rng.random() < 0.8) else names
        # a target that is a proper prefix of another name, when there is one (DATE.1 with DATE.10 present)
        pre = [x for x in pool if any(y != x and y.startswith(x) for y in kinds)]
        if pre and rng.random() < 0.5:
            pool = pre
        target = rng.choice(pool) if pool else b'2024-01-02.1'
    case = {'mode': rng.choice(iv_common.MODES), 'spell': rng.choice(SPELL),
            'entries': [[k.hex(), v] for k, v in ents.items()],
            'lock': lock, 'target': None if target is None else target.hex()}
    if bulk:
        case['bulk'] = bulk
    if rng.random() < 0.06 and len(taken) <= 70:
        case['rootlen'] = rng.choice(ROOT_LENS)
        if case['rootlen'] == 'pmax' or case['spell'] in ('rel', 'dotrel'):
            # a relative spelling adds the working directory on top: near PATH_MAX only absolute spellings are usable
            case['spell'] = rng.choice(['abs', 'abs', 'slash', 'dslash']) if case['rootlen'] == 'pmax' else case['spell']
        if case['rootlen'] == 'pmax' and rng.random() < 0.6 and target is not None:
            case['lock'] = rng.choice(['target', 'target', 'target_long', 'canonical'])
            dirs = [x for x in kinds if kinds[x] == 'dir' and not x.startswith(b'.') and x != b'attic']
            if dirs and rng.random() < 0.7:
                # the longest name: <root>/<name> is PATH_MAX - 1 bytes, the lock file `target` exactly one 4096-byte block
                case['target'] = max(dirs, key=len).hex()
    return case


def lock_bytes(case, rootb, realroot=None):
    k = case['lock']
    t = bytes.fromhex(case['target']) if case.get('target') else b'2024-01-02.1'
    p = rootb + b'/' + t
    if k in ('absent', 'dirlock'):
        return None
    return {
        'target': p + b'\n',
        'canonical': (realroot or rootb) + b'/' + t + b'\n',   # what `robsd -r` stores: the readlink -f path
        'target_nonl': p,
        'target_two': p + b'\nsecond line\n' + rootb + b'/2024-01-01\n',
        'target_nul': rootb + b'/' + t[:1] + b'\x00' + t[1:] + b'\n',
        'target_nul_after': p + b'\n\x00junk',
        'stale': rootb + b'/2020-02-02.7\n',
        'respelled': rootb + b'//' + t + b'\n',
        'respelled2': p + b'/\n',
        'empty': b'',
        'nl_only': b'\n' + p + b'\n',
        'nameonly': t + b'\n',
        'target_crlf': p + b'\r\n',
        'target_long': p + b'\n' + b'x' * 5000 + b'\n',          # the file does not fit one 4096-byte read
        'target_long2': p + b'\n' + (b'y' * 63 + b'\n') * 1100,  # > 65536 bytes
        'long_nonl': p + b' ' + b'x' * 5000,                      # no newline anywhere: "line not found"
        'target_cut': p[:-1] + b'\n',                            # a proper prefix of the target's path
    }[k]


def spelled_root(case, d, ents):
    """-> (real path of the root, robsddir as spelled).  `rootlen` = the exact length of the spelled string (padding
    directories of up to NAME_MAX bytes in between); 'pmax' = the longest one for which <root>/<longest name> and
    <root>/.running still are paths of PATH_MAX - 1 bytes"""
    sp = case['spell']
    pre = {'abs': d + '/', 'slash': d + '/', 'dslash': d + '//', 'rel': '', 'dotrel': './'}[sp]
    post = '/' if sp == 'slash' else ''
    L = case.get('rootlen')
    if not L:
        mid = 'r'
    else:
        if L == 'pmax':
            longest = max([len(bytes.fromhex(nh)) for nh, kind in ents] + [len(b'.running')])
            L = PATH_MAX - 1 - 1 - longest
        need = L - len(pre) - len(post)
        if need < 1:
            raise common.BuildFailure('C15 case: rootlen %r is shorter than the scratch directory allows' % L)
        mid = '/'.join(iv_common.root_components(need))
    return os.path.join(d, mid), pre + mid + post


def make_fixture(case, d):
    """creates the root, d/src, d/conf; returns (root string as spelled, root real path, lock bytes, DT_UNKNOWN names)"""
    os.makedirs(d)
    ents = expand(case)
    root, rs = spelled_root(case, d, ents)
    os.makedirs(root)
    os.mkdir(os.path.join(d, 'src'))
    os.mkdir(os.path.join(d, 'outside'))
    rb = root.encode()
    first_dir = None
    # everything below the root is made relative to a descriptor of it: <root>/<name> may be PATH_MAX - 1 bytes long
    fd = os.open(root, os.O_RDONLY | os.O_DIRECTORY)
    try:
        for nh, kind in ents:
            nm = bytes.fromhex(nh)
            if kind in ('dir', 'unknowndir'):
                os.mkdir(nm, dir_fd=fd)
                if first_dir is None:
                    first_dir = nm
            elif kind == 'file':
                os.close(os.open(nm, os.O_WRONLY | os.O_CREAT | os.O_EXCL, 0o644, dir_fd=fd))
            elif kind == 'symdir':
                os.symlink(first_dir if first_dir is not None else os.path.join(d, 'outside').encode(), nm, dir_fd=fd)
            elif kind == 'symdangling':
                os.symlink(b'nowhere', nm, dir_fd=fd)
            elif kind == 'fifo':
                os.mkfifo(nm, dir_fd=fd)
        lb = lock_bytes(case, rs.encode(), os.path.realpath(root).encode())
        if case['lock'] == 'dirlock':
            os.mkdir('.running', dir_fd=fd)
        elif lb is not None:
            f = os.open('.running', os.O_WRONLY | os.O_CREAT | os.O_EXCL, 0o644, dir_fd=fd)
            os.write(f, lb)
            os.close(f)
    finally:
        os.close(fd)
    iv_common.write_conf(os.path.join(d, 'conf'), case['mode'], rs, os.path.join(d, 'src'))
    unknown = [bytes.fromhex(nh) for nh, kind in ents if kind == 'unknowndir']
    if unknown:
        open(os.path.join(d, 'unknown'), 'wb').write(b'\n'.join(unknown) + b'\n')
    return rs, rb, lb, unknown


def run_one(impl, preload, work, idx, case):
    d = os.path.join(work, 'c%d' % idx)
    try:
        rs, rb, lb, unknown = make_fixture(case, d)
        ents = iv_common.scan(rb)
        ents = [(n, 'U' if n in unknown else t) for n, t in ents]
        env = dict(os.environ)
        if unknown:
            env['LD_PRELOAD'] = preload
            env['IV_DTYPE_UNKNOWN_FILE'] = os.path.join(d, 'unknown')
        # which listed directory the lock file denotes (by identity, not by spelling): its printed path
        named = None
        if lb is not None:
            c0 = lb.split(b'\x00', 1)[0]
            if b'\n' in c0:
                first = c0.split(b'\n', 1)[0]
                named = first
                tgt = first if first.startswith(b'/') else os.path.join(d.encode(), first)
                try:
                    for n, t in ents:
                        if t == 'D' and os.path.samefile(os.path.join(rb, n), tgt):
                            named = rs.encode() + b'/' + n
                            break
                except OSError:
                    pass
        obs = []
        for B in (False, True):
            try:
                r = subprocess.run([os.path.join(impl, 'robsd-ls'), '-m', case['mode'], '-C', os.path.join(d, 'conf')]
                                   + (['-B'] if B else []), cwd=d, env=env,
                                   stdout=subprocess.PIPE, stderr=subprocess.PIPE, timeout=20)
                obs.append((r.returncode, r.stdout, r.stderr))
            except subprocess.TimeoutExpired:
                obs.append((-999, b'', b'timeout'))
        return {'root': rs.encode(), 'ents': ents, 'lock': lb, 'obs': obs, 'named': named}
    finally:
        shutil.rmtree(d, ignore_errors=True)


def load_corpus():
    files = sorted(glob.glob(os.path.join(common.VERIF, 'corpus', 'C15', '*.json')))
    if not files:
        raise common.BuildFailure('corpus/C15 is missing or empty: the replays of the known findings cannot run')
    return [json.load(open(p)) for p in files]


OUT_UNKNOWN = 'outside: the file system answers DT_UNKNOWN for a directory of the root'


def outside_dt_unknown(c):
    """C15 quantifies over "all contents of the invocation root ... in every mode": which entries there are and of
    what kind.  Whether readdir(3) reports the kind in d_type is a property of the FILE SYSTEM the root lives on,
    not of its contents (OpenBSD FFS, the only place robsd runs, fills d_type; an NFS export may answer
    DT_UNKNOWN).  A case in which the stand-in tools/iv_dtype_preload.c makes readdir answer DT_UNKNOWN for a
    directory is therefore outside the statement: it is recognised here, on the case, counted, and not judged by
    the oracle.  What robsd-ls does then is a theorem about the model (C15_dt_unknown_lists_nothing) and the
    model-vs-implementation comparison still runs; write-up findings/C15_dt_unknown.md."""
    return any(kind == 'unknowndir' for nh, kind in expand(c))


def classify(fx, B, rc, out, bd, bd_literal=None):
    """a stable name for the defect class; the verdict itself comes from the extracted oracle"""
    if rc != 0:
        return 'nonzero-exit'
    root = fx['root']
    keep = root + b'/attic'
    types = {root + b'/' + n: (n, t) for n, t in fx['ents']}
    qual = {p for p, (n, t) in types.items() if t == 'D' and not n.startswith(b'.') and p != keep}
    if B and bd is not None:
        qual.discard(bd)
    lines = out.split(b'\n')[:-1] if out.endswith(b'\n') else (out.split(b'\n') if out else [])
    for p in lines:
        if p not in qual:
            if p not in types:
                return 'lists-unknown-path'
            n, t = types[p]
            if B and p == bd:
                return 'B-lists-lock-target' if bd == bd_literal else SIG_RESPELLED
            if n.startswith(b'.'):
                return 'lists-hidden-entry'
            if p == keep:
                return 'lists-keep-dir'
            return 'lists-non-directory-type-' + t
    if len(set(lines)) != len(lines):
        return 'lists-duplicate'
    if set(lines) != qual:
        return 'B-omits-other-than-lock-target' if B else 'omits-qualifying-directory'
    return 'not-strictly-descending'


def classes_of(c, fx):
    """the boundary classes a case belongs to (printed into the input distribution as `class: ...`)"""
    out = []
    root = fx['root']
    acc = [n for n, t in fx['ents'] if t == 'D' and not n.startswith(b'.') and root + b'/' + n != root + b'/attic']
    names = [n for n, t in fx['ents']]
    if len(acc) in COUNTS or len(acc) in (0, 1):
        out.append('listed=%d' % len(acc))
    days = {}
    for n in acc:
        if len(n) > 11 and n[10:11] == b'.' and n[11:].isdigit():
            days.setdefault(n[:10], []).append(int(n[11:]))
    for d, ks in days.items():
        if len(ks) in PER_DAY:
            out.append('per-day=%d' % len(ks))
        if max(ks) > len(ks) + min(ks) - 1:
            out.append('day with a gap in the sequence')
        for v in BIG_SUFFIX:
            if v in ks and v != 1:
                out.append('suffix=%d' % v)
    for n in names:
        if len(n) in (1, NAME_MAX - 1, NAME_MAX):
            out.append('name-len=%d' % len(n))
        if n in ADJACENT:
            out.append('name byte-adjacent to a date / attic / tmp')
    sa = sorted(acc)
    if any(y.startswith(x) for x, y in zip(sa, sa[1:])):
        out.append('listed names that are prefixes of each other')
    lb = fx['lock']
    if lb is not None:
        c0 = lb.split(b'\x00', 1)[0]
        if b'\n' in c0:
            first = c0.split(b'\n', 1)[0]
            if any((root + b'/' + n).startswith(first) and root + b'/' + n != first for n in acc) and first.startswith(root + b'/'):
                out.append('lock line is a proper prefix of a listed path')
        if len(lb) == PATH_MAX:
            out.append('lock file of exactly 4096 bytes (newline is the last byte of the block)')
        elif len(lb) > 65536:
            out.append('lock file > 65536 bytes')
        elif len(lb) > PATH_MAX:
            out.append('lock file > 4096 bytes')
        if c['lock'] in LOCKS_B:
            out.append('lock-shape=' + c['lock'])
    if len(root) in (1, 254, 255, 256, 1023, 1024, 1025):
        out.append('root-len=%d' % len(root))
    if c.get('rootlen') == 'pmax':
        out.append('root-len=pmax (root + "/" + longest name = PATH_MAX - 1 bytes)')
    return sorted(set(out))


def evaluate(ctx, cases, res, impl=None):
    impl = impl or ctx.build_impl()
    drv = iv_common.build_iv_driver(ctx)
    preload = iv_common.build_preload(ctx)
    if 'LD_PRELOAD tools/iv_dtype_preload.c (DT_UNKNOWN answers of readdir)' not in ctx.shims_used:
        ctx.shims_used.append('LD_PRELOAD tools/iv_dtype_preload.c (DT_UNKNOWN answers of readdir)')
    work = ctx.mkscratch('c15work')
    with ThreadPoolExecutor(8) as ex:
        fxs = list(ex.map(lambda ic: run_one(impl, preload, work, ic[0], ic[1]), enumerate(cases)))
    qs = []
    for c, fx in zip(cases, fxs):
        root = fx['root']
        keep = root + b'/attic'
        et = [str(len(fx['ents']))] + [x for n, t in fx['ents'] for x in (hexs(n), t)]
        lock = '!' if fx['lock'] is None else hexs(fx['lock'])
        qs.append('bd ' + lock)
        for B, (rc, out, err) in zip((False, True), fx['obs']):
            b = '1' if B else '0'
            qs.append(' '.join(['ls', hexs(root), hexs(keep), b, lock] + et))
            named = '!' if (not B or fx['named'] is None) else hexs(fx['named'])
            qs.append(' '.join(['lsokn', hexs(root), hexs(keep), named, str(rc if rc >= 0 else 999), hexs(out)] + et))
    ans = common.run_driver(drv, qs)
    k = 0
    for c, fx in zip(cases, fxs):
        bdt = ans[k]
        k += 1
        bd = None if bdt == '!' else unhex(bdt)
        res.count('mode=' + c['mode'])
        res.count('lock=' + c['lock'])
        res.count('spell=' + c['spell'])
        res.count('entries=%s' % (len(fx['ents']) if len(fx['ents']) < 23 else '23+'))
        for cl in classes_of(c, fx):
            res.count('class: ' + cl)
        for n, t in fx['ents']:
            res.count('dtype=' + t)
        listed_plain = 0
        for B, (rc, out, err) in zip((False, True), fx['obs']):
            m, ok = ans[k], ans[k + 1]
            k += 2
            res.evaluations += 1
            if m.startswith('EXN') or ok.startswith('EXN') or ok == 'BAD':
                res.tie_errors.append('the extracted model/oracle raised (%s / %s) on %s' % (m[:40], ok[:40], json.dumps(c)[:300]))
                continue
            impl_s = '%d %s' % (rc, hexs(out))
            if not B:
                listed_plain = out.count(b'\n')
            elif rc == 0:
                res.count('B-dropped=%d' % (listed_plain - out.count(b'\n')))
            cc = dict(c)
            cc['B'] = B
            if m != impl_s:
                res.disagreements.append({'case': cc, 'model': m, 'impl': impl_s,
                                          'stderr': err[-200:].decode('latin1')})
            if outside_dt_unknown(c):
                res.count(OUT_UNKNOWN)
                continue
            res.count('judged')
            if ok != '1':
                sig = classify(fx, B, rc, out, fx['named'] if B else None, bd)
                res.oracle_failures.append({
                    'case': cc, 'signature': sig,
                    'what': 'robsd-ls -m %s%s printed a listing that is not exactly the qualifying directories in '
                            'strictly descending order (%s)' % (c['mode'], ' -B' if B else '', sig),
                    'impl': impl_s, 'stderr': err[-200:].decode('latin1')})
        nonlisted = len(fx['ents']) - listed_plain
        if listed_plain >= 2 and nonlisted >= 1:
            res.nontrivial.add(hashlib.sha1(repr((c['entries'], c.get('bulk'), c.get('rootlen'), c['lock'], c['target'], c['spell'],
                                                   c['mode'])).encode()).hexdigest())
    return res


def run(ctx, n=None):
    res = common.Result()
    res.rule = ('roots generated from the entry kinds the property lists (dated directories incl. several per day and '
                '.9/.10/.100 suffixes, prefixes of each other, bytes >= 0x80, files, symlinks to directories, dangling '
                'symlinks, fifos, DT_UNKNOWN answers, hidden entries, attic as directory/file/symlink; boundary classes counted '
                'as `class: ...`: numbers of listed directories around the growth steps of the vector, days with 9-1000 '
                'invocations, suffixes at 2^31/2^32/2^63, names of 1/254/255 bytes, names byte-adjacent to a date/attic/tmp, '
                'robsddir of 1/254-256/1023-1025/PATH_MAX-boundary bytes, lock file CRLF / > 4096 / > 65536 bytes / exactly '
                '4096 bytes / cut to a prefix of another path) x 20 lock-file '
                'states x 5 spellings of robsddir x 5 modes, each run with and without -B; non-trivial = at least two '
                'directories listed and at least one entry not listed; distinct by content hash')
    n = n or ctx.budget(400, 20000)
    cases = load_corpus() + [gen_case(ctx.rng) for _ in range(n)]
    res.samples = cases[:3]
    res.assumptions = ['roots of up to 22 entries in the ordinary stream, 15-17/31-33/63-65/255/256 listed directories and '
                       '9-11/99-101/999/1000 invocations a day in the boundary stream (the theorems have no bound); robsddir '
                       'spelled with 1, 254-256, 1023-1025 bytes and with root + "/" + longest name = PATH_MAX - 1 bytes (beyond '
                       'that snprintf truncates and the kernel refuses the path: not modelled); names without newline; '
                       'keep-dir is always <robsddir>/attic because the configuration grammar does not accept another value '
                       '(the theorems hold for every keep-dir string)']
    impl = ctx.build_impl()
    chunk = 2000
    for i in range(0, len(cases), chunk):
        evaluate(ctx, cases[i:i + chunk], res, impl)
    res.traces_validated = res.evaluations
    return res


def extended_search(ctx, res, proof):
    return run(ctx, n=6000)


def replay(ctx, rep):
    case = rep.get('case') or (rep.get('first_disagreements') or [{}])[0].get('case')
    if case is None:
        print(rep)
        return 1
    res = common.Result()
    evaluate(ctx, [case], res)
    B = case.get('B')
    dis = [d for d in res.disagreements if B is None or d['case']['B'] == B]
    orf = [d for d in res.oracle_failures if B is None or d['case']['B'] == B]
    print('case:', case)
    print('disagreements:', dis)
    print('oracle failures:', orf)
    return 1 if (dis or orf) else 0
