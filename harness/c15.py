"""C15 - invocation listing: model/spec vs robsd-ls -m <mode> -C <conf> [-B] (DESIGN.md 7, C15)."""
import glob, hashlib, json, os, shutil, subprocess
from concurrent.futures import ThreadPoolExecutor
import common, iv_common
from common import hexs, unhex

TRANSLATORS = ['t_util']
TRUSTED = ['modelled, not verified: readdir(3)/d_type as delivered by the kernel (names pairwise distinct, no "/" or NUL), '
           'qsort(3) (hypothesis "returns a permutation whose adjacent elements compare <= 0"; proved irrelevant beyond that), '
           'strcmp/snprintf/printf of libc, paths shorter than PATH_MAX (no snprintf truncation), names and root without newline '
           'for the line-level oracle; the configuration loader is exercised (five modes), not modelled; '
           'DT_UNKNOWN answers are produced by the LD_PRELOAD stand-in tools/iv_dtype_preload.c and compared model-vs-'
           'implementation only: such a file system is outside the quantifier (outside_dt_unknown in harness/c15.py), '
           'on every other case the entries are what they really are and the oracle judges; '
           'an unreadable root (opendir failure) is modelled but cannot be produced as uid 0']

DAYS = [b'2024-01-01', b'2024-01-02', b'2023-12-31', b'2024-01-10']
MISC = [b'rel', b'a', b'A', b'a-b', b'a.b', b'a b', b'\xc3\xa9', b'\xff', b'~', b'2024-01-02.', b'2024-01-02.1.1',
        b'2024-01-02x', b'2024-01-0', b'z', b'\x7f', b'\x80', b'\x01', b'tmp', b'attic2', b'atti', b'2024-01-02.01']
HIDDEN = [b'.hidden', b'.2024-01-02.1', b'..x', b'.attic', b'.r']
SIG_RESPELLED = 'B-lists-lock-target-spelled-differently'
LOCKS = ['absent', 'target', 'target', 'target', 'canonical', 'target_nonl', 'target_two', 'target_nul', 'target_nul_after', 'stale',
         'respelled', 'respelled2', 'empty', 'nl_only', 'dirlock', 'nameonly']
SPELL = ['abs', 'abs', 'slash', 'dslash', 'rel', 'dotrel']


def gen_name(rng):
    k = rng.random()
    if k < 0.62:
        d = rng.choice(DAYS[:rng.choice([1, 2, 4])])
        if rng.random() < 0.2:
            return d
        return d + b'.' + str(rng.choice([1, 2, 3, 9, 10, 11, 12, 19, 20, 100])).encode()
    if k < 0.72:
        return b'attic'
    if k < 0.84:
        return rng.choice(HIDDEN)
    return rng.choice(MISC)


def gen_kind(rng, name):
    k = rng.random()
    if name == b'attic':
        return 'dir' if k < 0.8 else rng.choice(['file', 'symdir'])
    if k < 0.62:
        return 'dir'
    if k < 0.76:
        return 'file'
    if k < 0.86:
        return 'symdir'
    if k < 0.91:
        return 'symdangling'
    if k < 0.95:
        return 'fifo'
    return 'unknowndir'


def gen_case(rng):
    n = rng.choice([0, 1, 2, 3, 4, 6, 9, 14, 22])
    ents = {}
    for _ in range(n):
        nm = gen_name(rng)
        if nm not in ents:
            ents[nm] = gen_kind(rng, nm)
    if rng.random() < 0.04:
        # a file system that never fills in d_type (C15_dt_unknown_lists_nothing)
        ents = {k: ('unknowndir' if v == 'dir' else v) for k, v in ents.items()}
    names = list(ents)
    lock = rng.choice(LOCKS)
    target = None
    if names and lock.startswith('target') or lock in ('respelled', 'respelled2', 'nameonly', 'canonical'):
        # mostly a listed directory, sometimes anything
        dirs = [x for x in names if ents[x] == 'dir' and not x.startswith(b'.') and x != b'attic']
        pool = dirs if (dirs and rng.random() < 0.8) else names
        target = rng.choice(pool) if pool else b'2024-01-02.1'
    return {'mode': rng.choice(iv_common.MODES), 'spell': rng.choice(SPELL),
            'entries': [[k.hex(), v] for k, v in ents.items()],
            'lock': lock, 'target': None if target is None else target.hex()}


def lock_bytes(case, rootb, realroot=None):
    k = case['lock']
    t = bytes.fromhex(case['target']) if case.get('target') else b'2024-01-02.1'
    p = rootb + b'/' + t
    if k in ('absent', 'dirlock'):
        return None
    return {
        'target': p + b'\n',
        'canonical': (realroot or rootb) + b'/' + t + b'\n',   # what `robsd -r` stores: the readlink -f path
        'target_nonl': p,
        'target_two': p + b'\nsecond line\n' + rootb + b'/2024-01-01\n',
        'target_nul': rootb + b'/' + t[:1] + b'\x00' + t[1:] + b'\n',
        'target_nul_after': p + b'\n\x00junk',
        'stale': rootb + b'/2020-02-02.7\n',
        'respelled': rootb + b'//' + t + b'\n',
        'respelled2': p + b'/\n',
        'empty': b'',
        'nl_only': b'\n' + p + b'\n',
        'nameonly': t + b'\n',
    }[k]


def make_fixture(case, d):
    """creates d/r (the root), d/src, d/conf; returns (cwd, root string as spelled, root real path)"""
    os.makedirs(d)
    root = os.path.join(d, 'r')
    os.mkdir(root)
    os.mkdir(os.path.join(d, 'src'))
    os.mkdir(os.path.join(d, 'outside'))
    rb = root.encode()
    first_dir = None
    for nh, kind in case['entries']:
        nm = bytes.fromhex(nh)
        p = os.path.join(rb, nm)
        if kind in ('dir', 'unknowndir'):
            os.mkdir(p)
            if first_dir is None:
                first_dir = nm
        elif kind == 'file':
            open(p, 'wb').write(b'x\n')
        elif kind == 'symdir':
            os.symlink(first_dir if first_dir is not None else os.path.join(d, 'outside').encode(), p)
        elif kind == 'symdangling':
            os.symlink(b'nowhere', p)
        elif kind == 'fifo':
            os.mkfifo(p)
    sp = case['spell']
    if sp == 'abs':
        rs = root
    elif sp == 'slash':
        rs = root + '/'
    elif sp == 'dslash':
        rs = d + '//r'
    elif sp == 'rel':
        rs = 'r'
    else:
        rs = './r'
    lb = lock_bytes(case, rs.encode(), os.path.realpath(root).encode())
    if case['lock'] == 'dirlock':
        os.mkdir(os.path.join(root, '.running'))
    elif lb is not None:
        open(os.path.join(root, '.running'), 'wb').write(lb)
    iv_common.write_conf(os.path.join(d, 'conf'), case['mode'], rs, os.path.join(d, 'src'))
    unknown = [bytes.fromhex(nh) for nh, kind in case['entries'] if kind == 'unknowndir']
    if unknown:
        open(os.path.join(d, 'unknown'), 'wb').write(b'\n'.join(unknown) + b'\n')
    return rs, rb, lb, unknown


def run_one(impl, preload, work, idx, case):
    d = os.path.join(work, 'c%d' % idx)
    try:
        rs, rb, lb, unknown = make_fixture(case, d)
        ents = iv_common.scan(rb)
        ents = [(n, 'U' if n in unknown else t) for n, t in ents]
        env = dict(os.environ)
        if unknown:
            env['LD_PRELOAD'] = preload
            env['IV_DTYPE_UNKNOWN_FILE'] = os.path.join(d, 'unknown')
        # which listed directory the lock file denotes (by identity, not by spelling): its printed path
        named = None
        if lb is not None:
            c0 = lb.split(b'\x00', 1)[0]
            if b'\n' in c0:
                first = c0.split(b'\n', 1)[0]
                named = first
                tgt = first if first.startswith(b'/') else os.path.join(d.encode(), first)
                try:
                    for n, t in ents:
                        if t == 'D' and os.path.samefile(os.path.join(rb, n), tgt):
                            named = rs.encode() + b'/' + n
                            break
                except OSError:
                    pass
        obs = []
        for B in (False, True):
            try:
                r = subprocess.run([os.path.join(impl, 'robsd-ls'), '-m', case['mode'], '-C', os.path.join(d, 'conf')]
                                   + (['-B'] if B else []), cwd=d, env=env,
                                   stdout=subprocess.PIPE, stderr=subprocess.PIPE, timeout=20)
                obs.append((r.returncode, r.stdout, r.stderr))
            except subprocess.TimeoutExpired:
                obs.append((-999, b'', b'timeout'))
        return {'root': rs.encode(), 'ents': ents, 'lock': lb, 'obs': obs, 'named': named}
    finally:
        shutil.rmtree(d, ignore_errors=True)


def load_corpus():
    files = sorted(glob.glob(os.path.join(common.VERIF, 'corpus', 'C15', '*.json')))
    if not files:
        raise common.BuildFailure('corpus/C15 is missing or empty: the replays of the known findings cannot run')
    return [json.load(open(p)) for p in files]


OUT_UNKNOWN = 'outside: the file system answers DT_UNKNOWN for a directory of the root'


def outside_dt_unknown(c):
    """C15 quantifies over "all contents of the invocation root ... in every mode": which entries there are and of
    what kind.  Whether readdir(3) reports the kind in d_type is a property of the FILE SYSTEM the root lives on,
    not of its contents (OpenBSD FFS, the only place robsd runs, fills d_type; an NFS export may answer
    DT_UNKNOWN).  A case in which the stand-in tools/iv_dtype_preload.c makes readdir answer DT_UNKNOWN for a
    directory is therefore outside the statement: it is recognised here, on the case, counted, and not judged by
    the oracle.  What robsd-ls does then is a theorem about the model (C15_dt_unknown_lists_nothing) and the
    model-vs-implementation comparison still runs; write-up findings/C15_dt_unknown.md."""
    return any(kind == 'unknowndir' for nh, kind in c['entries'])


def classify(fx, B, rc, out, bd, bd_literal=None):
    """a stable name for the defect class; the verdict itself comes from the extracted oracle"""
    if rc != 0:
        return 'nonzero-exit'
    root = fx['root']
    keep = root + b'/attic'
    types = {root + b'/' + n: (n, t) for n, t in fx['ents']}
    qual = {p for p, (n, t) in types.items() if t == 'D' and not n.startswith(b'.') and p != keep}
    if B and bd is not None:
        qual.discard(bd)
    lines = out.split(b'\n')[:-1] if out.endswith(b'\n') else (out.split(b'\n') if out else [])
    for p in lines:
        if p not in qual:
            if p not in types:
                return 'lists-unknown-path'
            n, t = types[p]
            if B and p == bd:
                return 'B-lists-lock-target' if bd == bd_literal else SIG_RESPELLED
            if n.startswith(b'.'):
                return 'lists-hidden-entry'
            if p == keep:
                return 'lists-keep-dir'
            return 'lists-non-directory-type-' + t
    if len(set(lines)) != len(lines):
        return 'lists-duplicate'
    if set(lines) != qual:
        return 'B-omits-other-than-lock-target' if B else 'omits-qualifying-directory'
    return 'not-strictly-descending'


def evaluate(ctx, cases, res, impl=None):
    impl = impl or ctx.build_impl()
    drv = iv_common.build_iv_driver(ctx)
    preload = iv_common.build_preload(ctx)
    if 'LD_PRELOAD tools/iv_dtype_preload.c (DT_UNKNOWN answers of readdir)' not in ctx.shims_used:
        ctx.shims_used.append('LD_PRELOAD tools/iv_dtype_preload.c (DT_UNKNOWN answers of readdir)')
    work = ctx.mkscratch('c15work')
    with ThreadPoolExecutor(8) as ex:
        fxs = list(ex.map(lambda ic: run_one(impl, preload, work, ic[0], ic[1]), enumerate(cases)))
    qs = []
    for c, fx in zip(cases, fxs):
        root = fx['root']
        keep = root + b'/attic'
        et = [str(len(fx['ents']))] + [x for n, t in fx['ents'] for x in (hexs(n), t)]
        lock = '!' if fx['lock'] is None else hexs(fx['lock'])
        qs.append('bd ' + lock)
        for B, (rc, out, err) in zip((False, True), fx['obs']):
            b = '1' if B else '0'
            qs.append(' '.join(['ls', hexs(root), hexs(keep), b, lock] + et))
            named = '!' if (not B or fx['named'] is None) else hexs(fx['named'])
            qs.append(' '.join(['lsokn', hexs(root), hexs(keep), named, str(rc if rc >= 0 else 999), hexs(out)] + et))
    ans = common.run_driver(drv, qs)
    k = 0
    for c, fx in zip(cases, fxs):
        bdt = ans[k]
        k += 1
        bd = None if bdt == '!' else unhex(bdt)
        res.count('mode=' + c['mode'])
        res.count('lock=' + c['lock'])
        res.count('spell=' + c['spell'])
        res.count('entries=%d' % len(fx['ents']))
        for n, t in fx['ents']:
            res.count('dtype=' + t)
        listed_plain = 0
        for B, (rc, out, err) in zip((False, True), fx['obs']):
            m, ok = ans[k], ans[k + 1]
            k += 2
            res.evaluations += 1
            impl_s = '%d %s' % (rc, hexs(out))
            if not B:
                listed_plain = out.count(b'\n')
            elif rc == 0:
                res.count('B-dropped=%d' % (listed_plain - out.count(b'\n')))
            cc = dict(c)
            cc['B'] = B
            if m != impl_s:
                res.disagreements.append({'case': cc, 'model': m, 'impl': impl_s,
                                          'stderr': err[-200:].decode('latin1')})
            if outside_dt_unknown(c):
                res.count(OUT_UNKNOWN)
                continue
            res.count('judged')
            if ok != '1':
                sig = classify(fx, B, rc, out, fx['named'] if B else None, bd)
                res.oracle_failures.append({
                    'case': cc, 'signature': sig,
                    'what': 'robsd-ls -m %s%s printed a listing that is not exactly the qualifying directories in '
                            'strictly descending order (%s)' % (c['mode'], ' -B' if B else '', sig),
                    'impl': impl_s, 'stderr': err[-200:].decode('latin1')})
        nonlisted = len(fx['ents']) - listed_plain
        if listed_plain >= 2 and nonlisted >= 1:
            res.nontrivial.add(hashlib.sha1(repr((c['entries'], c['lock'], c['target'], c['spell'], c['mode'])).encode()).hexdigest())
    return res


def run(ctx, n=None):
    res = common.Result()
    res.rule = ('roots generated from the entry kinds the property lists (dated directories incl. several per day and '
                '.9/.10/.100 suffixes, prefixes of each other, bytes >= 0x80, files, symlinks to directories, dangling '
                'symlinks, fifos, DT_UNKNOWN answers, hidden entries, attic as directory/file/symlink) x 15 lock-file '
                'states x 5 spellings of robsddir x 5 modes, each run with and without -B; non-trivial = at least two '
                'directories listed and at least one entry not listed; distinct by content hash')
    n = n or ctx.budget(400, 20000)
    cases = load_corpus() + [gen_case(ctx.rng) for _ in range(n)]
    res.samples = cases[:3]
    res.assumptions = ['roots of up to 22 entries in the correspondence (the theorems have no bound); names without newline; '
                       'keep-dir is always <robsddir>/attic because the configuration grammar does not accept another value '
                       '(the theorems hold for every keep-dir string)']
    impl = ctx.build_impl()
    chunk = 2000
    for i in range(0, len(cases), chunk):
        evaluate(ctx, cases[i:i + chunk], res, impl)
    res.traces_validated = res.evaluations
    return res


def extended_search(ctx, res, proof):
    return run(ctx, n=6000)


def replay(ctx, rep):
    case = rep.get('case') or (rep.get('first_disagreements') or [{}])[0].get('case')
    if case is None:
        print(rep)
        return 1
    res = common.Result()
    evaluate(ctx, [case], res)
    B = case.get('B')
    dis = [d for d in res.disagreements if B is None or d['case']['B'] == B]
    orf = [d for d in res.oracle_failures if B is None or d['case']['B'] == B]
    print('case:', case)
    print('disagreements:', dis)
    print('oracle failures:', orf)
    return 1 if (dis or orf) else 0
