/* C12 libFuzzer target: regress-log.c - regress_log_parse, regress_log_peek, regress_log_trim.
 * Input: <flags> <log bytes>
 *   flags bits 0-3: FAILED SKIPPED XFAILED XPASSED, bit 4: NEWLINE
 * The three entry points are called the way their callers do (robsd-regress-log.c, report.c,
 * regress-html.c): parse into an output buffer that may already hold text, peek without one,
 * trim into a buffer that is reset. */
#include "config.h"

#include "c12_fuzz_common.h"

#include "libks/buffer.h"

#include "regress-log.h"

int LLVMFuzzerTestOneInput(const uint8_t *, size_t);

int
LLVMFuzzerTestOneInput(const uint8_t *data, size_t size)
{
	struct c12_part log;
	struct c12_file f;
	struct buffer *out;
	unsigned int flags;
	int np, nk, nt;

	if (size < 1)
		return 0;
	flags = data[0] & 0x1fu;
	log.p = data + 1;
	log.n = size - 1;
	c12_file_open(&f, &log);

	out = buffer_alloc(16);
	if (out == NULL)
		abort();
	if (data[0] & 0x80u)
		buffer_puts(out, "earlier\n", 8);
	np = regress_log_parse(f.path, out, flags);
	nk = regress_log_peek(f.path, flags & 0x0fu);
	if (np < 0 || nk < 0)
		__builtin_trap();	/* a readable file is never a fatal error */
	if ((np > 0) != (nk > 0))
		__builtin_trap();	/* peek says "something would be extracted" exactly when parse extracts */
	if (np == 0 && buffer_get_len(out) != ((data[0] & 0x80u) ? 8 : 0))
		__builtin_trap();	/* nothing extracted: nothing written */

	nt = regress_log_trim(f.path, out);
	if (nt != 1)
		__builtin_trap();
	if (buffer_get_len(out) > log.n + 2)
		__builtin_trap();	/* trimming never adds more than the final newline (and a terminator) */
	buffer_free(out);

	c12_file_close(&f);
	return 0;
}
