"""C17 - names are never reused: models of build_id / build_init / log_id vs the real functions of
util.sh under bash, and run/clean histories through the real canvas + robsd-clean (DESIGN.md 7, C17)."""
import glob, hashlib, json, os, re, shutil, subprocess
from concurrent.futures import ThreadPoolExecutor
import common, iv_common, c16
from common import hexs, unhex

TRANSLATORS = ['t_util']
TRUSTED = ['bash standing in for ksh; GNU find/wc/tr/printf/echo as used by build_id and log_id; date(1) replaced by '
           'tools/shims/date (fixed day); the histories run the real canvas and robsd-clean with the stand-ins '
           'tools/shims/{date,stat,find,chflags,logname,sendmail,robsd-clean} on PATH and the robsd-wait stub; '
           'the glob "PREFIX*" is modelled as a prefix test (step names over letters, digits, . _ - / only); '
           'numeric suffixes below 2^63 (the shell compares them with test -gt; the model uses unbounded numbers); '
           'the build_id oracle (named after the date, carried by no entry) is applied to every generated root, the '
           'log_id oracle to build directories written by attempts and by the environment changes C17_log_env_fresh allows; '
           'a case in which a log is DELETED or a name like a suffixed log is put there by something else is outside the '
           'quantifier (sequences of attempts; nothing in robsd deletes a log): it is recognised by a predicate on the '
           'case, counted as outside, compared model-vs-implementation, and judged only for the verdicts that do not '
           'depend on the name being fresh; '
           'end-to-end lanes: build_id+build_init on trees with file contents (whole-tree comparison), lock_acquire on '
           'lock files without NUL bytes, log_id interleaved with entries appearing/disappearing - the freshness oracle is '
           'applied to the interleavings whose additions/deletions the generator draws from names without ".log" '
           '(the guard of C17_log_env_fresh, by construction of the generator)']

RUNNER = os.path.join(common.VERIF, 'harness', 'iv_c17_run.sh')
SIG_D10 = 'build-id-collision-after-gap'
SIG_D23 = 'build-id-reissues-cleaned-name'
SIG_TEN = 'name-reissued-beyond-nine-a-day'
OUT_LOGDEL = 'outside: a log (an entry named *.log*) is deleted - nothing in robsd deletes a log'
OUT_LOGPUT = 'outside: an entry named like a suffixed log (STEM.log.k) is put there by something other than an attempt'
DATE = '2024-03-05'
OTHER_DAYS = ['2024-03-04', '2024-03-06', '2024-02-29', '2023-03-05']
NAMES = ['a', 'b', 'a.log', 'a/b', 'a-b', 'bin/ksh', 'usr.bin/make', '-n', '-e', '-nE', '-x', '-', 'a_b', '0', '1.2',
         'kernel', 'a.log.1', 'sys/kern', 'A', 'env', 'e']
STEPS = [1, 2, 3, 4, 5, 6, 7, 9, 10, 11, 12, 99, 100, 101, 999, 1000, 1001]
# ---- boundary classes (sizes / shapes a fixed buffer, a narrowed integer, a width assumption or an off-by-one trips over) ----
# invocations of the day / directories of the root: digits of the suffix (9/10, 99/100, 999/1000), growth steps of a vector
PER_DAY_B = [15, 16, 17, 31, 32, 33, 63, 64, 65, 99, 100, 101, 255, 256]
PER_DAY_BIG = [999, 1000]
# suffixes in use next to the integer limits: build_id compares them with `[ -gt ]` and prints $((c + 1)).  bash computes in
# int64: 2^63 - 2 is the largest suffix whose successor it can print; from 2^63 - 1 on `$((c + 1))` wraps in bash (and ksh93
# computes in floating point): outside what bash can stand in for (TRUSTED: suffixes below 2^63), not generated.
BIG_SUFFIX = [2 ** 31 - 2, 2 ** 31 - 1, 2 ** 31, 2 ** 32 - 2, 2 ** 32 - 1, 2 ** 32, 2 ** 63 - 2]
# existing logs of one step: width of the appended number
LOGS_B = [1, 9, 10, 11, 99, 100, 101, 999, 1000]
# step numbers around the width of %03d; the model takes the step as `nat` (unary once extracted): 100000 is the cap
STEPS_B = [0, 65535, 65536, 99999, 100000]
# length of a step name: NNN-<name>.log is 8 bytes longer, NAME_MAX is 255.  (240, 245, 247) -> log names of 248, 253, 255
# bytes; the name with the suffix ".1" of the 245-byte step is exactly 255 bytes.  One byte more and tee cannot create the
# log at all (ENAMETOOLONG): the attempt leaves nothing behind and there is no name to judge - capped there, with at most
# as many attempts as still give names of NAME_MAX bytes.
LONG_NAMES = [(240, 12), (245, 10), (247, 1)]
NAMES_B = ['a b', 'a  b', 'a.b', 'a-', 'a.', 'a.log.', 'a/', '/a', 'a//b', 'a.lo', 'A.LOG']
ROOT_LENS = [254, 255, 256, 1023, 1024, 1025, 4040]


def expand(c):
    """entries of a case: the explicit ones plus the compact form `bulk` = [[prefix hex, lo, hi, kind], ...] standing for
    prefix + decimal(k), lo <= k <= hi (keeps corpus files with a thousand invocations or logs small)"""
    ents = [list(e) for e in c.get('entries', [])]
    seen = {e[0] for e in ents}
    for ph, lo, hi, kind in c.get('bulk') or []:
        for k in range(lo, hi + 1):
            h = ph + str(k).encode().hex()
            if h not in seen:
                seen.add(h)
                ents.append([h, kind])
    return ents


def padded(d, leaf, L, post=''):
    """a directory path below d ending in `leaf` whose spelling, with `post` appended, has exactly L bytes"""
    need = L - len(d) - 1 - len(leaf) - 1 - len(post)
    if need < 1:
        raise common.BuildFailure('C17 case: rootlen %r is shorter than the scratch directory allows' % L)
    return os.path.join(d, '/'.join(iv_common.root_components(need)), leaf)


def env_with_shims(ctx, date=DATE):
    env = dict(os.environ)
    env['PATH'] = iv_common.SHIMS + ':' + env.get('PATH', '/usr/bin:/bin')
    env['VERIF_FAKE_DATE'] = date
    for s in ('tools/shims/date',):
        if s not in ctx.shims_used:
            ctx.shims_used.append(s)
    return env


# ---- generators ----------------------------------------------------------------------

def inv_content(rng, rel):
    """a few entries inside an invocation directory (none matching a date)"""
    ents = [[rel + '/step.csv', 'F'], [rel + '/robsd.log', 'F']]
    if rng.random() < 0.5:
        ents += [[rel + '/tmp', 'D']]
    if rng.random() < 0.4:
        ents += [[rel + '/rel', 'D'], [rel + '/rel/index.txt', 'F']]
    if rng.random() < 0.5:
        ents += [[rel + '/001-a.log', 'F']]
    return ents


def gen_bid_many(rng):
    """a day with 15 ... 1000 invocations in compact form: all of them, the oldest cleaned away, the newest missing, a gap"""
    m = rng.choice(PER_DAY_B if rng.random() < 0.93 else PER_DAY_BIG)
    pre = (DATE + '.').encode().hex()
    shape = rng.choice(['full', 'full', 'oldest', 'newest', 'gap'])
    if shape == 'full':
        bulk = [[pre, 1, m, 'D']]
    elif shape == 'oldest':
        bulk = [[pre, rng.choice([2, 9, 10, 11, m - 1, m]), m, 'D']]
    elif shape == 'newest':
        bulk = [[pre, 1, m - 1, 'D']]
    else:
        g = rng.choice([1, 2, 9, 10, m - 1])
        bulk = [[pre, 1, g - 1, 'D'], [pre, g + 1, m, 'D']]
    ents = []
    if rng.random() < 0.5:
        bulk.append([(rng.choice(OTHER_DAYS) + '.').encode().hex(), 1, rng.choice([1, 16, 17, 101]), 'D'])
    if rng.random() < 0.3:
        ents.append([('%s.%d' % (DATE, m + rng.choice([1, 2]))).encode().hex(), rng.choice(['F', 'L'])])
    if rng.random() < 0.3:
        ents += [[b'attic'.hex(), 'D'], [b'attic/2024/03/05.1'.hex(), 'D']]
    c = {'kind': 'bid', 'stream': 'reach', 'rootname': 'r', 'spell': rng.choice(['abs', 'abs', 'slash']), 'entries': ents,
         'bulk': bulk}
    if rng.random() < 0.15:
        c['rootlen'] = rng.choice(ROOT_LENS)
    return c


def gen_bid(rng):
    if rng.random() < 0.05:
        return gen_bid_many(rng)
    stream = 'reach' if rng.random() < 0.6 else 'wild'
    ents = []
    m = rng.choice([0, 1, 2, 3, 4, 5, 9, 10, 11, 12, 14])
    ks = list(range(1, m + 1))
    mode = rng.choice(['full', 'full', 'oldest', 'oldest', 'lexsmallest', 'random', 'newest'])
    if mode == 'oldest' and ks:
        ks = ks[rng.randint(1, len(ks)):]
    elif mode == 'lexsmallest' and ks:
        ks = sorted(ks, key=lambda k: ('%s.%d' % (DATE, k)).encode(), reverse=True)[:rng.randint(0, len(ks))]
    elif mode == 'random':
        ks = [k for k in ks if rng.random() < 0.6]
    elif mode == 'newest' and ks:
        ks = ks[:rng.randint(0, len(ks) - 1)]
    for k in ks:
        n = '%s.%d' % (DATE, k)
        ents.append([n, 'D'])
        ents += inv_content(rng, n)
    for d in OTHER_DAYS:
        if rng.random() < 0.4:
            for k in range(1, rng.randint(1, 3) + 1):
                n = '%s.%d' % (d, k)
                ents.append([n, 'D'])
                ents += inv_content(rng, n)
    if rng.random() < 0.5:
        ents += [['attic', 'D'], ['attic/2024', 'D'], ['attic/2024/03', 'D']]
        for k in range(1, rng.randint(1, 4) + 1):
            ents += [['attic/2024/03/05.%d' % k, 'D'], ['attic/2024/03/05.%d/report' % k, 'F']]
    if rng.random() < 0.3:
        ents.append(['.running', 'F'])
    rootname = 'r'
    spell = 'abs'
    if stream == 'wild':
        for _ in range(rng.randint(1, 4)):
            w = rng.choice(['file', 'link', 'nested', 'nl', 'bare', 'x', 'hidden', 'nestedfile', 'deep', 'zero', 'junk', 'dots',
                            'big', 'empty', 'limit', 'long'])
            k = rng.choice([1, 2, 3, len(ks) + 1, len(ks) + 2, m + 1])
            if w == 'file':
                ents.append(['%s.%d' % (DATE, k), 'F'])
            elif w == 'link':
                ents.append(['%s.%d' % (DATE, k), 'L'])
            elif w == 'nested' and ks:
                ents.append(['%s.%d/%s-snap' % (DATE, ks[0], DATE), 'D'])
            elif w == 'nestedfile' and ks:
                ents.append(['%s.%d/%s.9' % (DATE, ks[0], DATE), 'F'])
            elif w == 'deep':
                ents += [['deep', 'D'], ['deep/er', 'D'], ['deep/er/%s.1' % DATE, 'D']]
            elif w == 'nl':
                ents.append(['%s\nnl%d' % (DATE, k), 'D'])
            elif w == 'bare':
                ents.append([DATE, 'D'])
            elif w == 'x':
                ents.append([DATE + 'x', 'D'])
            elif w == 'hidden':
                ents.append(['.%s.%d' % (DATE, k), 'D'])
            elif w == 'zero':                       # a leading zero: skipped by the case pattern 0*
                ents.append(['%s.0%d' % (DATE, rng.choice([7, 8, 9, 19])), rng.choice(['D', 'F'])])
            elif w == 'junk':                       # a suffix that is not a number
                ents.append(['%s.%s' % (DATE, rng.choice(['x', '1x', 'x1', '1-2', '1 2', '+3', '-4', '3e1'])), 'D'])
            elif w == 'dots':                       # what follows the LAST dot counts
                ents.append(['%s.%s' % (DATE, rng.choice(['1.%d' % (m + 3), '%d.x' % (m + 3), '2.07', 'a.b.%d' % (m + 2)])), 'D'])
            elif w == 'big':
                ents.append(['%s.%d' % (DATE, rng.choice([99, 100, 12345, 10 ** 12, 2 ** 62])), rng.choice(['D', 'D', 'F', 'L'])])
            elif w == 'empty':
                ents.append(['%s.' % DATE, 'D'])
            elif w == 'limit':                      # a suffix next to 2^31 / 2^32 / 2^63
                ents.append(['%s.%d' % (DATE, rng.choice(BIG_SUFFIX + [0])), rng.choice(['D', 'D', 'D', 'F'])])   # DATE.0: skipped (0*)
            elif w == 'long':                       # names of NAME_MAX bytes that start like an invocation of the day
                ents.append([rng.choice([DATE + '.' + 'x' * (iv_common.NAME_MAX - 11), DATE + 'x' * (iv_common.NAME_MAX - 10),
                                         DATE + '.1.' + 'x' * (iv_common.NAME_MAX - 13),
                                         DATE + '.' + '0' * (iv_common.NAME_MAX - 12) + '7']), rng.choice(['D', 'F'])])
        if rng.random() < 0.25:
            rootname = DATE + '-root'
        if rng.random() < 0.25:
            spell = 'slash'
    seen = set()
    out = []
    for p, k in ents:
        if p not in seen:
            seen.add(p)
            out.append([p.encode().hex(), k])
    c = {'kind': 'bid', 'stream': stream, 'rootname': rootname, 'spell': spell, 'entries': out}
    if rng.random() < 0.04:
        c['rootlen'] = rng.choice(ROOT_LENS)
    return c


def gen_binit(rng):
    pool = ['tmp', 'robsd.log', 'step.csv', 'report', '001-a.log', '001-a.log.1', 'rel', 'comment', 'stat.csv', 'tags']
    exists = rng.random() < 0.75
    names = []
    if exists:
        for n in pool:
            if rng.random() < 0.4:
                names.append([n.encode().hex(), 'D' if n in ('tmp', 'rel') else 'F'])
    return {'kind': 'binit', 'exists': exists, 'entries': names}


def log_stem(step, name):
    return '%03d-%s.log' % (step, name.replace('/', '-'))


def gen_log_boundary(rng):
    """attempts of a step that already has 1 ... 1000 logs (STEM.log, STEM.log.1 ... in compact form), of steps whose
    name makes the log name 248 ... 255 bytes long, of names with blanks / separators at either end, of step numbers
    around the width of %03d and at the cap of the model"""
    ents = [['tmp', 'D'], ['robsd.log', 'F'], ['step.csv', 'F']]
    bulk = []
    w = rng.choice(['logs', 'logs', 'long', 'names', 'steps'])
    natt = rng.choice([1, 2, 3])
    if w == 'logs':
        s_, n_ = rng.choice(STEPS), rng.choice(NAMES[:8] + NAMES_B[:3])
        if re.fullmatch(r'-[neE]+', n_):
            n_ = 'a'
        k = rng.choice(LOGS_B if rng.random() < 0.9 else LOGS_B[:7])
        stem = log_stem(s_, n_)
        ents.append([stem, 'F'])
        if k > 1:
            bulk.append([(stem + '.').encode().hex(), 1, k - 1, 'F'])
        if rng.random() < 0.4:
            # a second step whose stem extends this one (find -name "STEM*" counts both)
            ents.append([log_stem(s_, n_ + '.log'), 'F'])
        atts = [[s_, n_]] * natt
    elif w == 'long':
        L, most = rng.choice(LONG_NAMES)
        n_ = rng.choice(['n' * L, ('u/' * L)[:L - 1] + 'x', 'n' * (L - 4) + '.log'])
        s_ = rng.choice(STEPS[:12])
        atts = [[s_, n_]] * min(most, rng.choice([1, 2, 3, 10, 12]))
    elif w == 'names':
        pairs = [(rng.choice(STEPS[:6]), n_) for n_ in rng.sample(NAMES_B, 3)]
        atts = [list(rng.choice(pairs)) for _ in range(rng.choice([2, 3, 5, 8]))]
    else:
        s_ = rng.choice(STEPS_B)
        atts = [[s_, rng.choice(['a', 'kernel', 'a/b'])]] * natt + [[s_ + 1, 'a']]
    return {'kind': 'log', 'stream': 'reach', 'entries': [[p_.encode().hex(), k] for p_, k in ents], 'bulk': bulk,
            'attempts': [[s_, n_.encode().hex()] for s_, n_ in atts]}


def gen_log(rng):
    if rng.random() < 0.07:
        return gen_log_boundary(rng)
    stream = 'reach' if rng.random() < 0.6 else 'wild'
    ents = [['tmp', 'D'], ['robsd.log', 'F'], ['step.csv', 'F']]
    for n, k in [('report', 'F'), ('comment', 'F'), ('tags', 'F'), ('stat.csv', 'F'), ('src.diff.1', 'F'),
                 ('rel', 'D'), ('rel/index.txt', 'F'), ('tmp/step-exec.Ab12', 'F')]:
        if rng.random() < 0.3 and (not n.startswith('rel/') or ['rel', 'D'] in ents):
            ents.append([n, k])
    nn = rng.choice([1, 1, 2, 3, 4])
    names = rng.sample(NAMES, nn)
    if stream == 'reach':
        steps = rng.sample(STEPS, nn)
    else:
        steps = [rng.choice(STEPS[:4]) for _ in range(nn)]   # the same number under different names
    pairs = list(zip(steps, names))
    atts = [list(rng.choice(pairs)) for _ in range(rng.choice([1, 2, 3, 5, 8, 12]))]
    if stream == 'wild':
        for _ in range(rng.randint(1, 3)):
            s, n = rng.choice(pairs)
            stem = '%03d-%s.log' % (s, n.replace('/', '-') if not re.fullmatch(r'-[neE]+', n) else '')
            w = rng.choice(['gap', 'nested', 'x', 'dir', 'nl', 'other'])
            if w == 'gap':
                ents += [[stem, 'F'], [stem + '.%d' % rng.choice([2, 3, 5]), 'F']]
            elif w == 'nested':
                ents.append(['tmp/' + stem + '.junk', 'F'])
            elif w == 'x':
                ents.append([stem + 'x', 'F'])
            elif w == 'dir':
                ents.append([stem + '.1', 'D'])
            elif w == 'nl':
                ents.append([stem + '\nz', 'F'])
            else:
                ents.append(['%03d-%s.log' % (s + 1, 'zz'), 'F'])
    seen = set()
    out = []
    for p, k in ents:
        if p not in seen:
            seen.add(p)
            out.append([p.encode().hex(), k])
    return {'kind': 'log', 'stream': stream, 'entries': out, 'attempts': [[s, n.encode().hex()] for s, n in atts]}


def gen_newinv(rng):
    c = gen_bid(rng)
    c['kind'] = 'newinv'
    return c


LOCKS = ['absent', 'own', 'own', 'other', 'other', 'empty', 'own_nonl', 'own_two_nl', 'nl_only', 'other_prefix', 'own_second_line',
         'other_nonl', 'same_name_elsewhere', 'own_respelled', 'own_parent']
# more shapes: CRLF, a trailing slash, more than one 4096-byte block (owned by another / own path first), the own path cut
# by one byte (a PREFIX of it: DATE.1 for DATE.10), the own path extended by a digit (DATE.100 for DATE.10)
LOCKS_B = ['own_crlf', 'own_slash', 'other_long', 'own_long', 'own_cut', 'own_digit', 'own_long_line']


def gen_lock(rng):
    c = {'kind': 'lock', 'lock': rng.choice(LOCKS + (LOCKS_B if rng.random() < 0.4 else [])),
         'id': '%s.%d' % (DATE, rng.choice([1, 2, 10, 10, 100, 1000, 2 ** 31])),
         'spell': rng.choice(['abs', 'abs', 'slash'])}
    if rng.random() < 0.1:
        c['rootlen'] = rng.choice(ROOT_LENS)
    return c


SAFE_PUT = [('report', 'F'), ('comment', 'F'), ('tags', 'F'), ('src.diff.1', 'F'), ('rel', 'D'), ('tmp/x.tmp', 'F'),
            ('tmp/step-exec.Ab12', 'F'), ('stat.csv', 'F'), ('tmp/sub', 'D'), ('001-a.logx', 'F')]
SAFE_DEL = ['report', 'comment', 'tags', 'src.diff.1', 'rel', 'tmp/x.tmp', 'tmp/step-exec.Ab12', 'stat.csv', 'tmp/sub', 'nothing']


def gen_logenv(rng):
    stream = 'guarded' if rng.random() < 0.65 else 'wild'
    ents = [['tmp', 'D'], ['robsd.log', 'F'], ['step.csv', 'F']]
    nn = rng.choice([1, 2, 3])
    pairs = list(zip(rng.sample(STEPS, nn), rng.sample(NAMES, nn)))
    ops = []
    have = {'tmp', 'robsd.log', 'step.csv'}
    made = []
    for _ in range(rng.choice([3, 5, 8, 12])):
        r = rng.random()
        if r < 0.55:
            s_, n_ = rng.choice(pairs)
            ops.append(['A', s_, n_.encode().hex()])
            made.append((s_, n_))
        elif r < 0.8:
            pool = [x for x in SAFE_PUT if x[0] not in have and ('/' not in x[0] or x[0].split('/')[0] in have)]
            if stream == 'wild' and made and rng.random() < 0.5:
                s_, n_ = rng.choice(made)
                stem = '%03d-%s.log' % (s_, n_.replace('/', '-') if not re.fullmatch(r'-[neE]+', n_) else '')
                pool = [x for x in [('tmp/' + stem + '.junk', 'F'), (stem + '.%d' % rng.choice([1, 2, 5]), 'F'), (stem + 'x', 'F')]
                        if x[0] not in have]
            if pool:
                pth, k = rng.choice(pool)
                ops.append(['P', k, pth.encode().hex()])
                have.add(pth)
        else:
            if stream == 'wild' and rng.random() < 0.6:
                cand = sorted(x for x in have if '.log' in x and x != 'robsd.log')
                if made:
                    s_, n_ = rng.choice(made)
                    cand.append('%03d-%s.log' % (s_, n_.replace('/', '-') if not re.fullmatch(r'-[neE]+', n_) else ''))
                pth = rng.choice(cand) if cand else 'nothing'
            else:
                pth = rng.choice(SAFE_DEL)
            ops.append(['X', pth.encode().hex()])
            have = {x for x in have if x != pth and not x.startswith(pth + '/')}
    return {'kind': 'logenv', 'stream': stream, 'entries': [[p_.encode().hex(), k] for p_, k in ents], 'ops': ops}


def gen_hist(rng):
    """operations on a real canvas root: run = a complete canvas -d invocation (which also cleans with the
    configured keep), clean = robsd-clean -m canvas <count>"""
    keep = rng.choice([0, 1, 1, 2, 3])
    ops = []
    day = 0
    for _ in range(rng.choice([5, 7, 9, 12, 13])):
        r = rng.random()
        if r < 0.78:
            ops.append(['run', day])
        elif r < 0.93:
            ops.append(['clean', rng.choice([1, 2, 3])])
        else:
            day += 1
            ops.append(['run', day])
    return {'kind': 'hist', 'keep': keep, 'attic': rng.random() < 0.7, 'ops': ops}


# ---- running the implementation -----------------------------------------------------------

def materialize(entries, top):
    """creates the entries of a case; one the file system refuses because its path would exceed PATH_MAX (a long root plus a
    long name) is left out - the model is told the tree that EXISTS (walk_tree), so nothing is assumed about it"""
    import errno
    for ph, k in entries:
        p = os.path.join(top, bytes.fromhex(ph))
        try:
            os.makedirs(os.path.dirname(p), exist_ok=True)
            if k == 'D':
                os.makedirs(p, exist_ok=True)
            elif k == 'F':
                open(p, 'wb').write(b'old ' + bytes.fromhex(ph)[-20:] + b'\n')
            elif k == 'L':
                os.symlink(b'.', p)
            else:
                os.mkfifo(p)
        except OSError as e:
            if e.errno != errno.ENAMETOOLONG:
                raise


def walk_tree(top):
    res = []
    for d, dirs, files in os.walk(top):
        for n in sorted(dirs + files):
            p = os.path.join(d, n)
            rel = os.path.relpath(p, top)
            if os.path.islink(p):
                k = 'L'
            elif os.path.isdir(p):
                k = 'D'
            elif os.path.isfile(p):
                k = 'F'
            else:
                k = 'O'
            res.append((rel, k))
    return res


def bash(repo, env, args, cwd=None):
    try:
        r = subprocess.run(['bash', RUNNER, repo] + args, env=env, cwd=cwd, stdout=subprocess.PIPE,
                           stderr=subprocess.PIPE, timeout=60)
        return r.returncode, r.stdout, r.stderr
    except subprocess.TimeoutExpired:
        return -999, b'', b'timeout'


def run_case(ctx, impl, env, work, idx, c):
    d = os.path.join(work, 'c%d' % idx)
    os.makedirs(d)
    try:
        if c['kind'] == 'bid':
            post = '/' if c['spell'] == 'slash' else ''
            root = (padded(d, c['rootname'], c['rootlen'], post) if c.get('rootlen') else os.path.join(d, c['rootname'])).encode()
            os.makedirs(root)
            materialize(expand(c), root)
            start = root + post.encode()
            tree = walk_tree(root)
            rc, out, err = bash(common.REPO, env, ['bid', start])
            return {'start': start, 'base': c['rootname'].encode(), 'tree': tree, 'rc': rc,
                    'out': out[:-1] if out.endswith(b'\n') else out, 'err': err}
        if c['kind'] == 'binit':
            b = os.path.join(d, 'b').encode()
            if c['exists']:
                os.mkdir(b)
                materialize(c['entries'], b)
            before = [n for n, k in walk_tree(b) if b'/' not in n] if c['exists'] else []
            snap = iv_common.snapshot(b) if c['exists'] else {}
            rc, out, err = bash(common.REPO, env, ['binit', b])
            after = sorted(os.listdir(b)) if os.path.isdir(b) else None
            snap2 = iv_common.snapshot(b) if os.path.isdir(b) else {}
            changed = sorted(r for r, v in snap.items() if snap2.get(r) != v)
            return {'before': before, 'after': after, 'rc': rc, 'out': out, 'err': err, 'changed': changed}
        if c['kind'] == 'log':
            b = os.path.join(d, 'b').encode()
            os.mkdir(b)
            materialize(expand(c), b)
            tree = walk_tree(b)
            snap = iv_common.snapshot(b)
            args = []
            for s, nh in c['attempts']:
                args += [str(s), bytes.fromhex(nh)]
            rc, out, err = bash(common.REPO, env, ['logseq', b] + args)
            return {'start': b, 'base': b'b', 'tree': tree, 'rc': rc, 'out': out, 'err': err,
                    'snap_before': snap, 'snap_after': iv_common.snapshot(b)}
        if c['kind'] == 'newinv':
            post = '/' if c['spell'] == 'slash' else ''
            root = (padded(d, c['rootname'], c['rootlen'], post) if c.get('rootlen') else os.path.join(d, c['rootname'])).encode()
            os.makedirs(root)
            materialize(expand(c), root)
            start = root + post.encode()
            before = iv_common.snapshot(root)
            rc, out, err = bash(common.REPO, env, ['newinv', start])
            lines = out.split(b'\n')
            rcm = re.search(rb'rc=(\d+)', lines[-2] if len(lines) >= 2 else b'')
            return {'start': start, 'base': c['rootname'].encode(), 'before': before, 'after': iv_common.snapshot(root),
                    'id': b'\n'.join(lines[:-2]), 'rc': int(rcm.group(1)) if rcm else -1, 'err': err}
        if c['kind'] == 'lock':
            post = '/' if c['spell'] == 'slash' else ''
            root = padded(d, 'root', c['rootlen'], post) if c.get('rootlen') else os.path.join(d, 'root')
            os.makedirs(root)
            rs = root + post
            bd = '%s/%s' % (rs, c['id'])
            other = '%s/%s' % (rs, '2024-03-04.7')
            content = {'absent': None, 'own': bd + '\n', 'other': other + '\n', 'empty': '', 'own_nonl': bd,
                       'own_two_nl': bd + '\n\n', 'nl_only': '\n', 'other_prefix': bd + 'x\n',
                       'own_second_line': bd + '\nsecond\n', 'other_nonl': other,
                       'same_name_elsewhere': '/elsewhere/%s\n' % c['id'], 'own_respelled': '%s//%s\n' % (rs.rstrip('/'), c['id']),
                       'own_parent': rs + '\n',
                       'own_crlf': bd + '\r\n', 'own_slash': bd + '/\n', 'other_long': other + '\n' + 'x' * 5000 + '\n',
                       'own_long': bd + '\n' + 'x' * 5000 + '\n', 'own_cut': bd[:-1] + '\n', 'own_digit': bd + '0\n',
                       'own_long_line': bd + 'x' * 5000 + '\n'}[c['lock']]
            if content is not None:
                open(os.path.join(root, '.running'), 'w').write(content)
            rc, out, err = bash(common.REPO, env, ['lockacq', rs, bd])
            rcm = re.search(rb'rc=(\d+)', out)
            lp = os.path.join(root, '.running')
            return {'bd': bd.encode(), 'lock': None if content is None else content.encode(),
                    'rc': int(rcm.group(1)) if rcm else -1, 'after': open(lp, 'rb').read() if os.path.exists(lp) else None,
                    'err': err}
        if c['kind'] == 'logenv':
            b = os.path.join(d, 'b').encode()
            os.mkdir(b)
            materialize(c['entries'], b)
            tree = walk_tree(b)
            snap = iv_common.snapshot(b)
            args = []
            for o in c['ops']:
                args += [o[0]] + [(bytes.fromhex(x) if i == len(o) - 2 else str(x)) for i, x in enumerate(o[1:])]
            rc, out, err = bash(common.REPO, env, ['logenv', b] + args)
            return {'start': b, 'base': b'b', 'tree': tree, 'rc': rc, 'out': out, 'err': err,
                    'snap_before': snap, 'snap_after': iv_common.snapshot(b)}
        if c['kind'] == 'hist':
            return run_hist(ctx, impl, d, c)
    finally:
        shutil.rmtree(d, ignore_errors=True)


def attic_dirs(root):
    """directories below <root>/attic, relative"""
    a = os.path.join(root, 'attic')
    return sorted(os.path.relpath(os.path.join(dp, n), a) for dp, dn, fn in os.walk(a) for n in dn)


def run_hist(ctx, impl, d, c):
    root = os.path.join(d, 'root')
    os.mkdir(root)
    tmp = os.path.join(d, 'tmp')
    os.mkdir(tmp)
    conf = os.path.join(d, 'conf')
    open(conf, 'w').write('canvas-name "test"\ncanvas-dir "%s"\nkeep %d\nkeep-attic %s\n'
                          'step "a" command { "sh" "-c" "echo step-a" }\n'
                          % (root, c['keep'], 'yes' if c['attic'] else 'no'))
    trace = []
    for op, arg in c['ops']:
        before = sorted(n for n in os.listdir(root) if not n.startswith('.') and n != 'attic')
        if op == 'run':
            date = '2024-03-%02d' % (5 + arg)
            env = env_with_shims(ctx, date)
            env.update({'EXECDIR': impl, 'ROBSDCLEAN': os.path.join(iv_common.SHIMS, 'robsd-clean'), 'TMPDIR': tmp})
            try:
                r = subprocess.run(['bash', os.path.join(impl, 'canvas'), '-d', '-C', conf], env=env, cwd=d,
                                   stdout=subprocess.PIPE, stderr=subprocess.STDOUT, timeout=120)
                out, rc = r.stdout.decode('latin1'), r.returncode
            except subprocess.TimeoutExpired:
                out, rc = 'timeout', -999
            m = re.search(r'using directory (\S+) at step (\d+)', out)
            used = os.path.basename(m.group(1)) if m else None
            after = sorted(n for n in os.listdir(root) if not n.startswith('.') and n != 'attic')
            trace.append({'op': 'run', 'date': date, 'before': before, 'used': used, 'rc': rc, 'after': after,
                          'tail': out[-300:], 'attic': attic_dirs(root)})
        else:
            env = env_with_shims(ctx, DATE)
            env.update({'EXECDIR': impl, 'TMPDIR': tmp})
            try:
                r = subprocess.run(['bash', os.path.join(impl, 'robsd-clean'), '-m', 'canvas', '-C', conf, str(arg)],
                                   env=env, cwd=d, stdout=subprocess.PIPE, stderr=subprocess.STDOUT, timeout=120)
                out, rc = r.stdout.decode('latin1'), r.returncode
            except subprocess.TimeoutExpired:
                out, rc = 'timeout', -999
            after = sorted(n for n in os.listdir(root) if not n.startswith('.') and n != 'attic')
            trace.append({'op': 'clean', 'before': before, 'rc': rc, 'after': after, 'tail': out[-300:], 'attic': attic_dirs(root)})
    return {'trace': trace}


def tree_toks(tree):
    return [str(len(tree))] + [x for p, k in tree for x in (k, hexs(p))]


def load_corpus():
    files = sorted(glob.glob(os.path.join(common.VERIF, 'corpus', 'C17', '*.json')))
    if not files:
        raise common.BuildFailure('corpus/C17 is missing or empty: the replays of the known and fixed findings cannot run')
    return [json.load(open(p)) for p in files]


OUT_LOGINV = ('outside: the build directory holds a suffixed log STEM.log.k without k entries named STEM.log* - no sequence of '
              'attempts leaves it that way (log_inv, the hypothesis of C17_log_id_fresh, does not hold)')


def log_inv_holds(tree):
    """NameSpec.log_inv on what find sees: every top-level entry named X.log.<k> has k below the number of lines
    `find -name "X.log*"` prints (a path with a newline prints more than one line)"""
    for p, k in tree:
        if b'/' in p:
            continue
        m = re.fullmatch(rb'(.*\.log)\.(0|[1-9]\d*)', p, re.S)
        if not m:
            continue
        stem = m.group(1)
        lines = sum(1 + q.count(b'\n') for q, _ in tree if os.path.basename(q).startswith(stem))
        if int(m.group(2)) >= lines:
            return False
    return True


def logenv_outside(c):
    """C17's second sentence quantifies over sequences of ATTEMPTS.  C17_log_env_fresh extends it to a build directory
    that also changes otherwise, as long as no entry whose name contains ".log" disappears (robsd never deletes a
    log; the one path that does is the C16 known finding clean-lock-spelled-differently, which strips the running
    directory) and nothing else creates a top-level name STEM.log.k.  A case doing one of the two is outside the
    property: this predicate, on the operations of the case alone, says which."""
    have = {bytes.fromhex(p) for p, k in expand(c)}
    made = 0
    for op in c['ops']:
        if op[0] == 'A':
            made += 1
            have.add(b'attempt-%d.log' % made)        # whatever its name is, it is a log
        elif op[0] == 'P':
            pth = bytes.fromhex(op[2])
            if b'/' not in pth and re.search(rb'\.log\.\d+$', pth):
                return OUT_LOGPUT
            have.add(pth)
        else:
            pth = bytes.fromhex(op[1])
            gone = {x for x in have if x == pth or x.startswith(pth + b'/')}
            if any(b'.log' in os.path.basename(x) for x in gone) or b'.log' in os.path.basename(pth):
                return OUT_LOGDEL
            have -= gone
    return None


def has_gap(tree, date, name):
    """the colliding name is DATE.k and some DATE.j with j < k is not a directory of the root"""
    m = re.fullmatch(re.escape(date.encode()) + rb'\.(\d+)', name)
    if not m:
        return False
    k = int(m.group(1))
    dirs = {p for p, kind in tree if kind == 'D' and b'/' not in p}
    return any((date + '.%d' % j).encode() not in dirs for j in range(1, k))


def classes_of(c, o):
    """the boundary classes a case belongs to (printed into the input distribution as `class: ...`)"""
    out = []
    kind = c['kind']
    if kind in ('bid', 'newinv'):
        tree = o['tree'] if kind == 'bid' else [(p_, v[0].upper()) for p_, v in o['before'].items()]
        top = [(p_, k) for p_, k in tree if b'/' not in p_]
        today = []
        for p_, k in top:
            m = re.fullmatch(re.escape(DATE.encode()) + rb'\.([1-9]\d*)', p_)
            if m and k == 'D':
                today.append(int(m.group(1)))
            if m and int(m.group(1)) in BIG_SUFFIX:
                out.append('suffix in use=%s' % m.group(1).decode())
            if len(p_) == iv_common.NAME_MAX:
                out.append('root entry name of NAME_MAX bytes')
            if p_ == (DATE + '.0').encode():
                out.append('suffix in use=0')
        if len(today) in PER_DAY_B + PER_DAY_BIG + [9, 10, 11]:
            out.append('invocations of the day=%d' % len(today))
        ndirs = sum(1 for p_, k in top if k in ('D', 'd') and not p_.startswith(b'.') and p_ != b'attic')
        if ndirs in PER_DAY_B:
            out.append('directories in the root=%d' % ndirs)
        if today and max(today) > len(today):
            out.append('gap below the largest suffix of the day')
        if today and sorted(today) == [1] and (DATE.encode(), 'D') in [(p_, k.upper()) for p_, k in top]:
            out.append('DATE and DATE.1 only')
        if len(o['start']) in ROOT_LENS:
            out.append('root-len=%d' % len(o['start']))
    elif kind == 'log':
        names = {p_ for p_, k in o['tree'] if b'/' not in p_}
        for s_, nh in c['attempts']:
            nm = bytes.fromhex(nh)
            if re.fullmatch(rb'-[neE]+', nm):
                continue
            stem = ('%03d-' % s_).encode() + nm.replace(b'/', b'-') + b'.log'
            k = sum(1 for x in names if x.startswith(stem))
            if k in LOGS_B:
                out.append('existing logs of the step=%d' % k)
            if len(stem) >= 248:
                out.append('log name of %d bytes' % len(stem))
            if s_ in STEPS_B or s_ in (999, 1000):
                out.append('step number=%d' % s_)
            if nm.decode('latin1') in NAMES_B:
                out.append('step name with blank / separator at an end')
    elif kind == 'lock':
        if c['lock'] in LOCKS_B:
            out.append('lock-shape=' + c['lock'])
        if o['lock'] is not None and len(o['lock']) > iv_common.PATH_MAX:
            out.append('lock file > 4096 bytes')
        if len(o['bd']) - len(c['id']) - 1 in ROOT_LENS:
            out.append('root-len=%d' % (len(o['bd']) - len(c['id']) - 1))
        if not c['id'].endswith(('.1', '.2', '.10')):
            out.append('lock for id ' + c['id'].split('.', 1)[1])
    return sorted(set(out))


def evaluate(ctx, cases, res, impl=None):
    impl = impl or ctx.build_impl()
    drv = iv_common.build_iv_driver(ctx)
    env = env_with_shims(ctx)
    work = ctx.mkscratch('c17work')
    small = [(i, c) for i, c in enumerate(cases) if c['kind'] != 'hist']
    hist = [(i, c) for i, c in enumerate(cases) if c['kind'] == 'hist']
    obs = {}
    with ThreadPoolExecutor(8) as ex:
        for (i, c), o in zip(small, ex.map(lambda ic: run_case(ctx, impl, env, work, ic[0], ic[1]), small)):
            obs[i] = o
    if hist:
        for s in ('tools/shims/stat', 'tools/shims/find (-delete ignores ENOTEMPTY)', 'tools/shims/chflags',
                  'tools/shims/logname', 'tools/shims/sendmail', 'tools/shims/robsd-clean (bash wrapper)'):
            if s not in ctx.shims_used:
                ctx.shims_used.append(s)
        with ThreadPoolExecutor(4) as ex:
            for (i, c), o in zip(hist, ex.map(lambda ic: run_case(ctx, impl, env, work, ic[0], ic[1]), hist)):
                obs[i] = o
    qs = []
    index = []
    dhex = hexs(DATE.encode())
    for i, c in enumerate(cases):
        o = obs[i]
        if c['kind'] == 'bid':
            tt = tree_toks(o['tree'])
            index.append((i, 'bid', len(qs)))
            qs.append(' '.join(['bid', dhex, hexs(o['start']), hexs(o['base'])] + tt))
            qs.append(' '.join(['bidok', dhex, hexs(o['out'])] + tt))
            qs.append(' '.join(['bidmax', dhex, hexs(o['start']), hexs(o['base'])] + tt))
        elif c['kind'] == 'binit':
            index.append((i, 'binit', len(qs)))
            qs.append(' '.join(['binit', '1' if c['exists'] else '0', str(len(o['before']))] + [hexs(n) for n in o['before']]))
            after = o['after'] or []
            qs.append(' '.join(['kept', str(len(o['before']))] + [hexs(n) for n in o['before']]
                               + [str(len(after))] + [hexs(n) for n in after]))
        elif c['kind'] == 'newinv':
            index.append((i, 'newinv', len(qs)))
            qs.append(' '.join(['newinv', dhex, hexs(o['start']), hexs(o['base'])] + c16.snap_tokens(o['before'])))
        elif c['kind'] == 'lock':
            index.append((i, 'lock', len(qs)))
            qs.append(' '.join(['lockacq', '!' if o['lock'] is None else hexs(o['lock']), hexs(o['bd'])]))
        elif c['kind'] == 'logenv':
            index.append((i, 'logenv', len(qs)))
            toks = []
            for op in c['ops']:
                toks += [op[0]] + [str(x) if x != '' else '-' for x in op[1:]]
            qs.append(' '.join(['lenv', hexs(o['start']), hexs(o['base']), str(len(c['ops']))] + toks + tree_toks(o['tree'])))
        elif c['kind'] == 'log':
            index.append((i, 'log', len(qs)))
            att = [x for s, nh in c['attempts'] for x in (str(s), nh if nh else '-')]
            qs.append(' '.join(['atts', hexs(o['start']), hexs(o['base']), str(len(c['attempts']))] + att + tree_toks(o['tree'])))
            names = o['out'].split(b'\n')[:-1]
            tree = list(o['tree'])
            for (s, nh), nm in zip(c['attempts'], names):
                qs.append(' '.join(['logok', str(s), nh if nh else '-', hexs(nm)] + tree_toks(tree)))
                tree.append((nm, 'F'))
        else:
            index.append((i, 'hist', len(qs)))
            toks = []
            for t in o['trace']:
                removed = [n for n in t['before'] if n not in t['after']]
                if t['op'] == 'run':
                    toks += ['R', hexs(t['date'].encode())]
                toks += ['D', str(len(removed))] + [hexs(n.encode()) for n in removed]
            qs.append(' '.join(['hist', 'c'] + toks))
    ans = common.run_driver(drv, qs) if qs else []
    for i, kind, q in index:
        c, o = cases[i], obs[i]
        res.evaluations += 1
        res.count('kind=' + kind + ('/' + c['stream'] if 'stream' in c else ''))
        for cl in classes_of(c, o):
            res.count('class: ' + cl)
        key = hashlib.sha1(json.dumps(c, sort_keys=True).encode()).hexdigest()
        if kind == 'bid':
            m, ok, fx = ans[q], ans[q + 1], ans[q + 2]
            impl_s = hexs(o['out'])
            collided = any(p == o['out'] for p, k in o['tree'])
            res.count('bid-collision=%d' % collided)
            ntoday = sum(1 for p, k in o['tree'] if k == 'D' and b'/' not in p and p.startswith(DATE.encode()))
            res.count('bid-today=%s' % (ntoday if ntoday < 10 else '10+'))
            if ntoday >= 1:
                res.nontrivial.add(key)
            if m != impl_s or o['rc'] != 0:
                res.disagreements.append({'case': c, 'model': m, 'impl': impl_s, 'rc': o['rc'],
                                          'stderr': o['err'][-200:].decode('latin1')})
            if unhex(fx) in [p for p, k in o['tree']]:
                res.tie_errors.append('build_id_max names an existing entry: %s' % json.dumps(c)[:300])
            if ok != '1':
                # named after the date and carried by no entry of the root, whatever the root holds (C17_build_id_fresh
                # is about every tree): judged on every stream
                sig = SIG_D10 if (collided and has_gap(o['tree'], DATE, o['out'])) else (
                    'build-id-names-existing-entry' if collided else 'build-id-not-named-after-date')
                res.oracle_failures.append({
                    'case': c, 'signature': sig,
                    'what': 'build_id printed %s although the root already holds an entry of that name; build_init then '
                            'continues inside it' % o['out'].decode('latin1')
                            if collided else 'build_id printed %r' % o['out'],
                    'impl': impl_s})
        elif kind == 'binit':
            m, kept = ans[q], ans[q + 1]
            after = o['after']
            rcm = re.search(rb'rc=(\d+)', o['out'])
            impl_s = '%s %s' % (rcm.group(1).decode() if rcm else '?', ' '.join(sorted(hexs(n) for n in (after or []))))
            ms = m.split(' ')
            m_s = '%s %s' % (ms[0], ' '.join(sorted(ms[1:])))
            if c['exists'] and o['before']:
                res.nontrivial.add(key)
            if m_s != impl_s:
                res.disagreements.append({'case': c, 'model': m_s, 'impl': impl_s, 'stderr': o['err'][-200:].decode('latin1')})
            if kept != '1':
                res.oracle_failures.append({'case': c, 'signature': 'build-init-removes-entries',
                                            'what': 'build_init removed entries of an existing directory', 'impl': impl_s})
            elif o['changed']:
                res.oracle_failures.append({'case': c, 'signature': 'build-init-modifies-existing-entries',
                                            'what': 'build_init changed existing entries: %r' % o['changed'][:3], 'impl': impl_s})
        elif kind == 'newinv':
            mt = ans[q].split()
            mid, mrc, mfs = unhex(mt[0]), mt[1], c16.parse_fs(mt[2:])
            res.count('newinv-entries=%s' % min(len(o['before']) // 10 * 10, 60))
            if any(b'/' not in p_ and p_.startswith(DATE.encode()) for p_ in o['before']):
                res.nontrivial.add(key)
            if mid != o['id'] or mrc != str(o['rc']) or mfs != o['after']:
                only_impl = sorted(set(o['after']) - set(mfs))[:4]
                only_model = sorted(set(mfs) - set(o['after']))[:4]
                res.disagreements.append({'case': c, 'model': '%s rc=%s only-model %r' % (hexs(mid), mrc, only_model),
                                          'impl': '%s rc=%s only-impl %r' % (hexs(o['id']), o['rc'], only_impl),
                                          'stderr': o['err'][-200:].decode('latin1')})
            bad = None
            changed = sorted(r for r, v in o['before'].items() if o['after'].get(r) != v)
            new = {r: v for r, v in o['after'].items() if r not in o['before']}
            want = {o['id']: ('d',), o['id'] + b'/tmp': ('d',), o['id'] + b'/robsd.log': ('f', b''), o['id'] + b'/step.csv': ('f', b'')}
            if changed:
                bad = ('new-invocation-modifies-existing-entries', 'entries changed or removed: %r' % changed[:3])
            elif o['id'] in o['before']:
                bad = ('build-id-names-existing-entry', 'build_id printed the existing name %r' % o['id'])
            elif new != want or o['rc'] != 0:
                bad = ('new-invocation-not-a-fresh-builddir', 'rc %s, new entries %r' % (o['rc'], sorted(new)[:6]))
            if bad:
                res.oracle_failures.append({'case': c, 'signature': bad[0], 'what': bad[1], 'impl': hexs(o['id'])})
        elif kind == 'lock':
            m = ans[q]
            impl_s = '%d %s' % (o['rc'], '!' if o['after'] is None else hexs(o['after']))
            res.count('lock=' + c['lock'])
            res.nontrivial.add(key)
            if m != impl_s:
                res.disagreements.append({'case': c, 'model': m, 'impl': impl_s, 'stderr': o['err'][-200:].decode('latin1')})
            # independent statement: a lock whose content (less trailing newlines) is non-empty and not this build
            # directory refuses and stays; anything else is granted and then names this directory
            owner = (o['lock'] or b'').rstrip(b'\n')
            if owner and owner != o['bd']:
                okl = o['rc'] == 1 and o['after'] == o['lock']
            else:
                okl = o['rc'] == 0 and o['after'] == o['bd'] + b'\n'
            if not okl:
                res.oracle_failures.append({'case': c, 'signature': 'lock-acquire-wrong-decision',
                                            'what': 'lock %r, build directory %r: rc %d, lock afterwards %r'
                                                    % (o['lock'], o['bd'], o['rc'], o['after']), 'impl': impl_s})
        elif kind == 'logenv':
            m = ans[q]
            names = o['out'].split(b'\n')[:-1]
            impl_s = ' '.join(hexs(n) for n in names)
            res.count('logenv-ops=%d' % len(c['ops']))
            natt = sum(1 for op in c['ops'] if op[0] == 'A')
            if natt >= 2 and natt < len(c['ops']):
                res.nontrivial.add(key)
            if m != impl_s or o['rc'] != 0:
                res.disagreements.append({'case': c, 'model': m, 'impl': impl_s, 'rc': o['rc'],
                                          'stderr': o['err'][-200:].decode('latin1')})
            outside = logenv_outside(c)
            if outside:
                res.count(outside)
            have = {p_ for p_, k_ in o['tree'] if b'/' not in p_}
            j = 0
            bad = None
            reused = False
            for op in c['ops']:
                if op[0] == 'A':
                    if j >= len(names):
                        bad = ('log-id-failed', 'attempt %d printed nothing' % (j + 1))
                        break
                    if names[j] in have:
                        reused = True
                        if not outside:
                            bad = ('log-id-reuses-existing-name', 'attempt %d of %s got the existing name %s'
                                   % (j + 1, op[1:], names[j].decode('latin1')))
                            break
                    have.add(names[j])
                    j += 1
                elif op[0] == 'P':
                    pth = bytes.fromhex(op[2])
                    if b'/' not in pth:
                        have.add(pth)
                else:
                    have.discard(bytes.fromhex(op[1]))
            if outside and reused:
                res.count('outside case: an attempt was handed the name of an entry that is there')
            if bad is None and not reused:
                # every log holds the output of its own attempt (a reused name is truncated by tee: only without reuse)
                deleted = {bytes.fromhex(op[1]) for op in c['ops'] if op[0] == 'X'}
                for j, nm in enumerate(names):
                    if nm not in deleted and o['snap_after'].get(nm) != ('f', b'attempt %d\n' % (j + 1)):
                        bad = ('log-overwritten', 'log of attempt %d (%s) does not hold its own output'
                               % (j + 1, nm.decode('latin1')))
                        break
            if bad:
                res.oracle_failures.append({'case': c, 'signature': bad[0], 'what': bad[1], 'impl': impl_s})
        elif kind == 'log':
            m = ans[q]
            names = o['out'].split(b'\n')[:-1]
            impl_s = ' '.join(hexs(n) for n in names)
            res.count('log-attempts=%d' % len(c['attempts']))
            if len(c['attempts']) >= 2:
                res.nontrivial.add(key)
            if m != impl_s or o['rc'] != 0:
                res.disagreements.append({'case': c, 'model': m, 'impl': impl_s, 'rc': o['rc'],
                                          'stderr': o['err'][-200:].decode('latin1')})
            if not log_inv_holds(o['tree']):
                res.count(OUT_LOGINV)
            else:
                bad = None
                for j, nm in enumerate(names):
                    if ans[q + 1 + j] != '1':
                        bad = ('log-id-reuses-existing-name', 'attempt %d of %s got the existing name %s'
                               % (j + 1, c['attempts'][j], nm.decode('latin1')))
                        break
                if bad is None:
                    # earlier logs untouched: every file that was there keeps its content, and log i holds attempt i
                    for rel, v in o['snap_before'].items():
                        if o['snap_after'].get(rel) != v:
                            bad = ('log-overwritten', 'entry %r changed' % rel)
                            break
                if bad is None:
                    for j, nm in enumerate(names):
                        if o['snap_after'].get(nm) != ('f', b'attempt %d\n' % (j + 1)):
                            bad = ('log-overwritten', 'log of attempt %d (%s) does not hold its own output'
                                   % (j + 1, nm.decode('latin1')))
                            break
                if bad:
                    res.oracle_failures.append({'case': c, 'signature': bad[0], 'what': bad[1], 'impl': impl_s})
        else:
            m = ans[q]
            runs = [t for t in o['trace'] if t['op'] == 'run']
            res.count('hist-runs=%d' % len(runs))
            impl_names = sorted(o['trace'][-1]['after']) if o['trace'] else []
            impl_runs = ' '.join('%s:%d' % (hexs((t['used'] or '?').encode()), 1 if t['used'] in t['before'] else 0) for t in runs)
            mn, mr = m.split(' | ') if ' | ' in m else (m.rstrip(' |'), '')
            m_s = '%s | %s' % (' '.join(sorted(mn.split())), mr.strip())
            impl_s = '%s | %s' % (' '.join(sorted(hexs(n.encode()) for n in impl_names)), impl_runs)
            if len(runs) >= 2:
                res.nontrivial.add(key)
            if m_s != impl_s or any(t['rc'] != 0 for t in o['trace']):
                res.disagreements.append({'case': c, 'model': m_s, 'impl': impl_s,
                                          'trace': [{k: t[k] for k in ('op', 'rc', 'tail')} for t in o['trace']][:6]})
            # reading (1): no run continues inside a directory that is there; reading (2): no run is handed a name
            # that was handed out before, "whatever invocations ... have been cleaned away"
            issued = {}
            bad = None
            for t in runs:
                u = t['used']
                if u is None:
                    continue
                day_max = max([int(x.rsplit('.', 1)[1]) for x in issued if x.startswith(t['date'] + '.')] + [0])
                if u in t['before']:
                    gap = has_gap([(n.encode(), 'D') for n in t['before']], t['date'], u.encode())
                    res.count('hist-collision')
                    bad = (SIG_D10 if gap else 'build-id-names-existing-entry',
                           'canvas on %s continued inside the existing invocation %s (root held %s)'
                           % (t['date'], u, ','.join(t['before'])))
                    break
                if u in issued:
                    res.count('hist-reissue')
                    # the known class: the day had ten or more invocations, so the greatest NAME was not the latest
                    # and cleaning archived the latest; anything else is defect D23's class
                    sig = SIG_TEN if day_max >= 10 else SIG_D23
                    bad = (sig, 'canvas on %s was handed %s, the name of an earlier invocation of the day that was cleaned '
                                'away (names handed out so far: %s; root held %s)'
                           % (t['date'], u, ' '.join(sorted(issued, key=lambda x: issued[x])), ','.join(t['before'])))
                    break
                issued[u] = len(issued)
            if bad is None and c['attic']:
                # every archived invocation has its own directory attic/YYYY/MM/DD.X, none sits inside another
                for t in o['trace']:
                    nested = [a for a in t['attic'] if re.search(r'\d{4}-\d{2}-\d{2}\.\d+', a)]
                    if nested:
                        bad = ('attic-holds-an-invocation-inside-another', 'attic directories %r' % nested[:3])
                        break
            if bad:
                res.oracle_failures.append({'case': c, 'signature': bad[0], 'what': bad[1], 'impl': impl_s})
    return res


def run(ctx, n=None):
    res = common.Result()
    res.rule = ('build_id on generated roots (0-14 invocations of the day with the oldest / the lexicographically smallest / '
                'random / the newest ones removed, other days, attic; plus a comparison-only stream with files, symlinks, '
                'nested and hidden matches, newlines, a matching root name), build_init on existing/missing directories, '
                'log_id on sequences of 1-12 attempts of 1-4 steps over the property\'s name alphabet (incl. names echo takes '
                'for options, >999 step numbers; comparison-only stream with deleted logs, nested matches, equal numbers), '
                'build_id+build_init end to end on roots with file contents (whole tree compared), lock_acquire on 15 lock '
                'states, log_id interleaved with entries appearing and disappearing (guarded stream: names without ".log"; '
                'comparison-only stream: logs deleted, matches below tmp), '
                'and run/clean histories of 5-13 operations through the real canvas and robsd-clean (judged: no run inside '
                'an existing directory, no name handed out twice, one attic directory per archived invocation); non-trivial = a root with an invocation '
                'of the day / an existing directory with content / at least two attempts / at least two runs')
    n = n or ctx.budget(500, 6000)
    nh = ctx.budget(6, 60)
    rng = ctx.rng
    cases = load_corpus()
    for _ in range(n):
        r = rng.random()
        cases.append(gen_bid(rng) if r < 0.32 else gen_binit(rng) if r < 0.40 else gen_log(rng) if r < 0.66 else
                     gen_newinv(rng) if r < 0.80 else gen_lock(rng) if r < 0.84 else gen_logenv(rng))
    cases += [gen_hist(rng) for _ in range(nh)]
    res.samples = cases[:3]
    res.assumptions = ['directory states of up to ~60 entries, up to 14 invocations per day in the ordinary streams; boundary stream '
                       '(counted as `class: ...`): 15-17/31-33/63-65/99-101/255/256/999/1000 invocations of the day, suffixes in use '
                       'next to 2^31, 2^32 and 2^63 - 2 (bash cannot print the successor of 2^63 - 1), 1-1000 existing logs of a step, '
                       'log names of 248-255 bytes (NAME_MAX), step numbers up to 100000 (the model takes unary numbers), roots of '
                       '254-256/1023-1025/4040 bytes; up to 12 attempts, histories of up to 13 operations (a real canvas run costs '
                       '0.5 s: days with 100 runs only on generated roots) in the correspondence (the theorems have no bound)']
    impl = ctx.build_impl()
    chunk = 3000
    for i in range(0, len(cases), chunk):
        evaluate(ctx, cases[i:i + chunk], res, impl)
    res.traces_validated = res.evaluations
    return res


def extended_search(ctx, res, proof):
    return run(ctx, n=4000)


def replay(ctx, rep):
    case = rep.get('case') or (rep.get('first_disagreements') or [{}])[0].get('case')
    if case is None:
        print(rep)
        return 1
    res = common.Result()
    evaluate(ctx, [case], res)
    print('case:', case)
    print('disagreements:', res.disagreements)
    print('oracle failures:', res.oracle_failures)
    for e in res.tie_errors:
        print('tie:', e)
    return 1 if (res.disagreements or res.oracle_failures or res.tie_errors) else 0
