"""C20 - libks containers and checked arithmetic against their models (DESIGN.md 7, C20).

Parts (each can be replayed on its own; a case is {'part': ..., ...}):
  arith   the 15 KS_*_overflow0 fallbacks (translated by t_arith.py, proved in Ks/ArithProofs.v) and the
          KS_*_overflow entry points of arithmetic.h (builtin path) on a boundary grid + aimed random operands
"""
import os, subprocess, hashlib, json, glob
from concurrent.futures import ThreadPoolExecutor
import common

TRANSLATORS = ['t_arith', 't_ksconst']
TRUSTED = [
    'Base/CInt.v: this development\'s reading of C11 integer semantics on LP64 (unsigned wrap, signed overflow / division by zero / '
    'INT_MIN/-1 = trap-or-UB, conversions modulo 2^N); translator harness/t_arith.py over clang 14\'s JSON AST, validated on every run '
    'against the compiled functions (plain cc -O0, cc -O2, clang with trapping UBSan) on the boundary grid',
    'assumed, exercised not proved: the compiler\'s __builtin_{add,sub,mul}_overflow contract (the KS_*_overflow entry points use it '
    'when available); LP64 (size_t = 64 bits)',
]

HARNESS = os.path.join(common.VERIF, 'harness')
TYPES = {'i32': (-2**31, 2**31 - 1, 32), 'i64': (-2**63, 2**63 - 1, 64), 'u32': (0, 2**32 - 1, 32),
         'u64': (0, 2**64 - 1, 64), 'size': (0, 2**64 - 1, 64)}
OPS = {'add': lambda a, b: a + b, 'sub': lambda a, b: a - b, 'mul': lambda a, b: a * b}


# --------------------------------------------------------------------------- arithmetic

def grid(ty, ks):
    lo, hi, bits = TYPES[ty]
    vals = {lo, lo + 1, -1, 0, 1, 2, hi - 1, hi}
    for k in ks:
        if k > bits:
            continue
        for s in (1, -1):
            for d in (-1, 0, 1):
                vals.add(s * (2 ** k) + d)
    return sorted(v for v in vals if lo <= v <= hi)


def aimed_pairs(rng, ty, op, n):
    """operands aimed at the case splits of the proofs: both signs, the result just inside / just outside the
    range (for mul: b around max/a and min/a, where the fallback's quotient test flips)"""
    lo, hi, bits = TYPES[ty]
    out = []

    def clip(v):
        return min(hi, max(lo, v))
    while len(out) < n:
        k = rng.random()
        a = rng.randint(lo, hi) if k < 0.5 else clip(rng.choice([1, -1]) * rng.getrandbits(rng.randint(1, bits)))
        if op == 'mul' and a not in (0,):
            lim = rng.choice([hi, lo]) if lo < 0 else hi
            q = abs(lim) // abs(a)
            b = clip(rng.choice([1, -1]) * q + rng.choice([-2, -1, 0, 1, 2]))
        elif op == 'add':
            b = clip(rng.choice([hi, lo]) - a + rng.choice([-2, -1, 0, 1, 2]))
        elif op == 'sub':
            b = clip(a - rng.choice([hi, lo]) + rng.choice([-2, -1, 0, 1, 2]))
        else:
            b = rng.randint(lo, hi)
        if rng.random() < 0.3:
            b = rng.randint(lo, hi) if rng.random() < 0.5 else clip(rng.choice([1, -1]) * rng.getrandbits(rng.randint(1, bits)))
        if rng.random() < 0.5:
            a, b = b, a
        out.append((a, b))
    return out


def arith_case_chunks(ctx, aimed=None):
    """one chunk per function: the whole boundary grid (all pairs) + aimed operands"""
    full = ctx.tier == 'thorough'
    for ty, (lo, hi, bits) in TYPES.items():
        ks = range(0, bits + 1) if full else [k for k in (0, 1, 2, 3, 7, 8, 15, 16, 17, 30, 31, 32, 33, 47, 62, 63, 64) if k <= bits]
        g = grid(ty, ks)
        for op in OPS:
            cases = [{'part': 'arith', 'ty': ty, 'op': op, 'a': a, 'b': b, 'src': 'grid'} for a in g for b in g]
            for a, b in aimed_pairs(ctx.rng, ty, op, aimed if aimed is not None else ctx.budget(3000, 20000)):
                cases.append({'part': 'arith', 'ty': ty, 'op': op, 'a': a, 'b': b, 'src': 'aimed'})
            yield cases


BUILDS = [
    # name, compiler, flags, traps are observable
    ('cc-O0', 'cc', ['-O0'], False),
    ('cc-O2', 'cc', ['-O2'], False),
    ('clang-ubsan-trap', 'clang', ['-O1', '-fsanitize=signed-integer-overflow,integer-divide-by-zero,shift',
                                   '-fsanitize-trap=all'], True),
]


def build_arith(ctx, impl):
    d = ctx.mkscratch('c20arith')
    bins = []
    for name, cc, flags, traps in BUILDS:
        out = os.path.join(d, 'ks_arith-' + name)
        r = common.sh([cc] + flags + ['-I' + impl, os.path.join(HARNESS, 'ks_arith.c'),
                                      os.path.join(impl, 'libks', 'arithmetic.c'), '-o', out])
        if r.returncode != 0:
            raise common.BuildFailure('ks_arith.c (%s) does not build against the repository:\n%s' % (name, r.stdout[-1500:]))
        bins.append((name, out, traps))
    return bins


def run_lines(binary, lines, timeout=900):
    r = subprocess.run([binary], input='\n'.join(lines) + '\n', stdout=subprocess.PIPE, stderr=subprocess.PIPE,
                       text=True, timeout=timeout)
    out = r.stdout.split('\n')
    if out and out[-1] == '':
        out.pop()
    if len(out) != len(lines):
        raise RuntimeError('%s: %d answers for %d questions (rc=%s) %s' % (binary, len(out), len(lines), r.returncode, r.stderr[-300:]))
    return out


def run_driver_par(drv, qs, jobs=16):
    """the extracted model works on Coq's binary integers and on lists: slow per call, so the questions are
    dealt round-robin to several driver processes (long sequences then spread evenly)"""
    if len(qs) < 64:
        return common.run_driver(drv, qs)
    parts = [qs[i::jobs] for i in range(jobs)]
    with ThreadPoolExecutor(jobs) as ex:
        outs = list(ex.map(lambda c: common.run_driver(drv, c, timeout=3000) if c else [], parts))
    ans = [None] * len(qs)
    for i, o in enumerate(outs):
        ans[i::jobs] = o
    return ans


def arith_signature(c, obs, path):
    """defect class of an oracle failure (key for known_findings.json)"""
    kind = 'trap' if obs == 'T' else ('flag' if obs.split()[0] != ('0' if in_range(c) else '1') else 'value')
    zero = '-b0' if c['b'] == 0 else ('-a0' if c['a'] == 0 else '')
    return 'arith-%s-%s_%s-%s%s' % ('fallback' if path == 'f' else 'builtin', c['ty'], c['op'], kind, zero)


def in_range(c):
    lo, hi, _ = TYPES[c['ty']]
    return lo <= OPS[c['op']](c['a'], c['b']) <= hi


def eval_arith(ctx, cases, res, impl, drv):
    if not cases:
        return
    if not hasattr(ctx, 'c20_arith_bins'):
        ctx.c20_arith_bins = build_arith(ctx, impl)
    bins = ctx.c20_arith_bins
    # the model (translated fallback), once per case
    mq = ['ar %s %s %d %d' % (c['ty'], c['op'], c['a'], c['b']) for c in cases]
    obs_all = []
    for name, binary, traps in bins:
        for path in ('f', 'b'):
            lines = ['%s %s %s %d %d' % (path, c['ty'], c['op'], c['a'], c['b']) for c in cases]
            obs_all.append((name, traps, path, run_lines(binary, lines)))
    # oracle on every observation (fallback and builtin path, every build); identical observations of a case are asked once
    oq, oidx = [], {}
    for name, traps, path, obs in obs_all:
        for i, o in enumerate(obs):
            key = (i, o)
            if key not in oidx:
                oidx[key] = len(oq)
                c = cases[i]
                oq.append('arok %s %s %d %d %s' % (c['ty'], c['op'], c['a'], c['b'], o if (o[:1] in ('0', '1', 'T') and not o.startswith('NONDET')) else 'T'))
    ans = run_driver_par(drv, mq + oq)
    model, oks = ans[:len(mq)], ans[len(mq):]
    for c, m in zip(cases, model):
        if m.startswith('EXN') or m == 'BAD':
            res.tie_errors.append('driver: %s on %r' % (m, c))
            return
    for name, traps, path, obs in obs_all:
        for i, (c, o, m) in enumerate(zip(cases, obs, model)):
            ok = oks[oidx[(i, o)]]
            res.evaluations += 1
            if path == 'f' and (traps or m != 'T') and o != m:
                # translator validation: compiled fallback = translated fallback
                res.disagreements.append({'case': c, 'build': name, 'model': m, 'impl': o})
            if ok != '1':
                res.oracle_failures.append({
                    'case': dict(c, path=path, build=name), 'signature': arith_signature(c, o, path),
                    'what': 'KS_%s_%s_overflow%s(%d, %d) [%s]: observed %s, mathematical result %s' % (
                        c['ty'], c['op'], '0' if path == 'f' else '', c['a'], c['b'], name,
                        {'T': 'a trap (signal)'}.get(o, o),
                        ('%d is representable' % OPS[c['op']](c['a'], c['b'])) if in_range(c) else 'is not representable'),
                    'impl': o})
    for c in cases:
        res.count('arith %s %s' % (c['op'], 'overflow' if not in_range(c) else 'exact'))
        res.count('arith src=%s' % c['src'])
        if c['a'] not in (0, 1) and c['b'] not in (0, 1):
            res.nontrivial.add('arith %s %s %d %d' % (c['ty'], c['op'], c['a'], c['b']))
    res.traces_validated += len(cases) * len(bins)


# --------------------------------------------------------------------------- vector and buffer

U64 = 2**64 - 1


def gen_vec(rng):
    stride = rng.choice([8, 8, 24])
    n = rng.choice([5, 20, 40, 80, 200])
    ops = []
    mode = rng.random()
    length = 0
    for _ in range(n):
        k = rng.random()
        if mode < 0.3 and k < 0.75:          # growth runs: cross 16, 32, 64, 128 ...
            k = 0.0
        if k < 0.40:
            ops.append('push:%d' % rng.choice([rng.randint(-5, 5), rng.randint(-2**63, 2**63 - 1), rng.randint(-100, 100)]))
            length += 1
        elif k < 0.47:
            ops.append('calloc')
            length += 1
        elif k < 0.62:
            ops.append('pop')
            length = max(0, length - 1)
        elif k < 0.66:
            ops.append('clear')
            length = 0
        elif k < 0.71:
            ops.append('sort')
        elif k < 0.76:
            ops.append('first')
        elif k < 0.81:
            ops.append('last')
        elif k < 0.85:
            ops.append('len')
        elif k < 0.92:
            ops.append('dump')
        else:
            r = rng.random()
            if r < 0.6:
                nn = rng.choice([0, 1, 2, 15, 16, 17, 33, 100, 300])
            elif r < 0.8:   # the three overflow guards and an allocation no machine satisfies
                nn = rng.choice([U64, U64 - length, U64 - length + 1, U64 - length - 1, 2**63, 2**63 + 1, 2**62, 2**61,
                                 U64 // stride, U64 // stride + 1, (U64 - 56) // stride, (U64 - 56) // stride + 1,
                                 2**60, 2**50 + rng.randint(0, 1000)])
                nn = max(0, min(U64, nn))
            else:
                nn = rng.randint(2**50, U64)
            ops.append('reserve:%d' % nn)
    ops.append('dump')
    return {'part': 'vec', 'stride': stride, 'ops': ops}


BYTES_POOL = [0, 10, 10, 10, 32, 65, 66, 97, 255, 128, 13, 37]


def rbytes(rng, n, nonul=False):
    b = bytes(rng.choice(BYTES_POOL) if rng.random() < 0.7 else rng.randrange(256) for _ in range(n))
    if nonul:
        b = bytes(c if c != 0 else 1 for c in b)
    return b


def gen_buf(rng):
    init = rng.choice([0, 0, 1, 15, 16, 17, 100, 1024, 8192])
    n = rng.choice([5, 15, 30, 60])
    ops = []
    shadow = b''    # only to aim cmp/pop arguments; the verdicts come from the model and the oracle
    for _ in range(n):
        k = rng.random()
        if k < 0.30:
            s = rbytes(rng, rng.choice([0, 1, 2, 5, 15, 16, 17, 31, 33, 100, 700]))
            ops.append('puts:' + common.hexs(s))
            shadow += s
        elif k < 0.40:
            c = rng.choice(BYTES_POOL)
            ops.append('putc:%d' % c)
            shadow += bytes([c])
        elif k < 0.50:
            if rng.random() < 0.5:
                s = rbytes(rng, rng.choice([0, 1, 3, 15, 16, 17, 40, 300]), nonul=True)
                ops.append('printf:' + common.hexs(s))
            else:
                v = rng.choice([0, -1, 7, 2**63 - 1, -2**63, rng.randint(-10**6, 10**6)])
                s = ('%d/x' % v).encode()
                ops.append('printd:%d' % v)
            shadow += s
        elif k < 0.56:
            ops.append('pop:%d' % rng.choice([0, 1, 2, len(shadow), len(shadow) + 1, max(0, len(shadow) - 1), 5, U64, 2**63]))
            shadow = b''  # not tracked further
        elif k < 0.64:
            r = rng.random()
            other = shadow if r < 0.4 else (shadow[:-1] + bytes([rng.randrange(256)]) if shadow and r < 0.7 else rbytes(rng, rng.choice([0, len(shadow), 3])))
            ops.append('cmp:' + common.hexs(other))
        elif k < 0.70:
            ops.append('str')
            shadow = b''
        elif k < 0.73:
            ops.append('reset')
            shadow = b''
        elif k < 0.78:
            ops.append('len')
        elif k < 0.86:
            ops.append('dump')
        elif k < 0.96:
            ops.append('lines')
        else:
            ops.append('huge:%d' % rng.choice([0, U64, U64 - 1, 2**63 + 1, U64 - len(shadow), U64 - len(shadow) + 1, rng.randint(2**63 + 1, U64)]))
    ops += ['dump', 'lines']
    return {'part': 'buf', 'init': init, 'ops': ops}


def model_op(op):
    """the C harness distinguishes the printf formats; the model sees the formatted bytes"""
    if op.startswith('printd:'):
        return 'printf:' + common.hexs(('%d/x' % int(op.split(':')[1])).encode())
    return op


def build_containers(ctx, impl, with_map=False):
    d = ctx.mkscratch('c20ks')
    out = os.path.join(d, 'ks_harness')
    r = common.sh(['cc', '-O0', '-g', '-I' + impl, '-I' + HARNESS] + (['-DKS_WITH_MAP'] if with_map else []) +
                  [os.path.join(HARNESS, 'ks_harness.c'), '-o', out])
    if r.returncode != 0:
        raise common.BuildFailure('ks_harness.c does not build against the repository:\n%s' % r.stdout[-1500:])
    return out


def split_caps(tokens):
    outs, caps = [], []
    for t in tokens:
        o, _, c = t.rpartition('@')
        outs.append(o)
        caps.append(c)
    return outs, caps


def first_diff(a, b):
    for i, (x, y) in enumerate(zip(a, b)):
        if x != y:
            return i
    return min(len(a), len(b)) if len(a) != len(b) else None


def eval_vec(ctx, cases, res, binary, drv):
    if not cases:
        return
    lines = ['vec %d %d %s' % (c['stride'], len(c['ops']), ' '.join(c['ops'])) for c in cases]
    impl = run_lines(binary, lines)
    mq, oq, hdrs = [], [], []
    for c, o in zip(cases, impl):
        toks = o.split(' ')
        hdr = toks[0][2:] if toks[0].startswith('H:') else '0'
        hdrs.append(hdr)
        outs, caps = split_caps(toks[1:])
        mq.append('vec %d %s %d %s' % (c['stride'], hdr, len(c['ops']), ' '.join(c['ops'])))
        if len(outs) == len(c['ops']) and 'BAD' not in outs:
            oq.append('vecok %d %s %d %s %s' % (c['stride'], hdr, len(c['ops']), ' '.join(c['ops']), ' '.join(outs)))
        else:
            oq.append('bad')
    ans = run_driver_par(drv, mq + oq)
    for i, (c, o) in enumerate(zip(cases, impl)):
        m, ok = ans[i], ans[len(cases) + i]
        res.evaluations += 1
        itoks = o.split(' ')[1:]
        mtoks = m.split(' ')
        if mtoks != itoks:
            k = first_diff(mtoks, itoks)
            res.disagreements.append({'case': c, 'at': k, 'op': c['ops'][k] if k is not None and k < len(c['ops']) else None,
                                      'model': mtoks[k] if k is not None and k < len(mtoks) else m[:200],
                                      'impl': itoks[k] if k is not None and k < len(itoks) else o[:200]})
        if ok != '1':
            res.oracle_failures.append({'case': c, 'signature': 'vector-' + vec_signature(c, itoks),
                                        'what': 'vector.c: the observed results of the operation sequence are not those of the list program '
                                                '(first operation where the prefix is rejected: %s)' % vec_signature(c, itoks),
                                        'impl': o[:400]})
        ncaps = len(set(t.rpartition('@')[2] for t in itoks))
        res.count('vec reallocations=%s' % (ncaps - 1 if ncaps <= 4 else '4+'))
        res.count('vec stride=%d' % c['stride'])
        for op in c['ops']:
            res.count('vec op ' + op.split(':')[0])
        if ncaps >= 3:
            res.nontrivial.add('vec ' + hashlib.sha1(repr(c).encode()).hexdigest())
    res.traces_validated += len(cases)


def vec_signature(c, itoks):
    """name the kind of operation at which the observed trace first leaves the specification; found by
    replaying prefixes with a python mirror of nothing - just the operation name at the first token that is
    not of the expected shape"""
    shapes = {'push': 'IE', 'calloc': 'IE', 'reserve': 'Z', 'pop': 'IN', 'clear': 'U', 'first': 'IN', 'last': 'IN', 'sort': 'U', 'len': 'Z', 'dump': 'L'}
    for op, t in zip(c['ops'], itoks):
        if not t or t[0] not in shapes.get(op.split(':')[0], ''):
            return op.split(':')[0] + '-shape'
    return 'results'


def eval_buf(ctx, cases, res, binary, drv):
    if not cases:
        return
    lines = ['buf %d %d %s' % (c['init'], len(c['ops']), ' '.join(c['ops'])) for c in cases]
    impl = run_lines(binary, lines)
    mq, oq = [], []
    for c, o in zip(cases, impl):
        mops = [model_op(x) for x in c['ops']]
        toks = o.split(' ')
        outs, caps = split_caps(toks[1:])
        mq.append('buf %d %d %s' % (c['init'], len(mops), ' '.join(mops)))
        if len(outs) == len(mops) and 'BAD' not in outs and 'REFUSED' not in outs:
            oq.append('bufok %d %s %s' % (len(mops), ' '.join(mops), ' '.join(outs)))
        else:
            oq.append('bad')
    ans = run_driver_par(drv, mq + oq)
    for i, (c, o) in enumerate(zip(cases, impl)):
        m, ok = ans[i], ans[len(cases) + i]
        res.evaluations += 1
        itoks, mtoks = o.split(' '), m.split(' ')
        if mtoks != itoks:
            k = first_diff(mtoks, itoks)
            res.disagreements.append({'case': c, 'at': k, 'op': c['ops'][k - 1] if k and k - 1 < len(c['ops']) else None,
                                      'model': mtoks[k] if k is not None and k < len(mtoks) else m[:200],
                                      'impl': itoks[k] if k is not None and k < len(itoks) else o[:200]})
        if ok != '1':
            res.oracle_failures.append({'case': c, 'signature': 'buffer-results',
                                        'what': 'buffer.c: the observed results of the operation sequence are not those of the byte string program',
                                        'impl': o[:400]})
        ncaps = len(set(t.rpartition('@')[2] for t in itoks[1:]) | {itoks[0][2:]})
        res.count('buf capacities=%s' % (ncaps if ncaps <= 4 else '5+'))
        for op in c['ops']:
            res.count('buf op ' + op.split(':')[0])
        if ncaps >= 3:
            res.nontrivial.add('buf ' + hashlib.sha1(repr(c).encode()).hexdigest())
    res.traces_validated += len(cases)


# --------------------------------------------------------------------------- map

M32 = 0xffffffff


def py_jen(key):
    """HASH_JEN, used only to aim the generator at colliding keys (the verdicts never depend on it)"""
    def mix(a, b, c):
        a = (a - b - c) & M32; a ^= c >> 13
        b = (b - c - a) & M32; b ^= (a << 8) & M32
        c = (c - a - b) & M32; c ^= b >> 13
        a = (a - b - c) & M32; a ^= c >> 12
        b = (b - c - a) & M32; b ^= (a << 16) & M32
        c = (c - a - b) & M32; c ^= b >> 5
        a = (a - b - c) & M32; a ^= c >> 3
        b = (b - c - a) & M32; b ^= (a << 10) & M32
        c = (c - a - b) & M32; c ^= b >> 15
        return a, b, c
    i = j = 0x9e3779b9
    h = 0xfeedbeef
    k = key
    while len(k) >= 12:
        i = (i + int.from_bytes(k[0:4], 'little')) & M32
        j = (j + int.from_bytes(k[4:8], 'little')) & M32
        h = (h + int.from_bytes(k[8:12], 'little')) & M32
        i, j, h = mix(i, j, h)
        k = k[12:]
    h = (h + len(key)) & M32
    k = k + b'\0' * 12
    n = len(key) % 12
    g = lambda x: k[x] if x < n else 0
    i = (i + g(0) + (g(1) << 8) + (g(2) << 16) + (g(3) << 24)) & M32
    j = (j + g(4) + (g(5) << 8) + (g(6) << 16) + (g(7) << 24)) & M32
    h = (h + (g(8) << 8) + (g(9) << 16) + (g(10) << 24)) & M32
    return mix(i, j, h)[2]


_POOLS = {}


def colliding_groups(rng, kind, ngroups, per_group):
    """groups of keys whose hashes agree in the low 10 bits: each group shares one bucket until the table has
    more than 1024 buckets, so chains reach the expansion threshold early, expansions are ineffective and the
    expand_mult / ineff_expands / noexpand machinery is exercised"""
    if kind not in _POOLS:
        pool = {}
        seen = set()
        for _ in range(45000):
            k = rng.randrange(0, 2**31).to_bytes(4, 'little') if kind == 'i' else \
                bytes(rng.choice(b'abcdefghijklmnop0123456789') for _ in range(rng.choice([3, 5, 8, 11, 12, 13, 17, 24, 29])))
            if k in seen:
                continue
            seen.add(k)
            pool.setdefault(py_jen(k) & 1023, []).append(k)
        _POOLS[kind] = [v for v in pool.values() if len(v) >= 24]
    groups = rng.sample(_POOLS[kind], min(ngroups, len(_POOLS[kind])))
    out = []
    for g in groups:
        g = list(g)
        rng.shuffle(g)
        out.append(g[:per_group])
    return out


def rand_key(rng, kind):
    if kind == 'i':
        return rng.choice([rng.randrange(0, 64), rng.randrange(0, 2**31), rng.randrange(0, 4096)]).to_bytes(4, 'little')
    n = rng.choice([0, 1, 2, 3, 4, 5, 7, 8, 9, 11, 12, 13, 16, 23, 24, 25, 30, 40])
    return bytes(rng.choice(b'abcxyz019_-/') if rng.random() < 0.8 else rng.randrange(1, 256) for _ in range(n))


def gen_map(rng, size=None):
    kind = rng.choice('si')
    ops = []
    order = []        # live keys in insertion order (shadow, only to keep the sequence inside defined behaviour)
    dead = []
    it = 'fresh'      # 'fresh' | 'end' | key to be returned next
    undisciplined = rng.random() < 0.12
    size = size or rng.choice([10, 40, 120, 300, 700])
    style = rng.random()
    pool = []
    if style < 0.4:
        for g in colliding_groups(rng, kind, rng.choice([1, 2, 3, 4]), rng.choice([11, 14, 24])):
            pool += g
        if rng.random() < 0.5:
            rng.shuffle(pool)
        size = max(size, 2 * len(pool))
    hx = common.hexs

    def fresh_key():
        for _ in range(50):
            k = pool.pop() if pool and rng.random() < 0.9 else rand_key(rng, kind)
            if k not in order:
                return k
        return None

    def do_iter(delete):
        nonlocal it
        ops.append('itdel' if delete else 'itnext')
        if it == 'fresh':
            if not order:
                return
            cur = order[0]
        elif it == 'end':
            return
        else:
            cur = it
        idx = order.index(cur)
        it = order[idx + 1] if idx + 1 < len(order) else 'end'
        if delete:
            order.remove(cur)
            dead.append(cur)

    empties = rng.choice([0, 0, 0, 1, 2])
    grow = style < 0.4 or rng.random() < 0.3      # growth-heavy: many inserts, few removals
    while len(ops) < size:
        k = rng.random()
        if grow and k >= 0.45 and rng.random() < 0.6:
            k = 0.0
        if k < 0.45:
            key = fresh_key()
            if key is None:
                continue
            ops.append('ins:%s:%d' % (hx(key), rng.randint(-2**40, 2**40)))
            order.append(key)
        elif k < 0.60:
            cand = rng.choice(order) if order and rng.random() < 0.6 else (rng.choice(dead) if dead and rng.random() < 0.5 else rand_key(rng, kind))
            ops.append('find:' + hx(cand))
        elif k < 0.75:
            cand = rng.choice(order) if order and rng.random() < 0.8 else rand_key(rng, kind)
            if cand == it:
                continue                  # removing the element the iterator holds a pointer to is a use after free in C
            ops.append('rm:' + hx(cand))
            if cand in order:
                order.remove(cand)
                dead.append(cand)
        elif k < 0.80:
            ops.append('itstart')
            it = 'fresh'
        elif k < 0.90:
            for _ in range(rng.choice([1, 1, 3, len(order) + 2])):
                do_iter(rng.random() < 0.4)
        elif k < 0.93 and order and empties > 0:
            empties -= 1
            # empty the map completely (the table is freed), through the iterator or by key
            if rng.random() < 0.5:
                ops.append('itstart')
                it = 'fresh'
                for _ in range(len(order) + 1):
                    do_iter(True)
            else:
                it = 'fresh'
                ops.append('itstart')
                for key in list(order):
                    ops.append('rm:' + hx(key))
                    order.remove(key)
                    dead.append(key)
        elif undisciplined and order and it in ('fresh', 'end'):
            ops.append('ins:%s:%d' % (hx(rng.choice(order)), rng.randint(-9, 9)))
            # from here on only lookups, removals of absent keys and a final fresh iteration: the shadow no longer tracks duplicates
            for _ in range(rng.randint(0, 20)):
                ops.append('find:' + hx(rng.choice(order)))
            break
    ops.append('itstart')
    if not (undisciplined and ops and any(o.startswith('ins') for o in ops[-25:]) and len(set(order)) != len(order)):
        for _ in range(len(order) + 2):
            ops.append('itnext')
    return {'part': 'map', 'kind': kind, 'ops': ops}


def gen_map_long(rng):
    """several thousand distinct keys: the table doubles 32 -> 64 -> ... on its own"""
    kind = rng.choice('si')
    n = rng.choice([400, 1200, 3000])
    keys = set()
    while len(keys) < n:
        keys.add(rand_key(rng, kind) if kind == 's' and rng.random() < 0.3 else
                 (rng.randrange(0, 2**31).to_bytes(4, 'little') if kind == 'i' else bytes(rng.choice(b'abcdefgh0123') for _ in range(rng.randint(6, 20)))))
    keys = sorted(keys)
    rng.shuffle(keys)
    ops = ['ins:%s:%d' % (common.hexs(k), i) for i, k in enumerate(keys)]
    probes = [rng.choice(keys) for _ in range(50)]
    ops += ['find:' + common.hexs(k) for k in probes]
    gone = keys[::3]
    ops += ['rm:' + common.hexs(k) for k in gone]
    ops += ['find:' + common.hexs(k) for k in gone[:20] + probes[:20]]
    ops += ['itstart'] + ['itnext'] * 30
    return {'part': 'map', 'kind': kind, 'ops': ops}


def eval_map(ctx, cases, res, binary, drv):
    if not cases:
        return
    lines = ['map %s %d %s' % (c['kind'], len(c['ops']), ' '.join(c['ops'])) for c in cases]
    impl = run_lines(binary, lines)
    mq, oq = [], []
    for c, o in zip(cases, impl):
        toks = o.split(' ')
        outs = [t.rpartition('@')[0] for t in toks[:-1]]
        mq.append('map %d %s' % (len(c['ops']), ' '.join(c['ops'])))
        if len(outs) == len(c['ops']) and all(t and t[0] in 'PNUE' for t in outs):
            oq.append('mapok %d %s %s' % (len(c['ops']), ' '.join(c['ops']), ' '.join(outs)))
        else:
            oq.append('bad')
    ans = run_driver_par(drv, mq + oq)
    n = len(cases)
    for i, (c, o) in enumerate(zip(cases, impl)):
        m, ok = ans[i], ans[n + i]
        disc = '0' if ok == 'U' else '1'
        ok = '1' if ok == 'U' else ok
        res.evaluations += 1
        itoks, mtoks = o.split(' '), m.split(' ')
        if mtoks != itoks:
            k = first_diff(mtoks, itoks)
            res.disagreements.append({'case': c, 'at': k, 'op': c['ops'][k] if k is not None and k < len(c['ops']) else 'final structure',
                                      'model': mtoks[k][:300] if k is not None and k < len(mtoks) else m[:200],
                                      'impl': itoks[k][:300] if k is not None and k < len(itoks) else o[:200]})
        if ok != '1':
            res.oracle_failures.append({'case': c, 'signature': 'map-results',
                                        'what': 'map.c: the observed results of a disciplined operation sequence are not those of the dictionary '
                                                '(lookup, stable value address, insertion-ordered iteration, removal during iteration)',
                                        'impl': o[:400]})
        shapes = [t.rpartition('@')[2] for t in itoks[:-1]]
        nbs = sorted(set(int(x.split('/')[0]) for x in shapes if x and x != '-'))
        res.count('map expansions=%s' % (max(0, len(nbs) - 1) if len(nbs) <= 5 else '5+'))
        res.count('map keys=%s' % c['kind'])
        res.count('map disciplined=%s' % disc)
        if any(x != '-' and x.split('/')[2] == '1' for x in shapes):
            res.count('map noexpand reached')
        if '-' in shapes[1:]:
            res.count('map table freed')
        for op in c['ops']:
            res.count('map op ' + op.split(':')[0])
        if len(nbs) >= 3 and disc == '1':
            res.nontrivial.add('map ' + hashlib.sha1(repr(c).encode()).hexdigest())
    res.traces_validated += len(cases)


MAP_INSERT_SITES = {'conf-token.c', 'regress-html.c', 'report.c', 'robsd-wait.c'}


def check_call_sites(res):
    """the dictionary theorem assumes callers insert only absent keys; the call sites known to do so (find first,
    distinct constants, or - report.c, robsd-wait.c - lookups that do not care) are listed; a new site must be reviewed"""
    import re
    sites = set()
    for p in glob.glob(os.path.join(common.REPO, '*.c')):
        if re.search(r'\bMAP_INSERT(_VALUE|_N)?\(', open(p, errors='replace').read()):
            sites.add(os.path.basename(p))
    extra = sites - MAP_INSERT_SITES
    if extra:
        res.tie_errors.append('new MAP_INSERT call site(s) %s: the insert-only-absent-keys discipline has not been reviewed there' % sorted(extra))
    res.extra['map_insert_call_sites'] = sorted(sites)


# --------------------------------------------------------------------------- entry points

def load_corpus():
    cases = []
    for p in sorted(glob.glob(os.path.join(common.VERIF, 'corpus', 'C20', '*.json'))):
        c = json.load(open(p))
        cases += c if isinstance(c, list) else [c]
    return cases


def env(ctx):
    if not hasattr(ctx, 'c20_env'):
        impl = ctx.build_impl()
        drv = ctx.build_driver('ks', withz=True)
        ctx.c20_env = (impl, drv, build_containers(ctx, impl, with_map=True))
    return ctx.c20_env


EVAL = {'vec': eval_vec, 'buf': eval_buf, 'map': eval_map}


def evaluate(ctx, cases, res):
    impl, drv, binary = env(ctx)
    eval_arith(ctx, [c for c in cases if c['part'] == 'arith'], res, impl, drv)
    for part, f in EVAL.items():
        f(ctx, [c for c in cases if c['part'] == part], res, binary, drv)
    return res


def shrink(ctx, case, want):
    """greedy removal of chunks of operations while the failure ('oracle' or 'disagree') persists"""
    if case['part'] not in EVAL:
        return case
    impl, drv, binary = env(ctx)

    def fails(c):
        r = common.Result()
        try:
            EVAL[c['part']](ctx, [c], r, binary, drv)
        except Exception:
            return False
        if want == 'oracle':
            return bool(r.oracle_failures)
        if c['part'] == 'map' and not r.distribution.get('map disciplined=1'):
            return False          # stay inside defined behaviour
        return bool(r.disagreements)
    ops = list(case['ops'])
    budget = 400
    chunk = max(1, len(ops) // 2)
    while chunk >= 1 and budget > 0:
        i = 0
        while i < len(ops) and budget > 0:
            cand = ops[:i] + ops[i + chunk:]
            budget -= 1
            if cand and fails(dict(case, ops=cand)):
                ops = cand
            else:
                i += chunk
        chunk //= 2
    return dict(case, ops=ops)


def minimise(ctx, res):
    """shrink the first oracle failure of every signature and the first disagreement of every part"""
    seen = set()
    for f in res.oracle_failures:
        if f['signature'] in seen or f['case']['part'] not in EVAL:
            continue
        seen.add(f['signature'])
        f['original_length'] = len(f['case']['ops'])
        f['case'] = shrink(ctx, f['case'], 'oracle')
    seen = set()
    for d in res.disagreements:
        part = d['case']['part']
        if part in seen or part not in EVAL:
            continue
        seen.add(part)
        d['case'] = shrink(ctx, d['case'], 'disagree')


def run(ctx):
    res = common.Result()
    res.rule = ('arith: every pair of the boundary grid {min, min+1, -1, 0, 1, 2, max-1, max, +-2^k, +-2^k+-1} per type and operation '
                'plus operands aimed at the flip points of the range tests (a+b, a-b around min/max, b around max/a and min/a), each run '
                'through the portable fallback and the arithmetic.h entry point in three builds; non-trivial = operands not in {0,1}, '
                'distinct by (type, operation, a, b).  containers: seeded operation sequences; non-trivial = the sequence crosses at '
                'least two reallocations (vector, buffer) / two bucket expansions and respects the call-site discipline (map), distinct by content')
    res.assumptions = ['LP64, little-endian (HASH_JEN reads 32-bit words); arithmetic operands restricted to the declared parameter type; '
                       'allocation never fails for requests below 2^50 bytes and always fails above (no fault injection); '
                       'map sequences never remove the element the iterator points to (use after free in C)']
    cases = load_corpus()
    cases += [gen_vec(ctx.rng) for _ in range(ctx.budget(1500, 30000))]
    cases += [gen_buf(ctx.rng) for _ in range(ctx.budget(1500, 30000))]
    cases += [gen_map(ctx.rng) for _ in range(ctx.budget(1000, 20000))]
    cases += [gen_map_long(ctx.rng) for _ in range(ctx.budget(10, 200))]
    res.samples = [dict(c, ops=c['ops'][:12] + (['...'] if len(c['ops']) > 12 else [])) for c in cases if c['part'] in EVAL][:3]
    check_call_sites(res)
    step = 5000
    for i in range(0, len(cases), step):
        evaluate(ctx, cases[i:i + step], res)
    for chunk in arith_case_chunks(ctx):
        if len(res.samples) < 6:
            res.samples.append([c for c in chunk if c['src'] == 'aimed'][0])
        evaluate(ctx, chunk, res)
    minimise(ctx, res)
    return res


def extended_search(ctx, res, proof):
    """a proof, the tie or the correspondence broke without an oracle failure in the quick budget: the full
    boundary grid (every k) for the arithmetic, and ten times the container sequences"""
    ctx.tier = 'thorough'
    try:
        more = common.Result()
        for chunk in arith_case_chunks(ctx, aimed=5000):
            evaluate(ctx, chunk, more)
        cases = [gen_vec(ctx.rng) for _ in range(4000)] + [gen_buf(ctx.rng) for _ in range(4000)] + [gen_map(ctx.rng) for _ in range(3000)]
        evaluate(ctx, cases, more)
        minimise(ctx, more)
        return more
    finally:
        ctx.tier = 'quick'


def replay(ctx, rep):
    case = rep.get('case') or (rep.get('first_disagreements') or [{}])[0].get('case')
    if case is None:
        print(json.dumps(rep, indent=1)[:3000])
        return 1
    # the model must be the one of the tree being replayed against: regenerate and rebuild first
    errs = ctx.regen(TRANSLATORS)
    proof = ctx.prove()
    print('translators:', errs or 'ok', '| proofs on this tree:', 'ok' if proof['ok'] else 'BROKEN at %s' % proof['failed'])
    res = common.Result()
    evaluate(ctx, [case], res)
    print('case:', json.dumps(case))
    for e in res.tie_errors:
        print('tie error:', e)
    print('disagreements (model vs implementation):', [{k: v for k, v in d.items() if k != 'case'} for d in res.disagreements])
    print('oracle failures (specification vs implementation):', [(f['signature'], f['what'], f.get('impl', '')[:200]) for f in res.oracle_failures])
    return 1 if (res.disagreements or res.oracle_failures or res.tie_errors) else 0
