"""Translator: regress-log.c, regress-log.h, robsd-regress-log.c and the callers of the extractor
(util-regress.sh regress_failed, util.sh step_exec, regress-html.c parse_run_log, step-exec.h) -> Gen_RegressLog.v.

What is read from the source and handed to Coq as data (RegressLog/RLTie.v proves the model of RLDefs.v /
RLCallDefs.v equal to the generic reading of these tables, so a changed keyword, marker string, scan
character, option letter, exit code or caller option breaks a pin):

  is{skipped,failed,xfailed,xpassed}   the strstr() needles, in source order (the predicate is their disjunction)
  isxtrace                             the trace character
  ismarker / ismarker_subdir           the strncmp() needle
  ismarker_regress                     needle, separator after it, the (previous, current) pair that ends the scan
  regress_log_parse_impl               the selection test as a list of (flag, predicate) pairs joined by ||,
                                       and the five statements of the loop the model transcribes
  regress-log.h                        the flag bits
  robsd-regress-log.c main             getopt string, option -> flag table, the exit codes 2 / 1 / 0, the separator handling
  util-regress.sh regress_failed       the option string given to robsd-regress-log
  util.sh step_exec                    the mode test and the status written when regress_failed succeeds
  util.sh step_exec_job                the return value of step_exec goes unchanged into step_write -e and the hook (pinned as text)
  regress-html.c parse_run_log         the status decision chain; FOR_RUN_STATUSES failure flags; EX_TIMEOUT
  regress_log_trim                     the whole body, statement by statement: initial xbeg / xend, the leading-trace skip, the
                                       xend update of a trace line (guarded by `xend == 0` or not), the reset on every other line,
                                       the line terminator, the final "%.*s" length.  The variants the pattern knows become the
                                       constants trim_* (RegressLog/RLTrimTie.v: trim = the generic loop read with them; a variant
                                       breaks C13_tie_trim only); anything else raises.
  report.c regress_report_skip_step    the flags given to regress_log_peek, the suite / quiet test, the return values
  report.c regress_report_step_log     the flags given to regress_log_parse (always / unless quiet), the rv > 0 / rv < 0 decisions
  report.c number_of_failures_...      failures are counted from the exit field alone (pinned as text)

Every pattern raises when it no longer matches."""
import os, re


def strip_comments(s):
    return re.sub(r'/\*.*?\*/', ' ', s, flags=re.S)


def norm(body):
    return re.sub(r'\s+', ' ', strip_comments(body)).strip()


def func_body(src, name, fname):
    m = re.search(r'^%s\([^)]*\)\n\{\n(.*?)^\}\n' % re.escape(name), src, re.S | re.M)
    if not m:
        raise ValueError('%s: function %s not found' % (fname, name))
    return m.group(1)


def coq_bytes(s):
    if isinstance(s, str):
        s = s.encode()
    return '[' + '; '.join(str(b) for b in s) + ']%N'


def c_char(tok, where):
    """'x' or an escape -> byte value"""
    esc = {'\\n': 10, '\\t': 9, '\\0': 0, "\\'": 39, '\\\\': 92, '\\r': 13}
    if tok in esc:
        return esc[tok]
    if len(tok) != 1:
        raise ValueError('%s: unexpected character constant %r' % (where, tok))
    return ord(tok)


FLAGS = ['FAILED', 'SKIPPED', 'XFAILED', 'XPASSED']
PREDS = ['isskipped', 'isfailed', 'isxfailed', 'isxpassed']

MARKER_REGRESS = re.compile(
    r'^const char needle\[\] = "([^"\\]*)"; '
    r'if \(strncmp\(str, needle, sizeof\(needle\) - 1\) != 0\) return 0; str \+= sizeof\(needle\) - 1; '
    r"if \(str\[0\] != '([^']|\\.)'\) return 0; str \+= 1; "
    r"for \(; str\[0\] != '\\0'; str\+\+\) \{ if \(str\[-1\] == '([^']|\\.)' && str\[0\] == '([^']|\\.)'\) break; \} "
    r'if \(strncmp\(str, needle, sizeof\(needle\) - 1\) != 0\) return 0; str \+= sizeof\(needle\) - 1; '
    r"return str\[0\] == '\\0';$")
MARKER_SUBDIR = re.compile(
    r'^const char needle\[\] = "([^"\\]*)"; return strncmp\(str, needle, sizeof\(needle\) - 1\) == 0;$')
NEEDLES = re.compile(r'^return ((?:strstr\(str, "[^"\\]*"\) != NULL(?: \|\| )?)+);$')
SELECT = re.compile(r'if \(((?:\(\(flags & REGRESS_LOG_[A-Z]+\) && [a-z]+\(line\)\)(?: \|\| )?)+)\) \{')

# statements of regress_log_parse_impl's loop that the model transcribes one by one
LOOP_PINS = [
    ('the leading-trace skip', 'if (xtrace && isxtrace(line)) continue; xtrace = 0;'),
    ('the marker reset of the scratch block',
     "if (ismarker(line)) buffer_reset(scratch); buffer_puts(scratch, line, strlen(line)); buffer_putc(scratch, '\\n');"),
    ('the first-block / NEWLINE test', 'int first = nfound == 0 && (flags & REGRESS_LOG_NEWLINE) == 0;'),
    ('peek stops at the first hit', 'nfound++; if (flags & REGRESS_LOG_PEEK) break;'),
    ('the block separator and the copy of the scratch block',
     "if (!first) buffer_putc(out, '\\n'); buffer_putc(scratch, '\\0'); "
     'buffer_printf(out, "%s", buffer_get_ptr(scratch)); buffer_reset(scratch);'),
    ('the initial state', 'int nfound = 0; int xtrace = 1;'),
    ('an unreadable log is -1', 'bf = buffer_read(path); if (bf == NULL) return -1;'),
]

MAIN_LOOP = ("for (i = 0; i < argc; i++) { if (n > 0) buffer_putc(bf, '\\n'); "
             'switch (regress_log_parse(argv[i], bf, flags)) { case -1: error = 1; break; '
             'case 0: if (n > 0) buffer_pop(bf, 1); break; default: n++; } }')
MAIN_TAIL = re.compile(
    r"if \(!error && n > 0 && doprint\) \{ buffer_putc\(bf, '\\0'\); printf\(\"%s\", buffer_get_ptr\(bf\)\); \} "
    r'buffer_free\(bf\); if \(error\) return (\d+); if \(n == 0\) return (\d+); return (\d+);$')

HTML_CHAIN = re.compile(
    r'if \(run->exit == EX_TIMEOUT\) \{ \*status = ([A-Z]+); \} '
    r'else if \(run->exit != 0\) \{ \*status = regress_log_peek\(src_path, REGRESS_LOG_([A-Z]+)\) > 0 \? ([A-Z]+) : ([A-Z]+); \} '
    r'((?:else if \(regress_log_peek\(src_path, REGRESS_LOG_[A-Z]+\) > 0\) \{ \*status = [A-Z]+; \} )*)'
    r'else \{ \*status = ([A-Z]+); \}')

# regress_log_trim, whole normalised body; groups: xbeg init, xend init, leading skip, `xend == 0` guard, else-reset,
# line terminator, the length expression
TRIM = re.compile(
    r'^struct buffer \*bf, \*rd; struct buffer_getline it = \{0\}; size_t xbeg = (\d+); size_t xend = (\d+); '
    r'rd = buffer_read\(path\); if \(rd == NULL\) return -1; buffer_reset\(out\); '
    r'bf = buffer_alloc\(1 << 20\); if \(bf == NULL\) err\(1, NULL\); '
    r'for \(;;\) \{ const char \*line; line = buffer_getline\(rd, &it\); if \(line == NULL\) break; '
    r'(if \(xbeg != 0 && isxtrace\(line\)\) continue; xbeg = 0; )?'
    r'if \(isxtrace\(line\)\) \{ (if \(xend == 0\) )?xend = buffer_get_len\(bf\); \}( else \{ xend = 0; \})? '
    r"buffer_puts\(bf, line, strlen\(line\)\); buffer_putc\(bf, '([^']|\\.)'\); \} "
    r'buffer_printf\(out, "%\.\*s", \(int\)\((xend \? xend : buffer_get_len\(bf\)|buffer_get_len\(bf\))\), buffer_get_ptr\(bf\)\); '
    r'buffer_free\(bf\); buffer_getline_free\(&it\); buffer_free\(rd\); return 1;$')

REPORT_SKIP = re.compile(
    r'^const char \*log_path, \*name; arena_scope\(r->scratch, s\); name = step_get_field\(step, "name"\)->str; '
    r'if \(!is_regress_step\(r, name\) \|\| is_regress_quiet\(r, name\)\) return 1; '
    r'log_path = step_get_log_path\(r, step, &s\); '
    r'if \(log_path == NULL\) \{ warnx\("[^"]*", name\); return -1; \} '
    r'if \(regress_log_peek\(log_path, ((?:REGRESS_LOG_[A-Z]+(?: \| )?)+)\) > 0\) return 0; return 1;$')
REPORT_LOG = re.compile(
    r'regress_log_flags = ((?:REGRESS_LOG_[A-Z]+(?: \| )?)+); '
    r'if \(!is_regress_quiet\(r, name\)\) regress_log_flags \|= ((?:REGRESS_LOG_[A-Z]+(?: \| )?)+); '
    r'rv = regress_log_parse\(log_path, bf, regress_log_flags\); '
    r"if \(rv > 0\) \{ buffer_putc\(r->out, '\\n'\); buffer_puts\(r->out, buffer_get_ptr\(bf\), buffer_get_len\(bf\)\); "
    r'return STEP_LOG_HANDLED; \} if \(rv < 0\) (?:return STEP_LOG_ERROR;|\{ warn\("%s", log_path\); return STEP_LOG_ERROR; \}) '
    r'return STEP_LOG_UNHANDLED;$')      # the error branch with or without its diagnostic (a later fix: in /repo added the warn)
REPORT_COUNT = ('for (i = 0; i < nsteps; i++) { if (step_get_field(&steps[i], "exit")->integer != 0) nfailures++; } '
                'if (nfailures > 0) {')


def flag_list(expr, where):
    fs = re.findall(r'REGRESS_LOG_([A-Z]+)', expr)
    for f in fs:
        if f not in FLAGS:
            raise ValueError('%s: unknown or non-selection flag REGRESS_LOG_%s' % (where, f))
    if not fs or len(set(fs)) != len(fs):
        raise ValueError('%s: empty or repeated flag set %r' % (where, expr))
    return '[%s]' % '; '.join('GF_' + f for f in fs)


def generate(repo):
    def rd(n):
        return open(os.path.join(repo, n)).read()
    src, hdr, cmd = rd('regress-log.c'), rd('regress-log.h'), rd('robsd-regress-log.c')
    out = ['(* Gen_RegressLog.v - GENERATED on every check by harness/t_regresslog.py from regress-log.c, regress-log.h,',
           '   robsd-regress-log.c, util-regress.sh, util.sh, regress-html.c and step-exec.h.  Do not edit. *)',
           'From Coq Require Import List NArith.', 'Import ListNotations.', '',
           'Inductive gflag := GF_FAILED | GF_SKIPPED | GF_XFAILED | GF_XPASSED.',
           'Inductive gpred := GP_isskipped | GP_isfailed | GP_isxfailed | GP_isxpassed.', '']

    # ---- outcome predicates
    out.append('(* strstr needles, in source order; each predicate is the disjunction of its needles *)')
    for p in PREDS:
        m = NEEDLES.match(norm(func_body(src, p, 'regress-log.c')))
        if not m:
            raise ValueError('regress-log.c %s: no longer a disjunction of strstr(str, "...") != NULL tests' % p)
        needles = re.findall(r'strstr\(str, "([^"\\]*)"\)', m.group(1))
        if not needles or any(n == '' for n in needles):
            raise ValueError('regress-log.c %s: empty needle' % p)
        out.append('Definition needles_%s : list (list N) := [%s].   (* %s *)' % (
            p, '; '.join(coq_bytes(n) for n in needles), ', '.join(needles)))
    # ---- trace
    m = re.match(r"^return str\[0\] == '([^']|\\.)';$", norm(func_body(src, 'isxtrace', 'regress-log.c')))
    if not m:
        raise ValueError('regress-log.c isxtrace: body changed')
    out += ['', '(* isxtrace: first character of a shell-trace line *)',
            'Definition xtrace_char : N := %d%%N.' % c_char(m.group(1), 'isxtrace')]
    # ---- markers
    if norm(func_body(src, 'ismarker', 'regress-log.c')) != 'return ismarker_regress(str) || ismarker_subdir(str);':
        raise ValueError('regress-log.c ismarker: no longer "regress or subdir"')
    m = MARKER_SUBDIR.match(norm(func_body(src, 'ismarker_subdir', 'regress-log.c')))
    if not m or not m.group(1):
        raise ValueError('regress-log.c ismarker_subdir: body changed')
    out += ['', '(* ismarker_subdir: prefix *)',
            'Definition marker_subdir_needle : list N := %s.   (* %s *)' % (coq_bytes(m.group(1)), m.group(1))]
    m = MARKER_REGRESS.match(norm(func_body(src, 'ismarker_regress', 'regress-log.c')))
    if not m or not m.group(1):
        raise ValueError('regress-log.c ismarker_regress: body changed: %r' % norm(func_body(src, 'ismarker_regress', 'regress-log.c')))
    out += ['', '(* ismarker_regress: needle at both ends, separator after the first, the scan stops at str[-1] == prev && str[0] == cur *)',
            'Definition marker_regress_needle : list N := %s.   (* %s *)' % (coq_bytes(m.group(1)), m.group(1)),
            'Definition marker_regress_sep : N := %d%%N.' % c_char(m.group(2), 'ismarker_regress'),
            'Definition marker_scan_prev : N := %d%%N.' % c_char(m.group(3), 'ismarker_regress'),
            'Definition marker_scan_cur : N := %d%%N.' % c_char(m.group(4), 'ismarker_regress')]
    # ---- the selection test and the loop
    body = norm(func_body(src, 'regress_log_parse_impl', 'regress-log.c'))
    ms = SELECT.findall(body)
    if len(ms) != 1:
        raise ValueError('regress-log.c regress_log_parse_impl: the selection test is no longer one disjunction of '
                         '"(flags & REGRESS_LOG_x) && isx(line)" terms (found %d)' % len(ms))
    pairs = re.findall(r'\(\(flags & REGRESS_LOG_([A-Z]+)\) && ([a-z]+)\(line\)\)', ms[0])
    for f, p in pairs:
        if f not in FLAGS or p not in PREDS:
            raise ValueError('regress-log.c regress_log_parse_impl: unknown flag/predicate %s/%s' % (f, p))
    out += ['', '(* regress_log_parse_impl: a line is selected iff for some pair the flag is set and the predicate holds *)',
            'Definition selection : list (gflag * gpred) := [%s].' % '; '.join('(GF_%s, GP_%s)' % fp for fp in pairs)]
    for what, text in LOOP_PINS:
        if body.count(text) != 1:
            raise ValueError('regress-log.c regress_log_parse_impl: %s changed (expected once: %r)' % (what, text))
    if norm(func_body(src, 'regress_log_peek', 'regress-log.c')).count(
            'rv = regress_log_parse_impl(path, scratch, NULL, flags | REGRESS_LOG_PEEK);') != 1:
        raise ValueError('regress-log.c regress_log_peek: no longer the parse loop with REGRESS_LOG_PEEK')
    # ---- flag bits
    bits = dict(re.findall(r'^#define\s+REGRESS_LOG_([A-Z]+)\s+0x([0-9a-fA-F]+)u\s*$', hdr, re.M))
    for f in FLAGS + ['NEWLINE', 'PEEK']:
        if f not in bits:
            raise ValueError('regress-log.h: REGRESS_LOG_%s not found' % f)
    vals = [int(bits[f], 16) for f in FLAGS + ['NEWLINE', 'PEEK']]
    out += ['', '(* regress-log.h: FAILED, SKIPPED, XFAILED, XPASSED, NEWLINE, PEEK *)',
            'Definition flag_bits : list N := [%s]%%N.' % '; '.join(str(v) for v in vals)]
    # ---- the command
    mb = norm(func_body(cmd, 'main', 'robsd-regress-log.c'))
    m = re.search(r'getopt\(argc, argv, "([A-Za-z]*)"\)', mb)
    if not m:
        raise ValueError('robsd-regress-log.c: getopt string not found')
    optstring = m.group(1)
    opts = re.findall(r"case '([A-Za-z])': flags \|= REGRESS_LOG_([A-Z]+); break;", mb)
    m2 = re.search(r"case '([A-Za-z])': doprint = 0; break;", mb)
    if not m2 or sorted(optstring) != sorted([o for o, _ in opts] + [m2.group(1)]):
        raise ValueError('robsd-regress-log.c: option switch and getopt string disagree')
    for _, f in opts:
        if f not in FLAGS:
            raise ValueError('robsd-regress-log.c: option sets unknown flag %s' % f)
    if 'unsigned int flags = 0; int doprint = 1; int error = 0; int n = 0;' not in mb:
        raise ValueError('robsd-regress-log.c: initial values changed')
    if 'if (argc == 0 || flags == 0) usage();' not in mb:
        raise ValueError('robsd-regress-log.c: the empty-selection / no-file test changed')
    if mb.count(MAIN_LOOP) != 1:
        raise ValueError('robsd-regress-log.c: the file loop changed')
    m3 = MAIN_TAIL.search(mb)
    if not m3:
        raise ValueError('robsd-regress-log.c: the print condition / exit codes changed')
    mu = re.search(r'fprintf\(stderr, "usage: [^"]*"\); exit\((\d+)\);', norm(func_body(cmd, 'usage', 'robsd-regress-log.c')))
    if not mu:
        raise ValueError('robsd-regress-log.c: usage() changed')
    out += ['', '(* robsd-regress-log.c *)',
            'Definition optstring : list N := %s.   (* %s *)' % (coq_bytes(optstring), optstring),
            'Definition opt_flags : list (N * gflag) := [%s].   (* %s *)' % (
                '; '.join('(%d%%N, GF_%s)' % (ord(o), f) for o, f in opts), ', '.join('-%s %s' % of for of in opts)),
            'Definition opt_noprint : N := %d%%N.   (* -%s *)' % (ord(m2.group(1)), m2.group(1)),
            'Definition exit_error : N := %s%%N.' % m3.group(1),
            'Definition exit_none : N := %s%%N.' % m3.group(2),
            'Definition exit_found : N := %s%%N.' % m3.group(3),
            'Definition exit_usage : N := %s%%N.' % mu.group(1)]
    # ---- callers
    ur = rd('util-regress.sh')
    m = re.search(r'^regress_failed\(\) \{\n(.*?)^\}\n', ur, re.S | re.M)
    if not m:
        raise ValueError('util-regress.sh: regress_failed not found')
    rf = [l.strip() for l in m.group(1).splitlines() if l.strip() and not l.strip().startswith('#')]
    mm = re.match(r'^regress_log -([A-Za-z]+) "\$\{_log\}"$', rf[-1]) if rf else None
    if not mm or rf[:-1] != ['local _log', '_log="$1"; : "${_log:?}"']:
        raise ValueError('util-regress.sh regress_failed: body changed: %r' % rf)
    m = re.search(r'^regress_log\(\) \{\n\t"\$\{ROBSDREGRESSLOG:-\$\{EXECDIR\}/robsd-regress-log\}" "\$@"\n\}\n', ur, re.M)
    if not m:
        raise ValueError('util-regress.sh regress_log: no longer a plain exec wrapper')
    us = rd('util.sh')
    m = re.search(r'^step_exec\(\) \(\n(.*?)^\)\n', us, re.S | re.M)
    if not m:
        raise ValueError('util.sh: step_exec not found')
    se = re.sub(r'\s+', ' ', re.sub(r'^\s*#.*$', '', m.group(1), flags=re.M)).strip()
    ms = re.search(r'echo (\d+) >"\$\{_fail\}" .*?\{ "\$\{ROBSDEXEC\}" .*?"\$\{_step\}" \|\| echo "\$\?" >"\$\{_fail\}" '
                   r'if \[ "\$\{_MODE\}" = "([a-z-]+)" \]; then regress_failed "\$\{_log\}" && echo (\d+) >"\$\{_fail\}" fi '
                   r'\} </dev/null 2>&1 \| tee "\$\{_log\}" _err="\$\(<"\$\{_fail\}"\)" rm -f "\$\{_fail\}" return "\$\{_err\}"$', se)
    ma = re.search(r'echo (\d+) >"\$\{_fail\}" .*?\{ "\$\{ROBSDEXEC\}" .*?"\$\{_step\}" \|\| echo "\$\?" >"\$\{_fail\}" '
                   r'\} </dev/null 2>&1 \| tee "\$\{_log\}" '
                   r'if \[ "\$\{_MODE\}" = "([a-z-]+)" \]; then regress_failed "\$\{_log\}" && echo (\d+) >"\$\{_fail\}" fi '
                   r'_err="\$\(<"\$\{_fail\}"\)" rm -f "\$\{_fail\}" return "\$\{_err\}"$', se)
    if ms:
        inside, g = True, ms
    elif ma:
        inside, g = False, ma
    else:
        raise ValueError('util.sh step_exec: body changed: %r' % se[-500:])
    if g.group(1) != '0':
        raise ValueError('util.sh step_exec: the status file no longer starts at 0')
    # step_exec_job: what step_exec returns is what is recorded and what the hook gets (pinned as text; the bridge
    # RegressLog/RLOrchBridge.v instantiates the free exit status of the orchestrator models with step_exec's value)
    m = re.search(r'^step_exec_job\(\) \{\n(.*?)^\}\n', us, re.S | re.M)
    if not m:
        raise ValueError('util.sh: step_exec_job not found')
    sj = [l.strip() for l in m.group(1).splitlines()]
    hand_over = ['local _exit=0', 'step_exec -l "${_builddir}/${_log}" -s "${_name}" || _exit="$?"',
                 'step_write -l "${_log}" -s "${_id}" -n "${_name}" -e "${_exit}" -d "${_d1}" \\',
                 'robsd_hook -v "step-exit=${_exit}" -v "step-name=${_name}"']
    pos = [sj.index(l) if sj.count(l) == 1 else -1 for l in hand_over]
    if -1 in pos or pos != sorted(pos) or m.group(1).count('_exit=') != 2:
        raise ValueError('util.sh step_exec_job: the status of step_exec is no longer handed unchanged to step_write -e and the hook')
    hs = rd('regress-html.c')
    eh = rd('step-exec.h')
    mt = re.findall(r'^#define\s+EX_TIMEOUT\s+(\d+)\s*$', eh, re.M)
    if len(mt) != 1:
        raise ValueError('step-exec.h: EX_TIMEOUT not found')
    mtab = re.search(r'^#define FOR_RUN_STATUSES\(OP\)\s*\\\n((?:.*\\\n)*.*)\n', hs, re.M)
    if not mtab:
        raise ValueError('regress-html.c: FOR_RUN_STATUSES not found')
    table = re.findall(r'OP\(\s*([A-Z]+)\s*,\s*([01])\s*\)', strip_comments(mtab.group(1)))
    mc = HTML_CHAIN.search(norm(func_body(hs, 'parse_run_log', 'regress-html.c')))
    if not mc:
        raise ValueError('regress-html.c parse_run_log: the status decision chain changed')
    zero = re.findall(r'regress_log_peek\(src_path, REGRESS_LOG_([A-Z]+)\) > 0\) \{ \*status = ([A-Z]+); \}', mc.group(5))
    names = [t for t, _ in table]
    used = [mc.group(1), mc.group(3), mc.group(4), mc.group(6)] + [s for _, s in zero]
    for s in used:
        if s not in names:
            raise ValueError('regress-html.c parse_run_log: status %s is not in FOR_RUN_STATUSES' % s)
    for f in [mc.group(2)] + [f for f, _ in zero]:
        if f not in FLAGS:
            raise ValueError('regress-html.c parse_run_log: unknown flag %s' % f)
    out += ['', '(* util-regress.sh regress_failed: options given to robsd-regress-log *)',
            'Definition regress_failed_opts : list N := %s.   (* -%s *)' % (coq_bytes(mm.group(1)), mm.group(1)),
            '(* util.sh step_exec: in this mode a successful regress_failed overwrites the status *)',
            'Definition step_exec_mode : list N := %s.   (* %s *)' % (coq_bytes(g.group(2)), g.group(2)),
            'Definition step_exec_override : N := %s%%N.' % g.group(3),
            '(* the log is examined inside the pipeline that tee is still writing it from (true), or after it (false) *)',
            'Definition step_exec_checks_inside_pipeline : bool := %s.' % ('true' if inside else 'false'),
            '', '(* step-exec.h *)', 'Definition ex_timeout : N := %s%%N.' % mt[0],
            '', '(* regress-html.c FOR_RUN_STATUSES: statuses that count as failure *)',
            'Definition failure_statuses : list (list N) := [%s].   (* %s *)' % (
                '; '.join(coq_bytes(t) for t, f in table if f == '1'), ', '.join(t for t, f in table if f == '1')),
            '(* regress-html.c parse_run_log *)',
            'Definition html_timeout_status : list N := %s.   (* %s *)' % (coq_bytes(mc.group(1)), mc.group(1)),
            'Definition html_nonzero : gflag * list N * list N := (GF_%s, %s, %s).   (* peek %s ? %s : %s *)' % (
                mc.group(2), coq_bytes(mc.group(3)), coq_bytes(mc.group(4)), mc.group(2), mc.group(3), mc.group(4)),
            'Definition html_zero_chain : list (gflag * list N) := [%s].   (* %s *)' % (
                '; '.join('(GF_%s, %s)' % (f, coq_bytes(s)) for f, s in zero), ', '.join('%s -> %s' % fs for fs in zero)),
            'Definition html_zero_default : list N := %s.   (* %s *)' % (coq_bytes(mc.group(6)), mc.group(6))]
    # ---- report.c: the extractor's caller in the report
    rp = rd('report.c')
    m = REPORT_SKIP.match(norm(func_body(rp, 'regress_report_skip_step', 'report.c')))
    if not m:
        raise ValueError('report.c regress_report_skip_step: body changed: %r' % norm(func_body(rp, 'regress_report_skip_step', 'report.c'))[-300:])
    ml = REPORT_LOG.search(norm(func_body(rp, 'regress_report_step_log', 'report.c')))
    if not ml:
        raise ValueError('report.c regress_report_step_log: the flags / rv decisions changed')
    if norm(func_body(rp, 'number_of_failures_report_status', 'report.c')).count(REPORT_COUNT) != 1:
        raise ValueError('report.c number_of_failures_report_status: failures are no longer counted from the exit field alone')
    out += ['', '(* report.c regress_report_skip_step: a regress row with exit 0 gets a section iff regress_log_peek with these flags is > 0 *)',
            'Definition report_peek_flags : list gflag := %s.' % flag_list(m.group(1), 'report.c regress_report_skip_step'),
            '(* report.c regress_report_step_log: flags given to regress_log_parse: always, and in addition unless the suite is quiet *)',
            'Definition report_log_flags : list gflag := %s.' % flag_list(ml.group(1), 'report.c regress_report_step_log'),
            'Definition report_log_flags_unless_quiet : list gflag := %s.' % flag_list(ml.group(2), 'report.c regress_report_step_log')]
    # ---- regress_log_trim (kept LAST: Properties_C13.C13_tie_trim is the last tie)
    tb = norm(func_body(src, 'regress_log_trim', 'regress-log.c'))
    m = TRIM.match(tb)
    if not m:
        raise ValueError('regress-log.c regress_log_trim: body changed (no known variant): %r' % tb)
    out += ['', '(* regress_log_trim: initial xbeg / xend; the leading trace lines are passed over; on a trace line xend is set to the',
            '   length collected so far only while it is 0 (true) or every time (false); every other line resets it to 0;',
            '   the byte appended after every kept line; the final copy stops at xend when xend is not 0 *)',
            'Definition trim_xbeg_init : nat := %s.' % m.group(1),
            'Definition trim_xend_init : nat := %s.' % m.group(2),
            'Definition trim_skip_lead : bool := %s.' % ('true' if m.group(3) else 'false'),
            'Definition trim_xend_set_once : bool := %s.' % ('true' if m.group(4) else 'false'),
            'Definition trim_xend_reset : bool := %s.' % ('true' if m.group(5) else 'false'),
            'Definition trim_line_end : N := %d%%N.' % c_char(m.group(6), 'regress_log_trim'),
            'Definition trim_cut_at_xend : bool := %s.' % ('true' if m.group(7).startswith('xend ?') else 'false')]
    return {'Gen_RegressLog.v': '\n'.join(out) + '\n'}


if __name__ == '__main__':
    import sys
    print(generate(sys.argv[1] if len(sys.argv) > 1 else '/repo')['Gen_RegressLog.v'])
