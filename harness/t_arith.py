"""Translator T2 for C20: the 15 KS_*_overflow0 fallbacks of libks/arithmetic.c
-> coq/gen/Gen_Arith.v (DESIGN.md 4.2).

clang's JSON AST of the file as the repository compiles it (macros expanded,
implicit conversions explicit) is translated to Gallina over Z with the typed C
operations of Base/CInt.v.  Supported subset: compound statements,
do { } while (0), if/else, return, assignment through the single out-pointer,
local scalar declarations with initialiser; integer literals, parameters and
locals, parentheses, + - * / %, unary - ! ~, comparisons, && || ?:, & | ^ << >>,
implicit and C-style integral casts.  Anything else raises (the check then
reports the tie as broken) - nothing is approximated.
"""
import json, os, re, subprocess

FUNCS = ['KS_%s_%s_overflow0' % (t, o) for t in ('i32', 'i64', 'u32', 'u64', 'size') for o in ('add', 'sub', 'mul')]

# LP64: the C types an expression node may have, and the CInt type that carries their semantics
CTYPES = {
    'int': 'TInt', 'unsigned int': 'TUInt',
    'long': 'TLong', 'unsigned long': 'TULong',
    'long long': 'TLong', 'unsigned long long': 'TULong',   # same width and signedness as long on LP64
}
RANGES = {'TInt': (-2**31, 2**31 - 1), 'TUInt': (0, 2**32 - 1), 'TLong': (-2**63, 2**63 - 1), 'TULong': (0, 2**64 - 1)}

BINOPS = {'+': 'cadd', '-': 'csub', '*': 'cmul', '/': 'cdiv', '%': 'crem',
          '&': 'cband', '|': 'cbor', '^': 'cbxor'}
CMPOPS = {'<': 'clt', '>': 'cgt', '<=': 'cle', '>=': 'cge', '==': 'ceq', '!=': 'cne'}


class Unsupported(Exception):
    pass


def clang_ast(repo, relfile, fn):
    cmd = ['clang', '-fsyntax-only', '-Xclang', '-ast-dump=json', '-Xclang', '-ast-dump-filter=' + fn,
           '-I' + repo, os.path.join(repo, relfile)]
    r = subprocess.run(cmd, stdout=subprocess.PIPE, stderr=subprocess.PIPE, text=True, timeout=120)
    if r.returncode != 0:
        raise Unsupported('clang failed on %s: %s' % (relfile, r.stderr[-400:]))
    dec = json.JSONDecoder()
    txt = r.stdout
    i = 0
    docs = []
    while i < len(txt):
        while i < len(txt) and txt[i].isspace():
            i += 1
        if i >= len(txt):
            break
        o, i = dec.raw_decode(txt, i)
        docs.append(o)
    defs = [d for d in docs if d.get('kind') == 'FunctionDecl' and d.get('name') == fn
            and any(c.get('kind') == 'CompoundStmt' for c in d.get('inner', []))]
    if len(defs) != 1:
        raise Unsupported('%s: expected exactly one definition in %s, found %d' % (fn, relfile, len(defs)))
    return defs[0]


def ctype_of(node, what):
    t = node.get('type', {})
    q = t.get('desugaredQualType', t.get('qualType'))
    q = re.sub(r'\b(const|volatile)\b', '', q or '').strip()
    if q not in CTYPES:
        raise Unsupported('%s: type %r outside the supported integer types' % (what, q))
    return CTYPES[q]


class Fn:
    def __init__(self, decl):
        self.name = decl['name']
        self.scalars = {}     # decl id -> (gallina name, cty)
        self.outptr = None    # decl id of the single out-pointer, pointee cty
        self.params = []
        self.comments = []
        self.nlocal = 0
        body = None
        rt = decl['type']['qualType'].split('(')[0].strip()
        if rt != 'int':
            raise Unsupported('%s: return type %r' % (self.name, rt))
        self.ret = 'TInt'
        for c in decl.get('inner', []):
            k = c.get('kind')
            if k == 'ParmVarDecl':
                q = c['type'].get('desugaredQualType', c['type']['qualType'])
                if q.endswith('*'):
                    if self.outptr is not None:
                        raise Unsupported('%s: more than one pointer parameter' % self.name)
                    base = c['type']['qualType'].rstrip('*').strip()
                    pt = self.resolve_typedef(base, c)
                    self.outptr = (c['id'], pt, c.get('name', '_'))
                    self.comments.append('%s %s : out-pointer to %s' % (c['type']['qualType'], c.get('name'), pt))
                else:
                    ty = ctype_of(c, self.name + ' parameter ' + c.get('name', '?'))
                    nm = c['name']
                    if not re.match(r'^[a-z][a-z0-9_]*$', nm) or nm in ('st', 'fun', 'let', 'in', 'if', 'then', 'else', 'match', 'with', 'end'):
                        raise Unsupported('%s: parameter name %r' % (self.name, nm))
                    self.scalars[c['id']] = (nm, ty)
                    self.params.append((nm, ty, c['type']['qualType']))
                    self.comments.append('%s %s : %s = %s' % (c['type']['qualType'], nm, q, ty))
            elif k == 'CompoundStmt':
                body = c
            else:
                raise Unsupported('%s: unexpected %s in declaration' % (self.name, k))
        self.body = body

    def resolve_typedef(self, name, node):
        # pointee type of the out-pointer: known fixed-width names on LP64, or a plain C type
        table = {'int32_t': 'TInt', 'uint32_t': 'TUInt', 'int64_t': 'TLong', 'uint64_t': 'TULong', 'size_t': 'TULong'}
        if name in table:
            return table[name]
        if name in CTYPES:
            return CTYPES[name]
        raise Unsupported('%s: pointee type %r' % (self.name, name))

    # ---- expressions -> Gallina of type cval ----------------------------------
    def expr(self, n):
        k = n.get('kind')
        inner = n.get('inner', [])
        if k == 'ParenExpr':
            return self.expr(inner[0])
        if k == 'IntegerLiteral':
            ty = ctype_of(n, 'literal')
            v = int(n['value'])
            lo, hi = RANGES[ty]
            if not (lo <= v <= hi):
                raise Unsupported('literal %d outside %s' % (v, ty))
            return '(clit %s %s)' % (ty, zlit(v))
        if k == 'ImplicitCastExpr' or k == 'CStyleCastExpr':
            ck = n.get('castKind')
            if ck == 'LValueToRValue':
                return self.rvalue(inner[0])
            if ck == 'NoOp':
                return self.expr(inner[0])
            if ck == 'IntegralCast':
                to = ctype_of(n, 'cast target')
                frm = ctype_of(strip_parens(inner[0]), 'cast source')
                return '(ccast %s %s %s)' % (frm, to, self.expr(inner[0]))
            raise Unsupported('%s: cast kind %s' % (self.name, ck))
        if k == 'UnaryOperator':
            op = n['opcode']
            ty = ctype_of(n, 'unary ' + op)
            if op == '-':
                return '(cneg %s %s)' % (ty, self.expr(inner[0]))
            if op == '+':
                return self.expr(inner[0])
            if op == '!':
                return '(clnot %s)' % self.expr(inner[0])
            if op == '~':
                return '(cbnot %s %s)' % (ty, self.expr(inner[0]))
            raise Unsupported('%s: unary operator %s' % (self.name, op))
        if k == 'BinaryOperator':
            op = n['opcode']
            a, b = inner
            if op in BINOPS:
                ty = ctype_of(n, 'operator ' + op)
                ta, tb = ctype_of(a, 'operand'), ctype_of(b, 'operand')
                if ta != ty or tb != ty:
                    raise Unsupported('%s: operands of %s have types %s,%s, result %s' % (self.name, op, ta, tb, ty))
                return '(%s %s %s %s)' % (BINOPS[op], ty, self.expr(a), self.expr(b))
            if op in CMPOPS:
                if ctype_of(n, 'comparison') != 'TInt':
                    raise Unsupported('comparison result type')
                ta, tb = ctype_of(a, 'operand'), ctype_of(b, 'operand')
                if ta != tb:
                    raise Unsupported('%s: operands of %s have different types %s,%s' % (self.name, op, ta, tb))
                return '(%s %s %s %s)' % (CMPOPS[op], ta, self.expr(a), self.expr(b))
            if op in ('&&', '||'):
                if ctype_of(n, op) != 'TInt':
                    raise Unsupported('logical result type')
                return '(%s %s %s)' % ('cand' if op == '&&' else 'cor', self.expr(a), self.expr(b))
            if op in ('<<', '>>'):
                ty = ctype_of(n, 'shift')
                if ctype_of(a, 'shift operand') != ty:
                    raise Unsupported('shift operand type')
                return '(%s %s %s %s)' % ('cshl' if op == '<<' else 'cshr', ty, self.expr(a), self.expr(b))
            raise Unsupported('%s: binary operator %s in an expression' % (self.name, op))
        if k == 'ConditionalOperator':
            c, x, y = inner
            ty = ctype_of(n, '?:')
            if ctype_of(x, '?:') != ty or ctype_of(y, '?:') != ty:
                raise Unsupported('?: arm types')
            return '(ccond %s %s %s)' % (self.expr(c), self.expr(x), self.expr(y))
        raise Unsupported('%s: expression kind %s' % (self.name, k))

    def rvalue(self, n):
        n = strip_parens(n)
        if n.get('kind') == 'DeclRefExpr':
            rid = n['referencedDecl']['id']
            if rid in self.scalars:
                nm, ty = self.scalars[rid]
                if ctype_of(n, 'variable') != ty:
                    raise Unsupported('variable type changed')
                return '(cvar %s)' % nm
        raise Unsupported('%s: read of something that is not a scalar parameter or local' % self.name)

    # ---- statements -> Gallina of type cres; k = translation of what follows ----
    def block(self, stmts, k):
        """k: None (falling through is an error) or a function () -> text"""
        if not stmts:
            if k is None:
                raise Unsupported('%s: control reaches the end of the function without return' % self.name)
            return k()
        s, rest = stmts[0], stmts[1:]
        cont = (lambda: self.block(rest, k)) if (rest or k is not None) else None
        kind = s.get('kind')
        inner = s.get('inner', [])
        if kind == 'CompoundStmt':
            return self.block(inner, cont)
        if kind == 'NullStmt':
            return self.block(rest, k)
        if kind == 'DoStmt':
            body, cond = inner
            cond = strip_parens(cond)
            if not (cond.get('kind') == 'IntegerLiteral' and cond.get('value') == '0'):
                raise Unsupported('%s: do-while whose condition is not the literal 0' % self.name)
            if contains_kind(body, ('BreakStmt', 'ContinueStmt', 'GotoStmt', 'LabelStmt')):
                raise Unsupported('%s: break/continue/goto' % self.name)
            return self.block([body], cont)
        if kind == 'ReturnStmt':
            if not inner:
                raise Unsupported('return without value')
            if ctype_of(inner[0], 'return value') != self.ret:
                raise Unsupported('return value type')
            return '(creturn %s st)' % self.expr(inner[0])
        if kind == 'IfStmt':
            if s.get('hasInit') or s.get('hasVar'):
                raise Unsupported('if with init/var')
            cond, th = inner[0], inner[1]
            el = inner[2] if len(inner) > 2 else None
            tth = self.block([th], cont)
            tel = self.block([el], cont) if el is not None else (cont() if cont else None)
            if tel is None:
                raise Unsupported('%s: control reaches the end of the function without return' % self.name)
            return '(cif %s\n    %s\n    %s)' % (self.expr(cond), tth, tel)
        if kind == 'BinaryOperator' and s.get('opcode') == '=':
            lhs, rhs = inner
            lhs = strip_parens(lhs)
            if lhs.get('kind') == 'UnaryOperator' and lhs.get('opcode') == '*':
                p = strip_parens(lhs['inner'][0])
                if p.get('kind') == 'ImplicitCastExpr' and p.get('castKind') == 'LValueToRValue':
                    p = strip_parens(p['inner'][0])
                if (p.get('kind') == 'DeclRefExpr' and self.outptr is not None
                        and p['referencedDecl']['id'] == self.outptr[0]):
                    pt = self.outptr[1]
                    if ctype_of(rhs, 'stored value') != pt or ctype_of(s, 'assignment') != pt:
                        raise Unsupported('%s: stored value is not of the pointee type' % self.name)
                    if cont is None:
                        raise Unsupported('%s: control reaches the end of the function without return' % self.name)
                    return '(cstore %s %s (fun st =>\n    %s))' % (pt, self.expr(rhs), cont())
            raise Unsupported('%s: assignment to something other than *out' % self.name)
        if kind == 'DeclStmt':
            if len(inner) != 1 or inner[0].get('kind') != 'VarDecl' or not inner[0].get('inner'):
                raise Unsupported('%s: declaration form' % self.name)
            v = inner[0]
            ty = ctype_of(v, 'local')
            if 'const' not in v['type']['qualType']:
                raise Unsupported('%s: non-const local %s (locals are single-assignment here)' % (self.name, v.get('name')))
            init = v['inner'][0]
            if ctype_of(init, 'initialiser') != ty:
                raise Unsupported('initialiser type')
            self.nlocal += 1
            nm = 'loc%d_%s' % (self.nlocal, re.sub(r'[^a-z0-9_]', '_', v.get('name', 'x').lower()))
            e = self.expr(init)
            self.scalars[v['id']] = (nm, ty)
            if cont is None:
                raise Unsupported('%s: control reaches the end of the function without return' % self.name)
            return '(clet %s (fun %s =>\n    %s))' % (e, nm, cont())
        raise Unsupported('%s: statement kind %s' % (self.name, kind))

    def gallina(self):
        body = self.block([self.body], None)
        args = ' '.join(p[0] for p in self.params)
        hdr = '(* %s\n   %s *)' % (self.name, '\n   '.join(self.comments))
        d = 'Definition %s (%s : Z) : cres :=\n  let st : option Z := None in\n  %s.' % (self.name, args, body)
        sig = 'Definition %s_sig : list cty * cty := ([%s], %s).' % (
            self.name, '; '.join(p[1] for p in self.params), self.outptr[1] if self.outptr else 'TInt')
        return hdr + '\n' + d + '\n' + sig + '\n'


def zlit(v):
    return str(v) if v >= 0 else '(%d)' % v


def strip_parens(n):
    while n.get('kind') == 'ParenExpr':
        n = n['inner'][0]
    return n


def contains_kind(n, kinds):
    if n.get('kind') in kinds:
        return True
    return any(contains_kind(c, kinds) for c in n.get('inner', []) if isinstance(c, dict))


def translate(repo, relfile, fn):
    return Fn(clang_ast(repo, relfile, fn))


HDR_TYPES = {'int32_t': 'TInt', 'uint32_t': 'TUInt', 'int64_t': 'TLong', 'uint64_t': 'TULong', 'size_t': 'TULong'}
BUILTIN_OPS = {'add': 'BAdd', 'sub': 'BSub', 'mul': 'BMul'}


def entry_points(repo):
    """the inline KS_<ty>_<op>_overflow entry points of libks/arithmetic.h: each must be exactly
         #if has_builtin(__builtin_<op>_overflow)  return __builtin_<op>_overflow(a, b, c) ? 1 : 0;
         #else                                     return KS_<ty>_<op>_overflow0(a, b, c);   #endif
    with a, b of the type the name promises and c a pointer to it.  Returns [(name, cty, builtin op)]."""
    text = open(os.path.join(repo, 'libks', 'arithmetic.h')).read()
    text = re.sub(r'/\*.*?\*/', ' ', text, flags=re.S)
    if not re.search(r'#if defined\(__has_builtin\)\s*#define has_builtin\(x\) __has_builtin\(x\)\s*#else\s*#define has_builtin\(x\) 0\s*#endif', text):
        raise Unsupported('arithmetic.h: has_builtin is not defined as __has_builtin(x) / 0 any more')
    out = []
    for ty in ('i32', 'i64', 'u32', 'u64', 'size'):
        for op in ('add', 'sub', 'mul'):
            name = 'KS_%s_%s_overflow' % (ty, op)
            m = re.findall(r'static\s+inline\s+int\s+%s\(\s*(\w+)\s+a\s*,\s*(\w+)\s+b\s*,\s*(\w+)\s*\*\s*c\s*\)\s*\{(.*?)\n\}' % name, text, re.S)
            if len(m) != 1:
                raise Unsupported('%s: expected exactly one inline definition in arithmetic.h, found %d' % (name, len(m)))
            ta, tb, tc, body = m[0]
            if not (ta == tb == tc) or ta not in HDR_TYPES:
                raise Unsupported('%s: parameter types %s, %s, %s *' % (name, ta, tb, tc))
            want = {'i32': 'int32_t', 'i64': 'int64_t', 'u32': 'uint32_t', 'u64': 'uint64_t', 'size': 'size_t'}[ty]
            if ta != want:
                raise Unsupported('%s: operates on %s, the name promises %s' % (name, ta, want))
            norm = ' '.join(body.split())
            expect = ('#if has_builtin(__builtin_%s_overflow) return __builtin_%s_overflow(a, b, c) ? 1 : 0; '
                      '#else return %s0(a, b, c); #endif' % (op, op, name))
            if norm != expect:
                raise Unsupported('%s: body is %r, expected %r' % (name, norm, expect))
            out.append((name, HDR_TYPES[ta], BUILTIN_OPS[op]))
    return out


def generate(repo):
    out = ['(* Gen_Arith.v - GENERATED on every check by harness/t_arith.py from libks/arithmetic.c',
           '   (clang JSON AST, macros expanded) and libks/arithmetic.h (entry points).  Do not edit. *)',
           'From Coq Require Import ZArith List.', 'From Robsd Require Import Base.CInt Ks.ArithBuiltinDefs.',
           'Import ListNotations.', 'Local Open Scope Z_scope.', '']
    for fn in FUNCS:
        f = translate(repo, 'libks/arithmetic.c', fn)
        if len(f.params) != 2 or f.outptr is None:
            raise Unsupported('%s: expected two scalar operands and one out-pointer' % fn)
        out.append(f.gallina())
    out.append('(* arithmetic.h: static inline entry points; with the builtin: __builtin_<op>_overflow(a, b, c) ? 1 : 0,')
    out.append('   without it: the fallback above *)')
    for name, cty, bop in entry_points(repo):
        out.append('Definition %s_builtin (a b : Z) : cres := cbuiltin_overflow %s %s a b.' % (name, cty, bop))
        out.append('Definition %s_nobuiltin (a b : Z) : cres := %s0 a b.' % (name, name))
    return {'Gen_Arith.v': '\n'.join(out) + '\n'}


if __name__ == '__main__':
    import sys
    print(generate(sys.argv[1] if len(sys.argv) > 1 else '/repo')['Gen_Arith.v'])
