"""Translator for C07: constants and the order of the calls that matter in
step-exec.c -> coq/gen/Gen_Kill.v  (module RobsdGen.Gen_Kill).

What is extracted (anchored regular expressions; raises when one stops matching):
  * EX_TIMEOUT (step-exec.h), the kill timeout passed to killwaitpg, the polling
    quantum of killwaitpg1 and the shape of its count-down loop;
  * the handshake timeout passed to waiteof and waiteof's polling quantum;
  * per function (step_exec, step_fork, waiteof, killwaitpg, killwaitpg1, sighandler,
    siginstall, exitstatus, step_timeout) the list of the calls/statements the model
    of KillDefs.v transcribes, in textual order, with their relevant arguments.
The Coq side states `Gen_Kill.calls_<fn> = KillDefs.model_calls_<fn>` (by
reflexivity), so moving a handler installation, dropping the minus sign of
kill(-pgid), changing a waitpid flag or the status mapping breaks the proof
step until the model is brought in line.
"""
import os, re


def strip_comments(src):
    src = re.sub(r'/\*.*?\*/', lambda m: re.sub(r'[^\n]', ' ', m.group(0)), src, flags=re.S)
    return src


def function_body(src, name):
    m = re.search(r'^%s\(([^\n]*(?:\n    [^\n]*)*)\)\n\{\n(.*?)^\}\n' % re.escape(name), src, re.M | re.S)
    if not m:
        raise ValueError('function %s not found in step-exec.c' % name)
    return m.group(1), m.group(2)


def drop_verif(body):
    """hook lines (guarded by ROBSD_VERIF) are not part of the code being modelled"""
    out, skip = [], False
    for line in body.split('\n'):
        if re.match(r'\s*#\s*ifdef\s+ROBSD_VERIF', line):
            skip = True
            continue
        if skip:
            if re.match(r'\s*#\s*endif', line):
                skip = False
            continue
        out.append(line)
    return '\n'.join(out)


PATTERNS = [
    ('pipe2', r'\bpipe2\s*\('),
    ('fork', r'\bfork\s*\(\s*\)'),
    ('pid==0', r'\bif\s*\(\s*pid\s*==\s*0\s*\)'),
    ('setsid', r'\bsetsid\s*\(\s*\)'),
    ('setpgid', r'\bsetpgid\s*\('),
    ('execvp', r'\bexecvp\s*\('),
    ('siginstall', r'\bsiginstall\s*\(\s*(\w+)\s*,\s*(\w+)\s*,\s*(\w+)\s*\)'),
    ('sigprocmask', r'\bsigprocmask\s*\(\s*(\w+)'),
    ('sigaction', r'\bsigaction\s*\(\s*signo\s*,\s*([&\w]+)\s*,\s*([&\w]+)\s*\)'),
    ('sa_handler', r'sa\.sa_handler\s*=\s*(\w+)\s*;'),
    ('norestart', r'if\s*\(\s*restart\s*==\s*SIG_NO_RESTART\s*\)\s*sa\.sa_flags\s*&=\s*~SA_RESTART\s*;'),
    ('sa_flags', r'sa\.sa_flags\s*(\|=|=)\s*([^;]+);'),
    ('close-pipe', r'\bclose\s*\(\s*proc_pipe\[(\d)\]\s*\)'),
    ('waiteof', r'\bwaiteof\s*\(\s*proc_pipe\[0\]\s*,\s*(\d+)\s*\)'),
    ('step_timeout', r'\bstep_timeout\s*\(\s*c\s*\)'),
    ('if-timeout', r'\bif\s*\(\s*timeout\s*(>|>=|!=)\s*0\s*\)'),
    ('alarm', r'\balarm\s*\('),
    ('step_fork', r'\bstep_fork\s*\('),
    ('waitpid', r'\bwaitpid\s*\(\s*([-\w]+)\s*,\s*(&?\w+)\s*,\s*(\w+)\s*\)(\s*==\s*-1)?'),
    ('if-gotsig', r'\bif\s*\(\s*gotsig\s*\)'),
    ('killwaitpg', r'\bkillwaitpg\s*\(\s*(\w+)\s*,\s*(\d+)\s*,\s*&status\s*\)'),
    ('killwaitpg1', r'\bkillwaitpg1\s*\(\s*pgid\s*,\s*(\w+)\s*,\s*timoms\s*,\s*status\s*\)\s*==\s*0'),
    ('status=', r'\*status\s*=\s*(\d+)\s*;'),
    ('exitstatus', r'\bexitstatus\s*\(\s*status\s*,\s*(\w+)\s*\)'),
    ('err', r'\berr\s*\(\s*(\d+)\s*,\s*"(\w+)"'),
    ('kill', r'\bkill\s*\(\s*([-\w]+)\s*,\s*(\w+)\s*\)(\s*==\s*-1)?'),
    ('w==', r'\bif\s*\(\s*w\s*==\s*(-?\d+)\s*\)'),
    ('usleep', r'\busleep\s*\(\s*slpms\s*\*\s*1000\s*\)'),
    ('countdown', r'timoms\s*-=\s*\(int\)\s*slpms\s*;'),
    ('if-timoms', r'\bif\s*\(\s*timoms\s*(<=|<)\s*0\s*\)'),
    ('slpms', r'unsigned\s+int\s+slpms\s*=\s*(\d+)\s*;'),
    ('read', r'\bread\s*\(\s*fd\s*,\s*buf\s*,'),
    ('n==', r'\bif\s*\(\s*n\s*==\s*(-?\d+)\s*\)'),
    ('errno==', r'\bif\s*\(\s*errno\s*==\s*(\w+)\s*\)'),
    ('warn', r'\bwarn\s*\(\s*"(\w+)"'),
    ('break', r'\bbreak\s*;'),
    ('return', r'\breturn\s+([^;]+);'),
    ('continue', r'\bcontinue\s*;'),
    ('gotsig=', r'\bgotsig\s*=\s*(\w+)\s*;'),
    ('if-signal', r'\bif\s*\(\s*signal\s*==\s*(\w+)\s*\)'),
    ('if-signo', r'\bif\s*\(\s*signo\s*(==|!=)\s*(\w+)\s*\)'),
    ('if-W', r'\bif\s*\(\s*(WIF\w+)\s*\(\s*status\s*\)\s*\)'),
    ('mode-is', r'config_get_mode\s*\(\s*c->config\s*\)\s*(!=|==)\s*(\w+)'),
    ('config_value', r'config_value\s*\(\s*c->config\s*,\s*"([\w-]+)"\s*,\s*(\w+)\s*,\s*(\d+)\s*\)'),
]

FUNCS = ['step_exec', 'exitstatus', 'waiteof', 'killwaitpg', 'killwaitpg1', 'siginstall', 'sighandler', 'step_fork',
         'step_timeout']


def calls_of(body):
    found = []
    for name, pat in PATTERNS:
        for m in re.finditer(pat, body):
            args = [re.sub(r'\s+', ' ', (g or '').strip()) for g in m.groups()]
            args = [a for a in args if a != '']
            if name == 'return' and not re.search(r'^-?\d+$|[A-Z_]{3,}|config_value|\?', args[0]):
                args = ['_']        # a local variable: its name does not matter
            found.append((m.start(), name + ''.join(' ' + a for a in args)))
    found.sort()
    # a longer pattern may contain a shorter one at the same place (kill inside killwaitpg is
    # excluded by \b; waitpid/kill inside their own pattern only): keep everything, order by position
    return [t for _, t in found]


def coq_string(s):
    return '"' + s.replace('"', '""') + '"'


def generate(repo):
    src = strip_comments(open(os.path.join(repo, 'step-exec.c')).read())
    hdr = open(os.path.join(repo, 'step-exec.h')).read()
    m = re.search(r'^#define\s+EX_TIMEOUT\s+(\d+)\s*$', hdr, re.M)
    if not m:
        raise ValueError('EX_TIMEOUT not found in step-exec.h')
    ex_timeout = int(m.group(1))
    m = re.search(r'^static volatile sig_atomic_t\s+gotsig;', src, re.M)
    if not m:
        raise ValueError('gotsig declaration changed')
    m = re.search(r'^#define\s+SIG_NO_RESTART\s+(\d+)\s*$', src, re.M)
    if not m:
        raise ValueError('SIG_NO_RESTART not found')
    out = []
    out.append('(* GENERATED by harness/t_kill.py from step-exec.c and step-exec.h - do not edit. *)')
    out.append('From Coq Require Import ZArith List String.')
    out.append('Import ListNotations.')
    out.append('Local Open Scope string_scope.')
    out.append('')
    out.append('Definition ex_timeout : Z := %d%%Z.' % ex_timeout)
    calls = {}
    for f in FUNCS:
        _, body = function_body(src, f)
        calls[f] = calls_of(drop_verif(body))
        if not calls[f]:
            raise ValueError('no recognisable statement in %s' % f)
    kw = [c for c in calls['step_exec'] if c.startswith('killwaitpg ')]
    if len(kw) != 1:
        raise ValueError('step_exec: expected exactly one killwaitpg call')
    out.append('Definition kill_timeout_ms : Z := %d%%Z.' % int(kw[0].split()[2]))
    sl = [c for c in calls['killwaitpg1'] if c.startswith('slpms ')]
    if len(sl) != 1:
        raise ValueError('killwaitpg1: polling quantum not found')
    out.append('Definition kill_poll_ms : Z := %d%%Z.' % int(sl[0].split()[1]))
    we = [c for c in calls['step_fork'] if c.startswith('waiteof ')]
    if len(we) != 1:
        raise ValueError('step_fork: waiteof call not found')
    out.append('Definition pipe_timeout_ms : Z := %d%%Z.' % int(we[0].split()[1]))
    sl = [c for c in calls['waiteof'] if c.startswith('slpms ')]
    if len(sl) != 1:
        raise ValueError('waiteof: polling quantum not found')
    out.append('Definition pipe_poll_ms : Z := %d%%Z.' % int(sl[0].split()[1]))
    out.append('')
    for f in FUNCS:
        out.append('Definition calls_%s : list string :=' % f)
        out.append('  [ ' + ';\n    '.join(coq_string(c) for c in calls[f]) + ' ].')
        out.append('')
    return {'Gen_Kill.v': '\n'.join(out)}


if __name__ == '__main__':
    import sys
    print(generate(sys.argv[1] if len(sys.argv) > 1 else '/repo')['Gen_Kill.v'])
