"""Translator for C07: constants and the order of the calls that matter in
step-exec.c -> coq/gen/Gen_Kill.v  (module RobsdGen.Gen_Kill).

What is extracted (anchored regular expressions; raises when one stops matching):
  * EX_TIMEOUT (step-exec.h), the kill timeout passed to killwaitpg, the polling
    quantum of killwaitpg1 and the shape of its count-down loop;
  * the handshake timeout passed to waiteof and waiteof's polling quantum;
  * per function (step_exec, step_fork, waiteof, killwaitpg, killwaitpg1, sighandler,
    siginstall, exitstatus, step_timeout) the list of the calls/statements the model
    of KillDefs.v transcribes, in textual order, with their relevant arguments.
The Coq side states `Gen_Kill.calls_<fn> = KillDefs.model_calls_<fn>` (by
reflexivity), so moving a handler installation, dropping the minus sign of
kill(-pgid), changing a waitpid flag or the status mapping breaks the proof
step until the model is brought in line.
"""
import os, re


def strip_comments(src):
    src = re.sub(r'/\*.*?\*/', lambda m: re.sub(r'[^\n]', ' ', m.group(0)), src, flags=re.S)
    return src


def function_body(src, name):
    m = re.search(r'^%s\(([^\n]*(?:\n    [^\n]*)*)\)\n\{\n(.*?)^\}\n' % re.escape(name), src, re.M | re.S)
    if not m:
        raise ValueError('function %s not found in step-exec.c' % name)
    return m.group(1), m.group(2)


def drop_verif(body):
    """hook lines (guarded by ROBSD_VERIF) are not part of the code being modelled"""
    out, skip = [], False
    for line in body.split('\n'):
        if re.match(r'\s*#\s*ifdef\s+ROBSD_VERIF', line):
            skip = True
            continue
        if skip:
            if re.match(r'\s*#\s*endif', line):
                skip = False
            continue
        out.append(line)
    return '\n'.join(out)


PATTERNS = [
    ('pipe2', r'\bpipe2\s*\(\s*proc_pipe\s*,\s*([\w| ]+?)\s*\)'),
    ('fork', r'\bfork\s*\(\s*\)'),
    ('pid==0', r'\bif\s*\(\s*pid\s*==\s*0\s*\)'),
    ('setsid', r'\bsetsid\s*\(\s*\)'),
    ('setpgid', r'\bsetpgid\s*\('),
    ('execvp', r'\bexecvp\s*\('),
    ('siginstall', r'\bsiginstall\s*\(\s*(\w+)\s*,\s*(\w+)\s*,\s*(\w+)\s*\)'),
    ('sigprocmask', r'\bsigprocmask\s*\(\s*(\w+)'),
    ('sigaction', r'\bsigaction\s*\(\s*signo\s*,\s*([&\w]+)\s*,\s*([&\w]+)\s*\)'),
    ('sa_handler', r'sa\.sa_handler\s*=\s*(\w+)\s*;'),
    ('norestart', r'if\s*\(\s*restart\s*==\s*SIG_NO_RESTART\s*\)\s*sa\.sa_flags\s*&=\s*~SA_RESTART\s*;'),
    ('sa_flags', r'sa\.sa_flags\s*(\|=|=)\s*([^;]+);'),
    ('close-pipe', r'\bclose\s*\(\s*proc_pipe\[(\d)\]\s*\)'),
    ('waiteof', r'\bwaiteof\s*\(\s*proc_pipe\[0\]\s*,\s*(\d+)\s*\)'),
    ('step_timeout', r'\bstep_timeout\s*\(\s*c\s*\)'),
    ('if-timeout', r'\bif\s*\(\s*timeout\s*(>|>=|!=)\s*0\s*\)'),
    ('alarm', r'\balarm\s*\(\s*([^;]+?)\s*\)\s*;'),
    ('setitimer', r'\bsetitimer\s*\('),
    ('signal', r'\bsignal\s*\(\s*(\w+)\s*,\s*(\w+)\s*\)'),
    ('sigsuspend', r'\bsigsuspend\s*\('),
    ('_exit', r'\b_exit\s*\(\s*([^;]+?)\s*\)\s*;'),
    ('exit', r'(?<![\w_])exit\s*\(\s*([^;]+?)\s*\)\s*;'),
    ('warnx', r'\bwarnx\s*\(\s*"([^"]*)"'),
    ('step_fork', r'\bstep_fork\s*\('),
    ('waitpid', r'\bwaitpid\s*\(\s*([-\w]+)\s*,\s*(&?\w+)\s*,\s*(\w+)\s*\)(\s*==\s*-1)?'),
    ('if-gotsig', r'\bif\s*\(\s*gotsig\s*\)'),
    ('killwaitpg', r'\bkillwaitpg\s*\(\s*(\w+)\s*,\s*(\d+)\s*,\s*&status\s*\)'),
    ('killwaitpg1', r'\bkillwaitpg1\s*\(\s*pgid\s*,\s*(\w+)\s*,\s*timoms\s*,\s*status\s*\)\s*==\s*0'),
    ('status=', r'\*status\s*=\s*(\d+)\s*;'),
    ('exitstatus', r'\bexitstatus\s*\(\s*status\s*,\s*(\w+)\s*\)'),
    ('err', r'\berr\s*\(\s*(\d+)\s*,\s*"(\w+)"'),
    ('kill', r'\bkill\s*\(\s*([-\w]+)\s*,\s*(\w+)\s*\)(\s*==\s*-1)?'),
    ('w==', r'\bif\s*\(\s*w\s*==\s*(-?\d+)\s*\)'),
    ('usleep', r'\busleep\s*\(\s*slpms\s*\*\s*1000\s*\)'),
    ('countdown', r'timoms\s*-=\s*\(int\)\s*slpms\s*;'),
    ('if-timoms', r'\bif\s*\(\s*timoms\s*(<=|<)\s*0\s*\)'),
    ('slpms', r'unsigned\s+int\s+slpms\s*=\s*(\d+)\s*;'),
    ('read', r'\bread\s*\(\s*fd\s*,\s*buf\s*,'),
    ('n==', r'\bif\s*\(\s*n\s*==\s*(-?\d+)\s*\)'),
    ('errno==', r'\bif\s*\(\s*errno\s*==\s*(\w+)\s*\)'),
    ('warn', r'\bwarn\s*\(\s*"(\w+)"'),
    ('break', r'\bbreak\s*;'),
    ('return', r'\breturn\s+([^;]+);'),
    ('continue', r'\bcontinue\s*;'),
    ('gotsig=', r'\bgotsig\s*=\s*(\w+)\s*;'),
    ('if-signal', r'\bif\s*\(\s*signal\s*==\s*(\w+)\s*\)'),
    ('if-signo', r'\bif\s*\(\s*signo\s*(==|!=)\s*(\w+)\s*\)'),
    ('if-W', r'\bif\s*\(\s*(WIF\w+)\s*\(\s*status\s*\)\s*\)'),
    ('mode-is', r'config_get_mode\s*\(\s*c->config\s*\)\s*(!=|==)\s*(\w+)'),
    ('config_value', r'config_value\s*\(\s*c->config\s*,\s*"([\w-]+)"\s*,\s*(\w+)\s*,\s*(\d+)\s*\)'),
]

FUNCS = ['step_exec', 'exitstatus', 'waiteof', 'killwaitpg', 'killwaitpg1', 'siginstall', 'sighandler', 'step_fork',
         'step_timeout']


def calls_of(body):
    found = []
    for name, pat in PATTERNS:
        for m in re.finditer(pat, body):
            args = [re.sub(r'\s+', ' ', (g or '').strip()) for g in m.groups()]
            args = [a for a in args if a != '']
            if name == 'return' and not re.search(r'^-?\d+$|[A-Z_]{3,}|config_value|\?', args[0]):
                args = ['_']        # a local variable: its name does not matter
            found.append((m.start(), name + ''.join(' ' + a for a in args)))
    found.sort()
    # a longer pattern may contain a shorter one at the same place (kill inside killwaitpg is
    # excluded by \b; waitpid/kill inside their own pattern only): keep everything, order by position
    return [t for _, t in found]


# ---- the pc-level transition table ------------------------------------------------------------------
#
# The statements matched above, function by function and in order, are read as the control flow of the runner
# between the sync points.  Whatever a statement says that the model depends on becomes a field of an edge:
# the target of kill() (with or without the minus sign), the signals of the two rounds in their order, the
# constants stored and returned, the argument of exitstatus(), the direction of the tests, which return value
# of waiteof / killwaitpg1 means failure.  Anything the table language cannot express (another wait flag, a
# changed loop, an extra statement, a handler installed elsewhere) raises.

SIGNUM = {'SIGTERM': 15, 'SIGKILL': 9, 'SIGALRM': 14, 'SIGINT': 2, 'SIGHUP': 1, 'SIGQUIT': 3}


class Seq:
    def __init__(self, fn, items):
        self.fn, self.items, self.i = fn, items, 0

    def take(self, prefix, n=None):
        """consume the next statement, which must start with <prefix>; return its remaining words"""
        if self.i >= len(self.items) or not (self.items[self.i] == prefix or self.items[self.i].startswith(prefix + ' ')):
            got = self.items[self.i] if self.i < len(self.items) else '<end>'
            raise ValueError('step-exec.c %s: expected a statement "%s ...", found "%s": the control flow is no longer the one '
                             'the transition table can express' % (self.fn, prefix, got))
        rest = self.items[self.i][len(prefix):].strip()
        self.i += 1
        words = rest.split(' ') if rest else []
        if n is not None and len(words) != n:
            raise ValueError('step-exec.c %s: "%s" has %d operands, expected %d' % (self.fn, prefix, len(words), n))
        return words

    def exact(self, text):
        if self.i >= len(self.items) or self.items[self.i] != text:
            got = self.items[self.i] if self.i < len(self.items) else '<end>'
            raise ValueError('step-exec.c %s: expected "%s", found "%s"' % (self.fn, text, got))
        self.i += 1

    def end(self):
        if self.i != len(self.items):
            raise ValueError('step-exec.c %s: unexpected statement "%s"' % (self.fn, self.items[self.i]))


def num(fn, w):
    if not re.fullmatch(r'-?\d+', w):
        raise ValueError('step-exec.c %s: "%s" is not an integer constant' % (fn, w))
    return int(w)


def build_table(calls):
    E = []          # (from, guard, effect, target, comment)

    def edge(frm, guard, eff, to, why):
        E.append((frm, guard, eff, to, why))
    # -- waiteof: which return value means "gave up", which "the pipe reported EOF"
    q = Seq('waiteof', calls['waiteof'])
    q.take('slpms', 1)
    q.exact('read'); q.exact('n== -1'); q.exact('errno== EAGAIN'); q.exact('usleep'); q.exact('countdown')
    q.exact('if-timoms <=')
    r_giveup = num('waiteof', q.take('return', 1)[0])
    q.exact('warn read'); q.take('return', 1)
    q.exact('n== 0'); q.exact('break')
    r_eof = num('waiteof', q.take('return', 1)[0])
    q.end()
    # -- step_fork, the parent's part
    q = Seq('step_fork', calls['step_fork'])
    q.take('pipe2'); q.exact('err 1 pipe2'); q.exact('fork'); q.exact('err 1 fork'); q.exact('pid==0')
    q.exact('close-pipe 0'); q.exact('setsid'); q.exact('err 1 setsid')
    for sg in ('SIGHUP', 'SIGINT', 'SIGQUIT'):
        q.exact('siginstall %s SIG_DFL 0' % sg)
    q.exact('close-pipe 1'); q.exact('execvp')
    unhandled = ['LForked']
    q.exact('siginstall SIGPIPE SIG_IGN 0')
    edge('LForked', 'GTrue', 'ENone', 'TLoc LIgnPipe', 'siginstall(SIGPIPE, SIG_IGN, 0)')
    unhandled.append('LIgnPipe')
    h = q.take('siginstall SIGTERM', 2)
    if h != ['sighandler', 'SIG_NO_RESTART']:
        raise ValueError('step-exec.c step_fork: SIGTERM is installed with %r, the model needs sighandler without SA_RESTART' % h)
    edge('LIgnPipe', 'GTrue', 'ENone', 'TLoc LTermInst', 'siginstall(SIGTERM, sighandler, SIG_NO_RESTART)')
    q.exact('close-pipe 1')
    q.take('waiteof', 1)
    edge('LTermInst', 'GTrue', 'ENone', 'TEnter LHandshake WHandshake', 'close(proc_pipe[1]); waiteof(proc_pipe[0], ...)')
    # if (waiteof(...)) { failure path }: a non-zero return value is the failure
    ok_eof, ok_giveup = (r_eof == 0), (r_giveup == 0)
    edge('LHandshake', 'GAnd (GCount true) (GPipeEof true)', 'ENone' if ok_eof else 'EGaveUp',
         'TLoc LGroupUp' if ok_eof else 'TLoc LGroupFail', 'read() == 0: break; return %d' % r_eof)
    edge('LHandshake', 'GAnd (GCount true) (GPipeEof false)', 'ENone', 'TAgain', 'EAGAIN: usleep; timoms -= slpms')
    edge('LHandshake', 'GCount false', 'ENone' if ok_giveup else 'EGaveUp',
         'TLoc LGroupUp' if ok_giveup else 'TLoc LGroupFail', 'timoms <= 0: return %d' % r_giveup)
    q.take('warnx')                # what the runner SAYS here is free text ("process group failure")
    w = q.take('waitpid', 5)
    if w[:3] != ['pid', '&status', '0'] or w[3:] != ['==', '-1']:
        raise ValueError('step-exec.c step_fork: the wait on the failure path is waitpid(%s), not waitpid(pid, &status, 0) == -1' % ' '.join(w))
    edge('LGroupFail', 'GTrue', 'ENone', 'TLoc LFailWaiting', 'warnx("process group failure"); waitpid(pid, &status, 0) blocks')
    edge('LFailWaiting', 'GZombie true', 'EReap', 'TLoc LFailDone', 'waitpid(pid, &status, 0) returned pid')
    c = num('step_fork', q.take('return', 1)[0])
    edge('LFailIntr', 'GTrue', 'ENone', 'TReturn %d' % c, 'waitpid(...) == -1: return %d' % c)
    a = q.take('exitstatus', 1)[0]
    if a not in ('0', 'gotsig'):
        raise ValueError('step-exec.c step_fork: exitstatus(status, %s)' % a)
    q.exact('return error ? error : 1')
    edge('LFailDone', 'GTrue', 'ENone', 'TReturnLate %s' % ('true' if a == 'gotsig' else 'false'),
         'error = exitstatus(status, %s); return error ? error : 1' % a)
    q.exact('close-pipe 0'); q.exact('step_timeout')
    op = q.take('if-timeout', 1)[0]
    if op != '>':
        raise ValueError('step-exec.c step_fork: if (timeout %s 0)' % op)
    edge('LGroupUp', 'GTimeout true', 'ENone', 'TLoc LAlrmInst', 'timeout > 0: siginstall(SIGALRM, sighandler, 0)')
    edge('LGroupUp', 'GTimeout false', 'ENone', 'TLoc LBeforeWait', 'timeout <= 0: return 0')
    h = q.take('siginstall SIGALRM', 2)
    if h[0] != 'sighandler':
        raise ValueError('step-exec.c step_fork: SIGALRM handler is %s' % h[0])
    al = q.take('alarm')
    if ' '.join(al) not in ('(unsigned int)timeout', 'timeout'):
        raise ValueError('step-exec.c step_fork: alarm(%s) - the model arms the alarm with the configured timeout itself' % ' '.join(al))
    edge('LAlrmInst', 'GTrue', 'EArm', 'TLoc LBeforeWait', 'alarm((unsigned int)timeout); return 0')
    q.exact('return 0'); q.end()
    # -- step_exec
    q = Seq('step_exec', calls['step_exec'])
    q.take('warnx'); q.take('return', 1)
    if q.i < len(q.items) and q.items[q.i] == 'warnx %s: empty step command':
        q.take('warnx'); q.take('return', 1)        # /repo 8e76449: refused before anything is forked (C06's subject)
    q.exact('step_fork'); q.exact('return _')
    w = q.take('waitpid', 5)
    if w != ['-pid', '&status', '0', '==', '-1']:
        raise ValueError('step-exec.c step_exec: waits with waitpid(%s), not waitpid(-pid, &status, 0) == -1' % ' '.join(w))
    edge('LBeforeWait', 'GTrue', 'ENone', 'TLoc LWaiting', 'waitpid(-pid, &status, 0) blocks')
    edge('LWaiting', 'GZombie true', 'EReap', 'TLoc LWaitDone', 'waitpid(-pid, &status, 0) returned')
    q.exact('if-gotsig'); q.take('warnx')
    kw = q.take('killwaitpg', 2)
    if kw[0] != 'pid':
        raise ValueError('step-exec.c step_exec: killwaitpg(%s, ...)' % kw[0])
    q.take('warnx')
    er = q.take('err', 2)
    edge('LWaitIntr', 'GGotsig false', 'ENone', 'TReturn %d' % num('step_exec', er[0]), 'gotsig == 0: err(%s, "waitpid")' % er[0])
    # -- killwaitpg / killwaitpg1
    k = Seq('killwaitpg', calls['killwaitpg'])
    k.take('warnx'); s1 = k.take('killwaitpg1', 1)[0]; r1 = num('killwaitpg', k.take('return', 1)[0])
    k.take('warnx'); s2 = k.take('killwaitpg1', 1)[0]; r2 = num('killwaitpg', k.take('return', 1)[0])
    st = num('killwaitpg', k.take('status=', 1)[0]); k.take('return', 1); k.end()
    if s1 not in SIGNUM or s2 not in SIGNUM:
        raise ValueError('step-exec.c killwaitpg: signals %s, %s' % (s1, s2))
    if r1 != 0 or r2 != 0:
        raise ValueError('step-exec.c killwaitpg: a reaped main process no longer returns 0')
    k1 = Seq('killwaitpg1', calls['killwaitpg1'])
    k1.take('slpms', 1)
    kl = k1.take('kill', 4)
    if kl[0] not in ('-pgid', 'pgid') or kl[1] != 'signo' or kl[2:] != ['==', '-1']:
        raise ValueError('step-exec.c killwaitpg1: kill(%s)' % ' '.join(kl))
    group = 'true' if kl[0] == '-pgid' else 'false'
    k1.exact('err 1 kill')
    w = k1.take('waitpid', 3)
    if w[0] not in ('-pgid', 'pgid') or w[1:] != ['status', 'WNOHANG']:
        raise ValueError('step-exec.c killwaitpg1: polls with waitpid(%s)' % ' '.join(w))
    k1.exact('w== -1'); k1.exact('warn waitpid'); k1.take('return', 1)
    k1.exact('w== 0'); k1.exact('usleep'); k1.exact('countdown'); k1.exact('if-timoms <=')
    rt = num('killwaitpg1', k1.take('return', 1)[0]); k1.exact('continue')
    rr = num('killwaitpg1', k1.take('return', 1)[0]); k1.end()
    if rt == 0 or rr != 0:
        raise ValueError('step-exec.c killwaitpg1: the return values of "timed out" / "reaped" changed (%d / %d)' % (rt, rr))
    edge('LWaitIntr', 'GGotsig true', 'ENone', 'TLoc (LKillSend PhTerm)', 'gotsig: killwaitpg(pid, ...): first round')
    for ph, sg in (('PhTerm', s1), ('PhKill', s2)):
        edge('LKillSend %s' % ph, 'GTrue', 'EKill %s %d' % (group, SIGNUM[sg]), 'TEnter (LPoll %s) WPoll' % ph,
             'kill(%s, %s)' % (kl[0], sg))
        edge('LPoll %s' % ph, 'GAnd (GCount true) (GZombie true)', 'EReap', 'TLoc LWaitDone', 'waitpid(..., WNOHANG) > 0: return 0')
        edge('LPoll %s' % ph, 'GAnd (GCount true) (GZombie false)', 'ENone', 'TAgain', 'w == 0: usleep; timoms -= slpms; continue')
    edge('LPoll PhTerm', 'GCount false', 'ENone', 'TLoc (LKillSend PhKill)', 'timoms <= 0: return %d; second round' % rt)
    edge('LPoll PhKill', 'GCount false', 'EStatus %d' % st, 'TLoc LWaitDone', 'timoms <= 0: *status = %d; "failed to kill process group"' % st)
    a = q.take('exitstatus', 1)[0]
    if a not in ('0', 'gotsig'):
        raise ValueError('step-exec.c step_exec: exitstatus(status, %s)' % a)
    q.take('warnx'); q.exact('return _'); q.end()
    edge('LWaitDone', 'GTrue', 'ENone', 'TReturnStatus %s' % ('true' if a == 'gotsig' else 'false'), 'return exitstatus(status, %s)' % a)
    out = ['(* GENERATED by harness/t_kill.py from step-exec.c - do not edit.',
           '   The control flow of the step runner between the sync points, edge by edge (language: Exec/KillTable.v). *)',
           'From Coq Require Import ZArith List.', 'From Robsd Require Import Exec.KillTable.', 'Import ListNotations.',
           'Local Open Scope Z_scope.', '',
           'Definition table : list edge :=', '  [ ' +
           ';\n    '.join('(* %s *)\n    mkedge (%s) (%s) (%s) (%s)' % (why.replace('*)', '* )'), f, g, e, t) for f, g, e, t, why in E) + ' ].', '',
           '(* locations the runner passes before siginstall(SIGTERM, sighandler, ...): SIGTERM still has its default action *)',
           'Definition sigterm_unhandled : list loc := [%s].' % '; '.join(unhandled), '']
    return '\n'.join(out)


def coq_string(s):
    return '"' + s.replace('"', '""') + '"'


def generate(repo):
    src = strip_comments(open(os.path.join(repo, 'step-exec.c')).read())
    hdr = open(os.path.join(repo, 'step-exec.h')).read()
    m = re.search(r'^#define\s+EX_TIMEOUT\s+(\d+)\s*$', hdr, re.M)
    if not m:
        raise ValueError('EX_TIMEOUT not found in step-exec.h')
    ex_timeout = int(m.group(1))
    m = re.search(r'^static volatile sig_atomic_t\s+gotsig;', src, re.M)
    if not m:
        raise ValueError('gotsig declaration changed')
    m = re.search(r'^#define\s+SIG_NO_RESTART\s+(\d+)\s*$', src, re.M)
    if not m:
        raise ValueError('SIG_NO_RESTART not found')
    out = []
    out.append('(* GENERATED by harness/t_kill.py from step-exec.c and step-exec.h - do not edit. *)')
    out.append('From Coq Require Import ZArith List String.')
    out.append('Import ListNotations.')
    out.append('Local Open Scope string_scope.')
    out.append('')
    out.append('Definition ex_timeout : Z := %d%%Z.' % ex_timeout)
    calls = {}
    for f in FUNCS:
        _, body = function_body(src, f)
        calls[f] = calls_of(drop_verif(body))
        if not calls[f]:
            raise ValueError('no recognisable statement in %s' % f)
    # the signal handler is pinned as a whole: one assignment, nothing else (a handler that exits, longjmps or kills
    # changes the transition system at EVERY program counter)
    _, hb = function_body(src, 'sighandler')
    if re.sub(r'\s+', ' ', drop_verif(hb)).strip() != 'gotsig = signo;':
        raise ValueError('step-exec.c sighandler: body is no longer the single statement `gotsig = signo;`: %r'
                         % re.sub(r'\s+', ' ', hb).strip())
    kw = [c for c in calls['step_exec'] if c.startswith('killwaitpg ')]
    if len(kw) != 1:
        raise ValueError('step_exec: expected exactly one killwaitpg call')
    out.append('Definition kill_timeout_ms : Z := %d%%Z.' % int(kw[0].split()[2]))
    sl = [c for c in calls['killwaitpg1'] if c.startswith('slpms ')]
    if len(sl) != 1:
        raise ValueError('killwaitpg1: polling quantum not found')
    out.append('Definition kill_poll_ms : Z := %d%%Z.' % int(sl[0].split()[1]))
    we = [c for c in calls['step_fork'] if c.startswith('waiteof ')]
    if len(we) != 1:
        raise ValueError('step_fork: waiteof call not found')
    out.append('Definition pipe_timeout_ms : Z := %d%%Z.' % int(we[0].split()[1]))
    sl = [c for c in calls['waiteof'] if c.startswith('slpms ')]
    if len(sl) != 1:
        raise ValueError('waiteof: polling quantum not found')
    out.append('Definition pipe_poll_ms : Z := %d%%Z.' % int(sl[0].split()[1]))
    out.append('')
    for f in FUNCS:
        out.append('Definition calls_%s : list string :=' % f)
        out.append('  [ ' + ';\n    '.join(coq_string(c) for c in calls[f]) + ' ].')
        out.append('')
    return {'Gen_Kill.v': '\n'.join(out), 'Gen_KillTable.v': build_table(calls)}


if __name__ == '__main__':
    import sys
    g = generate(sys.argv[1] if len(sys.argv) > 1 else '/repo')
    print(g[sys.argv[2] if len(sys.argv) > 2 else 'Gen_Kill.v'])
