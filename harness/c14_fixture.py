"""C14 helpers: a case (JSON) -> invocation trees on disk, robsd-regress-html run,
index.html -> matrix, output tree -> {path: content}.  python3 stdlib only.

Case format (everything that is a byte string is hex):
  {"arches": [ {"arch": hex, "entries": [ {"name": hex, "kind": "dir"|"file",
                                           "step": hex|null,            # content of step.csv, null = absent
                                           "files": [[namehex, contenthex], ...]} ... ] } ... ]}
Entries are what readdir(3) of the arch's robsd directory hands out (in any order); "files" are the regular
files of an invocation directory besides step.csv (logs, dmesg, comment, tags, src.diff.*).
"""
import os, re, subprocess
from html.parser import HTMLParser

STATUSES = ['PASS', 'FAIL', 'XFAIL', 'XPASS', 'SKIP', 'NOTERM']


def write_tree(root, case):
    """Creates <root>/in/<k>/ for the k-th arch argument and returns the argv tail."""
    args = []
    for k, a in enumerate(case['arches']):
        d = os.path.join(root, 'in', str(k))
        os.makedirs(d)
        for e in a['entries']:
            p = os.path.join(d.encode(), bytes.fromhex(e['name']))
            if e['kind'] == 'file':
                open(p, 'wb').write(b'x\n')
                continue
            os.mkdir(p)
            if e.get('step') is not None:
                open(os.path.join(p, b'step.csv'), 'wb').write(bytes.fromhex(e['step']))
            for n, c in e.get('files', []):
                open(os.path.join(p, bytes.fromhex(n)), 'wb').write(bytes.fromhex(c))
        args.append(bytes.fromhex(a['arch']) + b':' + d.encode())
    return args


def arch_args(root, case):
    """the argv tail write_tree returned for this case (the tree is on disk already)"""
    return [bytes.fromhex(a['arch']) + b':' + os.path.join(root, 'in', str(k)).encode()
            for k, a in enumerate(case['arches'])]


def run_impl(binary, root, case, timeout=60, env=None):
    args = write_tree(root, case)
    out = os.path.join(root, 'out')
    os.mkdir(out)
    try:
        r = subprocess.run([binary.encode(), b'-o', out.encode()] + args, stdout=subprocess.PIPE,
                           stderr=subprocess.PIPE, timeout=timeout, env=env)
        rc, err = r.returncode, r.stderr
    except subprocess.TimeoutExpired:
        rc, err = -999, b'timeout'
    return rc, err, out


class _Node:
    __slots__ = ('tag', 'attrs', 'children', 'text')

    def __init__(self, tag, attrs):
        self.tag = tag
        self.attrs = dict(attrs)
        self.children = []
        self.text = ''

    def find_all(self, tag):
        res = []
        for c in self.children:
            if c.tag == tag:
                res.append(c)
            res += c.find_all(tag)
        return res

    def kids(self, tag):
        return [c for c in self.children if c.tag == tag]

    def alltext(self):
        return (self.text + ' '.join(c.alltext() for c in self.children)).strip()


class _P(HTMLParser):
    VOID = {'meta', 'br', 'link', 'img', 'hr', 'input'}

    def __init__(self):
        super().__init__(convert_charrefs=True)
        self.root = _Node('#root', [])
        self.stack = [self.root]

    def handle_starttag(self, tag, attrs):
        n = _Node(tag, attrs)
        self.stack[-1].children.append(n)
        if tag not in self.VOID:
            self.stack.append(n)

    def handle_endtag(self, tag):
        for i in range(len(self.stack) - 1, 0, -1):
            if self.stack[i].tag == tag:
                del self.stack[i:]
                break

    def handle_data(self, data):
        if self.stack[-1].tag not in ('style', 'script'):
            self.stack[-1].text += data.strip()


def parse_index(data):
    """index.html -> {'columns': [...], 'rows': [...]} or raises ValueError.
    Only the structure is used: table/thead/tr/th and tbody/tr/td, class attributes, a/href, text.
    LENIENT (html.parser recovers from mis-nesting, keeps the last of duplicate attributes, ignores text outside the
    table): since the third pass this reading judges nothing.  The oracle judges the matrix returned by the STRICT reader
    written in Gallina (coq/theories/Html/HtmlParse.v parse_index, driver command judge: every tag closed in order, no
    stray end tag, no duplicate attribute, nothing but the document regress-html.c writes; a rejection is the oracle
    failure index-html-malformed); c14.py only cross-checks the two readings on cases whose names are plain."""
    p = _P()
    # html.c escapes nothing, so every & of the page is a literal byte of a name (or of the two arrows render_duration
    # writes as &#8600; / &#8599;): escape them all before html.parser decodes character references, so that a suite
    # called &amp;/x or a/&lt; is read back as the bytes the page holds (the strict reader decodes nothing either)
    p.feed(data.decode('latin1').replace('&', '&amp;'))
    tables = p.root.find_all('table')
    if len(tables) != 1:
        raise ValueError('expected one table, found %d' % len(tables))
    t = tables[0]
    thead = t.kids('thead')
    tbody = t.kids('tbody')
    if len(thead) != 1 or len(tbody) != 1:
        raise ValueError('thead/tbody')
    hdr = {}
    for tr in thead[0].kids('tr'):
        ths = tr.kids('th')
        if not ths:
            raise ValueError('empty header row')
        hdr[ths[0].alltext()] = ths[1:]
    need = ['pass rate', 'date', 'duration', 'changelog', 'patches', 'architecture']
    for k in need:
        if k not in hdr:
            raise ValueError('header row %r missing' % k)
    n = len(hdr['date'])
    for k in need:
        if len(hdr[k]) != n:
            raise ValueError('header row %r has %d cells, date has %d' % (k, len(hdr[k]), n))
    cols = []
    for j in range(n):
        c = {}
        c['rate'] = hdr['pass rate'][j].alltext()
        c['date'] = hdr['date'][j].alltext()
        dur = hdr['duration'][j]
        span = dur.find_all('span')
        arrow = span[0].alltext() if span else ''
        c['duration'] = dur.text
        c['delta'] = {'': 'NONE', '&#8600;': 'FASTER', '&#8599;': 'SLOWER'}.get(arrow, 'arrow?' + arrow)
        a = hdr['changelog'][j].find_all('a')
        c['cvs'] = a[0].attrs.get('href') if a else None
        if not a and hdr['changelog'][j].alltext() != 'n/a':
            raise ValueError('changelog cell')
        a = hdr['patches'][j].find_all('a')
        if a:
            m = re.fullmatch(r'patches \((-?\d+)\)', a[0].alltext())
            if not m:
                raise ValueError('patches cell')
            c['patches'] = [int(m.group(1)), a[0].attrs.get('href')]
        else:
            c['patches'] = None
        a = hdr['architecture'][j].find_all('a')
        if len(a) != 1:
            raise ValueError('architecture cell')
        c['arch'] = a[0].alltext()
        c['dmesg'] = a[0].attrs.get('href')
        cols.append(c)
    rows = []
    for tr in tbody[0].kids('tr'):
        tds = tr.kids('td')
        if not tds:
            raise ValueError('empty body row')
        a = tds[0].find_all('a')
        if len(a) != 1:
            raise ValueError('suite cell')
        row = {'suite': a[0].alltext(), 'href': a[0].attrs.get('href'), 'cells': []}
        for td in tds[1:]:
            a = td.find_all('a')
            if not a:
                if td.alltext() or td.attrs.get('class'):
                    raise ValueError('non-empty cell without link')
                row['cells'].append(None)
            else:
                row['cells'].append([a[0].alltext(), td.attrs.get('class'), a[0].attrs.get('href')])
        rows.append(row)
    return {'columns': cols, 'rows': rows}


def read_tree(out):
    """{relative path: bytes | None (directory)} without index.html"""
    res = {}
    for d, ds, fs in os.walk(out):
        for x in ds:
            res[os.path.relpath(os.path.join(d, x), out)] = None
        for f in fs:
            p = os.path.join(d, f)
            rel = os.path.relpath(p, out)
            if rel == 'index.html':
                continue
            res[rel] = open(p, 'rb').read()
    return res


def classify_stderr(err):
    e = err.decode('latin1')
    if 'AddressSanitizer' in e:
        m = re.search(r'AddressSanitizer: ([a-z-]+)', e)
        f = re.search(r'#\d+ 0x[0-9a-f]+ in (render_suite|[a-z_]+) [^\n]*regress-html\.c:(\d+)', e)
        return 'asan:' + (m.group(1) if m else '?') + (':' + f.group(1) if f else '')
    if 'no steps found' in e:
        return 'no-steps'
    if 'end step not found' in e:
        return 'no-end'
    if 'mkdir:' in e:
        return 'mkdir'
    if 'opendir:' in e:
        return 'opendir'
    if 'invalid argument' in e:
        return 'badarg'
    if 'failed to parse log' in e:
        return 'badlog'
    if re.search(r'step\.csv', e):
        return 'stepfile'
    if 'No such file' in e:
        return 'missing-file'
    return 'other' if e.strip() else 'none'
