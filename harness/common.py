"""Shared machinery of the /verif checks (python3 stdlib only).

One check = regen (translators) -> prove (coqc, full .vo) -> audit (no axioms,
no admits) -> build (implementation from /repo's working tree into a scratch
directory, extracted model driver) -> correspond (model vs implementation) ->
oracle (extracted spec_ok applied to what the implementation did) -> verdict ->
evidence.  See DESIGN.md section 5.
"""
import atexit, fcntl, hashlib, json, os, random, re, shutil, subprocess, sys, tempfile, time

VERIF = os.environ.get('VERIF_DIR', '/verif')
REPO = os.environ.get('VERIF_REPO', '/repo')
COQ = os.path.join(VERIF, 'coq')
ALLOWED_AXIOMS = set()   # standard-library axioms a property may rely on; extended per property

FORBIDDEN = [
    r'\bAxiom\b', r'\bAxioms\b', r'\bParameter\b', r'\bParameters\b', r'\bConjecture\b',
    r'\bAdmitted\b', r'\badmit\b', r'Admit Obligations', r'\bgive_up\b',
    r'Unset\s+Guard\s+Checking', r'bypass_check', r'type-in-type', r'impredicative-set',
    r'Unset\s+Positivity', r'Unset\s+Universe\s+Checking', r'\bnative_compute\b',
    r'Extract\s+(?:Inlined\s+)?Constant', r'Extract\s+Inductive',     # extraction: ExtrOcamlBasic only
]


def sh(cmd, **kw):
    kw.setdefault('stdout', subprocess.PIPE)
    kw.setdefault('stderr', subprocess.STDOUT)
    kw.setdefault('text', True)
    return subprocess.run(cmd, **kw)


def hexs(b):
    """bytes -> driver token"""
    return b.hex() if len(b) else '-'


def unhex(t):
    return b'' if t == '-' else bytes.fromhex(t)


class Lock:
    """flock on a file; re-entrant within this process (a harness that holds the lock of the Coq tree may call
    build_driver, which takes it again)"""
    held = {}

    def __init__(self, path):
        self.path = os.path.abspath(path)

    def __enter__(self):
        h = Lock.held.get(self.path)
        if h:
            h[1] += 1
            return self
        f = open(self.path, 'w')
        fcntl.flock(f, fcntl.LOCK_EX)
        Lock.held[self.path] = [f, 1]
        return self

    def __exit__(self, *a):
        h = Lock.held[self.path]
        h[1] -= 1
        if h[1] == 0:
            fcntl.flock(h[0], fcntl.LOCK_UN)
            h[0].close()
            del Lock.held[self.path]


def strip_coq_comments(text):
    out = []
    depth = 0
    i = 0
    n = len(text)
    while i < n:
        if text.startswith('(*', i):
            depth += 1
            i += 2
        elif text.startswith('*)', i) and depth > 0:
            depth -= 1
            i += 2
        else:
            if depth == 0:
                out.append(text[i])
            elif text[i] == '\n':
                out.append('\n')
            i += 1
    return ''.join(out)


def coq_sources():
    res = []
    for top in ('theories', 'gen', 'extract'):
        for d, _, fs in os.walk(os.path.join(COQ, top)):
            for f in sorted(fs):
                if f.endswith('.v'):
                    res.append(os.path.relpath(os.path.join(d, f), COQ))
    return sorted(res)


def refresh_coqproject():
    """_CoqProject lists every .v under theories/ and gen/; the Makefile is
    regenerated only when that list changes."""
    files = [f for f in coq_sources() if not f.startswith('extract/')]
    body = '-Q theories Robsd\n-Q gen RobsdGen\n-arg -w -arg -deprecated-hint-without-locality,-deprecated-instance-without-locality\n' + '\n'.join(files) + '\n'
    p = os.path.join(COQ, '_CoqProject')
    old = open(p).read() if os.path.exists(p) else ''
    if old != body or not os.path.exists(os.path.join(COQ, 'Makefile')):
        open(p, 'w').write(body)
        r = sh(['coq_makefile', '-f', '_CoqProject', '-o', 'Makefile'], cwd=COQ)
        if r.returncode != 0:
            raise RuntimeError('coq_makefile failed: ' + r.stdout)


def write_if_changed(path, content):
    if os.path.exists(path) and open(path).read() == content:
        return False
    os.makedirs(os.path.dirname(path), exist_ok=True)
    open(path, 'w').write(content)
    return True


# generated modules per translator (a translator not listed here counts for every property)
T_OUT = {'t_arena': ['Gen_Arena'], 't_arith': ['Gen_Arith'], 't_conf': ['Gen_Conf'], 't_exec': ['Gen_Exec'], 't_html': ['Gen_Html'],
         't_interp': ['Gen_Interp'], 't_interpsrc': ['Gen_InterpSrc'], 't_kill': ['Gen_Kill', 'Gen_KillTable'], 't_ksconst': ['Gen_KsConst'],
         't_lexer': ['Gen_Lexer'], 't_lock': ['Gen_Lock'], 't_orch': ['Gen_Orch'], 't_regresslog': ['Gen_RegressLog'],
         't_report': ['Gen_Report'], 't_shell': ['Gen_Shell'], 't_step': ['Gen_Step', 'Gen_StepIO'], 't_util': ['Gen_Util']}


class Ctx:
    def __init__(self, pid, tier, seed):
        self.pid = pid
        self.tier = tier
        self.seed = seed
        self.rng = random.Random(seed)
        self.t0 = time.time()
        self.scratch = []
        self.notes = []
        self.shims_used = []
        self.gen_changed = False
        atexit.register(self.cleanup)

    # ---- scratch space ---------------------------------------------------
    def mkscratch(self, prefix='verif'):
        base = os.environ.get('VERIF_TMP', tempfile.gettempdir())
        d = tempfile.mkdtemp(prefix=prefix + '.' + self.pid + '.', dir=base)
        self.scratch.append(d)
        return d

    def cleanup(self):
        for d in self.scratch:
            shutil.rmtree(d, ignore_errors=True)
        self.scratch = []

    def budget(self, quick, thorough):
        return thorough if self.tier == 'thorough' else quick

    # ---- regen -------------------------------------------------------------
    def gen_closure(self):
        """names of the generated modules (Gen_*) that Properties_<pid>.v depends on, directly or through area files"""
        seen, todo, gens = set(), [os.path.join(COQ, 'theories', 'Properties_%s.v' % self.pid)], set()
        while todo:
            f = todo.pop()
            if f in seen or not os.path.exists(f):
                continue
            seen.add(f)
            text = strip_coq_comments(open(f).read())
            gens |= set(re.findall(r'\b(Gen_[A-Za-z0-9]+)\b', text))
            for m in re.finditer(r'\b((?:[A-Z][A-Za-z0-9_]*\.)+[A-Z][A-Za-z0-9_]*)\b', text):
                parts = m.group(1).split('.')
                if parts[0] == 'Robsd':
                    parts = parts[1:]
                if parts:
                    todo.append(os.path.join(COQ, 'theories', *parts) + '.v')
        return gens

    def regen(self, translators, have_lock=False):
        """Regenerate coq/gen from REPO: EVERY translator (harness/t_*.py, generate(repo) -> {file: content}) is run and
        its output written, so that no proof is compiled against a generated file left behind by another check or by a
        run on a scratch copy.  A translator that raises is reported as a broken tie of this check when one of its
        files is in the dependency closure of Properties_<pid>.v or it is named in [translators]; otherwise it is only
        noted.  The lock of the Coq tree is held while writing (prove() regenerates again under the same lock as make)."""
        import importlib, glob as _glob
        errors = []

        def work():
            need = self.gen_closure()
            for path in sorted(_glob.glob(os.path.join(VERIF, 'harness', 't_*.py'))):
                t = os.path.basename(path)[:-3]
                try:
                    m = importlib.import_module(t)
                    out = m.generate(REPO)
                    for rel, content in out.items():
                        if write_if_changed(os.path.join(COQ, 'gen', rel), content):
                            self.gen_changed = True
                except Exception as e:   # translator pattern no longer matches
                    outs = T_OUT.get(t)
                    mine = t in translators or outs is None or any(o in need for o in outs)
                    if mine:
                        errors.append('%s: %s' % (t, e))
                    else:
                        self.notes.append('translator %s (not needed by this property) raised: %s' % (t, str(e)[:200]))
        if have_lock:
            work()
        else:
            with Lock(os.path.join(COQ, '.lock')):
                work()
        return errors

    # ---- prove ---------------------------------------------------------------
    def prove(self, timeout=1500, translators=()):
        """Full .vo build of Properties_<pid>.v and everything it needs, with the
        property file itself always recompiled so that its Print Assumptions
        output is that of this run."""
        pid = self.pid
        vfile = os.path.join(COQ, 'theories', 'Properties_%s.v' % pid)
        res = {'ok': False, 'theorems': [], 'discharged': 0, 'assumptions': {},
               'failed': None, 'log_tail': '', 'cmd': ''}
        text = strip_coq_comments(open(vfile).read())
        thms = re.findall(r'^\s*(?:Theorem|Corollary)\s+([A-Za-z0-9_\']+)', text, re.M)
        res['theorems'] = thms
        with Lock(os.path.join(COQ, '.lock')):
            refresh_coqproject()
            res['regen_errors'] = self.regen(list(translators), have_lock=True)
            target = 'theories/Properties_%s.vo' % pid
            try:
                os.unlink(os.path.join(COQ, target))
            except OSError:
                pass
            cmd = ['timeout', str(timeout), 'make', '-k', '-j16', target]
            res['cmd'] = 'cd %s && %s' % (COQ, ' '.join(cmd))
            r = sh(cmd, cwd=COQ)
        log = r.stdout
        res['log_tail'] = log[-3000:]
        # Print Assumptions blocks, in file order
        pa = re.findall(r'Print\s+Assumptions\s+([A-Za-z0-9_\']+)', text)
        blocks = []
        cur = None
        for line in log.splitlines():
            if line.startswith('Closed under the global context'):
                blocks.append([])
                cur = None
            elif line.startswith('Axioms:'):
                cur = []
                blocks.append(cur)
            elif cur is not None:
                m = re.match(r'^([A-Za-z0-9_.\']+)\s*:', line)
                if m:
                    cur.append(m.group(1))
                elif not line.startswith(' '):
                    cur = None
        for name, b in zip(pa, blocks):
            res['assumptions'][name] = b
        if r.returncode == 0 and os.path.exists(os.path.join(COQ, target)):
            res['ok'] = True
            res['discharged'] = len(thms)
        else:
            m = re.search(r'File "\./theories/Properties_%s\.v", line (\d+)' % pid, log)
            if m:
                ln = int(m.group(1))
                done = 0
                failed = None
                lines = open(vfile).read().splitlines()
                for i, l in enumerate(lines, 1):
                    mm = re.match(r'^\s*(?:Theorem|Corollary)\s+([A-Za-z0-9_\']+)', l)
                    if mm:
                        if i <= ln:
                            failed = mm.group(1)
                            done += 1
                res['failed'] = failed
                res['discharged'] = max(0, done - 1)
            else:
                m = re.search(r'File "\./([^"]+)", line (\d+)', log)
                res['failed'] = ('dependency %s line %s' % (m.group(1), m.group(2))) if m else 'build'
                res['discharged'] = 0
        # every property theorem must have its Print Assumptions, and only allowed axioms
        bad = []
        for t in thms:
            if res['ok'] and t not in res['assumptions']:
                bad.append('%s: no Print Assumptions output' % t)
        for name, axs in res['assumptions'].items():
            for a in axs:
                if a not in ALLOWED_AXIOMS:
                    bad.append('%s depends on %s' % (name, a))
        res['axiom_problems'] = bad
        return res

    # ---- audit -----------------------------------------------------------------
    def audit(self):
        problems = []
        for rel in coq_sources():
            text = strip_coq_comments(open(os.path.join(COQ, rel)).read())
            for pat in FORBIDDEN:
                for m in re.finditer(pat, text):
                    ln = text.count('\n', 0, m.start()) + 1
                    problems.append('%s:%d: %s' % (rel, ln, m.group(0)))
            # Variable/Hypothesis only inside a Section
            depth = 0
            for i, line in enumerate(text.splitlines(), 1):
                if re.match(r'^\s*Section\s', line):
                    depth += 1
                elif re.match(r'^\s*End\s', line) and depth > 0:
                    depth -= 1
                elif depth == 0 and re.match(r'^\s*(Variable|Variables|Hypothesis|Hypotheses|Context)\b', line):
                    problems.append('%s:%d: %s outside a Section' % (rel, i, line.strip()))
        for f in ('Makefile', '_CoqProject'):
            p = os.path.join(COQ, f)
            if os.path.exists(p):
                t = open(p).read()
                if re.search(r'-vos|-vok|type-in-type|impredicative-set', t) and f == '_CoqProject':
                    problems.append('%s: forbidden flag' % f)
        return problems

    # ---- build -------------------------------------------------------------------
    def build_impl(self, extra_cflags='', cc=None, ldflags=None):
        d = self.mkscratch('impl')
        env = dict(os.environ)
        if cc:
            env['VERIF_CC'] = cc
        if ldflags:
            env['VERIF_LDFLAGS'] = ldflags
        r = sh([os.path.join(VERIF, 'bin', 'build-impl'), d] + ([extra_cflags] if extra_cflags else []), env=env)
        if r.returncode != 0:
            raise BuildFailure('implementation does not build:\n' + r.stdout[-2000:])
        return d

    def build_driver(self, name, withz=False):
        # the extraction reads coq/gen and the compiled theories: regenerate from THIS run's repository and extract under
        # the lock of the Coq tree, so that a concurrent check on another copy cannot slip its switches in between
        with Lock(os.path.join(COQ, '.lock')):
            self.gen_changed = False
            self.regen([], have_lock=True)
            if self.gen_changed:
                sh(['timeout', '1500', 'make', '-k', '-j16'], cwd=COQ)
            with Lock(os.path.join(VERIF, 'driver', '.lock')):
                r = sh([os.path.join(VERIF, 'bin', 'build-driver'), name] + (['z'] if withz else []))
            built = os.path.join(VERIF, 'driver', 'build', name, name + '_driver')
            if r.returncode == 0:
                # this run uses its own copy: a concurrent check on another repository relinks the shared one
                mine = os.path.join(self.mkscratch('drv'), name + '_driver')
                shutil.copy2(built, mine)
        if r.returncode != 0:
            raise BuildFailure('driver %s does not build:\n%s' % (name, r.stdout[-2000:]))
        return mine

    def wall(self):
        return round(time.time() - self.t0, 2)


class BuildFailure(Exception):
    pass


def run_driver(path, lines, timeout=600):
    """One process, one answer line per input line."""
    r = subprocess.run([path], input='\n'.join(lines) + '\n', stdout=subprocess.PIPE,
                       stderr=subprocess.PIPE, text=True, timeout=timeout)
    out = r.stdout.split('\n')
    if out and out[-1] == '':
        out.pop()
    if len(out) != len(lines):
        raise RuntimeError('driver %s: %d answers for %d questions (rc=%s, stderr=%s)'
                           % (path, len(out), len(lines), r.returncode, r.stderr[-500:]))
    return out


class Result:
    """What a property module's run() hands back."""

    def __init__(self):
        self.evaluations = 0
        self.nontrivial = set()        # keys of distinct non-trivial cases
        self.rule = ''
        self.samples = []
        self.distribution = {}
        self.disagreements = []        # model vs implementation: dicts with 'case', 'model', 'impl'
        self.oracle_failures = []      # spec_ok false on an implementation observation: dicts with 'case', 'signature', 'what'
        self.traces_validated = 0
        self.assumptions = []
        self.extra = {}
        self.tie_errors = []           # translator / table comparison problems

    def count(self, key, n=1):
        self.distribution[key] = self.distribution.get(key, 0) + n


# ---- shrinking -----------------------------------------------------------------------------------

def ddmin(items, still_fails, budget=60):
    """Delta debugging over a list: the smallest sub-list (by chunk removal) on which still_fails(sub) holds.
    budget bounds the number of test executions."""
    items = list(items)
    n = 2
    while len(items) >= 2 and budget > 0:
        chunk = max(1, len(items) // n)
        removed = False
        for i in range(0, len(items), chunk):
            cand = items[:i] + items[i + chunk:]
            budget -= 1
            if cand and still_fails(cand):
                items = cand
                n = max(n - 1, 2)
                removed = True
                break
            if budget <= 0:
                break
        if not removed:
            if chunk == 1:
                break
            n = min(len(items), n * 2)
    return items


# ---- known findings ---------------------------------------------------------------

def load_known():
    p = os.path.join(VERIF, 'known_findings.json')
    if not os.path.exists(p):
        return {'known': [], 'fixed': []}
    return json.load(open(p))


def match_known(pid, signature):
    for k in load_known().get('known', []):
        if k['property'] == pid and k['signature'] == signature:
            return k
    return None


# ---- verdict + evidence ---------------------------------------------------------------

def finish(ctx, proof, audit, res, regen_errors, level='proof', extra_assumptions=(), shrinker=None):
    pid = ctx.pid
    rdir = os.path.join(VERIF, 'replay', pid)
    os.makedirs(rdir, exist_ok=True)
    violations = []
    known_lines = []
    # 1. oracle failures on implementation observations decide violations
    seen_sig = set()
    for f in res.oracle_failures:
        sig = f.get('signature', 'unclassified')
        k = match_known(pid, sig)
        if k is not None:
            if sig not in seen_sig:
                known_lines.append('KNOWN-FINDING: property=%s %s' % (pid, k['what']))
            seen_sig.add(sig)
            continue
        if sig in seen_sig:
            continue
        seen_sig.add(sig)
        path = os.path.join(rdir, 'violation-%s-%d.json' % (re.sub(r'[^A-Za-z0-9_.-]', '_', sig)[:60], ctx.seed))
        case = f['case']
        shrunk = False
        if shrinker is not None:
            try:
                small = shrinker(ctx, f)
                if small is not None:
                    case, shrunk = small, True
            except Exception:
                pass
        json.dump({'property': pid, 'kind': 'oracle', 'signature': sig, 'what': f.get('what', ''),
                   'details': json.loads(json.dumps({k: v for k, v in f.items() if k not in ('case', 'signature', 'what')}, default=str)),
                   'case': case, 'shrunk': shrunk, 'original_case': f['case'] if shrunk else None,
                   'seed': ctx.seed, 'tier': ctx.tier}, open(path, 'w'), indent=1)
        violations.append((path, False))
    # 2. broken proof / audit / tie / correspondence without a failing input
    broken = []
    if not proof['ok']:
        broken.append('theorem %s of Properties_%s.v no longer checks' % (proof['failed'], pid))
    for b in proof.get('axiom_problems', []):
        broken.append('assumption audit: ' + b)
    for a in audit:
        broken.append('source audit: ' + a)
    for e in regen_errors:
        broken.append('translator: ' + e)
    for e in res.tie_errors:
        broken.append('tie: ' + e)
    if res.disagreements:
        broken.append('correspondence: model and implementation differ on %d case(s)' % len(res.disagreements))
    try:
        import theorem_index
        committed = json.load(open(os.path.join(VERIF, 'THEOREMS.json')))['properties'].get(pid, [])
        now = {e['name']: e for e in theorem_index.current({pid}).get(pid, [])}
        for e in committed:
            f = now.get(e['name'])
            if f is None:
                broken.append('theorem index: %s %s of Properties_%s.v is gone (THEOREMS.json lists it; harness/theorem_index.py write after a deliberate change)' % (e['kind'], e['name'], pid))
            elif f['statement_sha256'] != e['statement_sha256'] or f['kind'] != e['kind'] or (e.get('print_assumptions') and not f['print_assumptions']) \
                    or (e.get('closed_by_exact') and not f['closed_by_exact']):
                broken.append('theorem index: %s of Properties_%s.v differs from the committed statement/kind/closing (THEOREMS.json)' % (e['name'], pid))
    except Exception as e:   # a missing or unreadable index is itself reported
        broken.append('theorem index: cannot be compared (%s)' % str(e)[:200])
    if not res.tie_errors and (res.evaluations < 1 or len(res.nontrivial) < 2):
        # a run that compared (almost) nothing is not evidence: the tie to the code was not exercised
        broken.append('tie: the correspondence covered %d case(s), %d of them distinct and non-trivial - too few to count as a check'
                      % (res.evaluations, len(res.nontrivial)))
    if broken and not violations:
        path = os.path.join(rdir, 'broken-%d.json' % ctx.seed)
        json.dump({'property': pid, 'kind': 'no-failing-input-found', 'broken': broken,
                   'proof_log_tail': proof.get('log_tail', '')[-1500:],
                   'first_disagreements': res.disagreements[:3], 'seed': ctx.seed, 'tier': ctx.tier},
                  open(path, 'w'), indent=1)
        violations.append((path, True))
    ev = {
        'property_id': pid, 'tier': ctx.tier, 'seed': ctx.seed, 'level': level,
        'coverage': {
            'obligations': len(proof['theorems']),
            'discharged': proof['discharged'],
            'checker_cmd': proof['cmd'],
            'trusted_base': trusted_base(proof) + list(extra_assumptions),
            'theorems': proof['theorems'],
            'print_assumptions': {k: (v or 'Closed under the global context') for k, v in proof['assumptions'].items()},
            'evaluations': res.evaluations,
            'distinct_nontrivial': len(res.nontrivial),
            'rule': res.rule,
            'samples': res.samples[:6],
            'input_distribution': res.distribution,
            'traces_validated_against_impl': res.traces_validated,
            'disagreements_checked': res.evaluations,
            'model_impl_disagreements': len(res.disagreements),
            'oracle_failures': len(res.oracle_failures),
            'known_findings_hit': sorted(s for s in seen_sig if match_known(pid, s)),
            'broken': broken,
            'shims_used': ctx.shims_used,
        },
        'assumptions': res.assumptions + ctx.notes,
        'wall_s': ctx.wall(),
        'violations': len(violations),
    }
    ev['coverage'].update(res.extra)
    if res.disagreements:
        ev['coverage']['first_disagreements'] = json.loads(json.dumps(res.disagreements[:3], default=str))
    if ev['coverage']['discharged'] < 1 or ev['coverage']['obligations'] < 1:
        # nothing was proved in this run (a broken dependency): the schema's proof keys demand >= 1, so the
        # counts are reported under other names and the exploration counts carry the evidence
        ev['coverage']['theorems_discharged'] = ev['coverage'].pop('discharged')
        ev['coverage']['theorems_stated'] = ev['coverage'].pop('obligations')
    os.makedirs(os.path.join(VERIF, 'evidence'), exist_ok=True)
    json.dump(ev, open(os.path.join(VERIF, 'evidence', pid + '.json'), 'w'), indent=1, sort_keys=True)
    for l in known_lines:
        print(l)
    for path, noinput in violations:
        print('VIOLATION property=%s replay=%s%s' % (pid, path, ' no-failing-input-found' if noinput else ''))
    summary = '%s %s: theorems %d/%d, %d cases (%d distinct non-trivial), %d disagreements, %d oracle failures, %.1fs' % (
        pid, ctx.tier, proof['discharged'], len(proof['theorems']), res.evaluations, len(res.nontrivial),
        len(res.disagreements), len(res.oracle_failures), ctx.wall())
    print(summary)
    return 1 if violations else 0


def trusted_base(proof):
    tb = ['Coq 8.16.1 kernel (coqc, full .vo build; vm_compute used in some proofs; native_compute not used)']
    axs = sorted({a for v in proof['assumptions'].values() for a in v})
    tb.append('axioms reported by Print Assumptions: ' + (', '.join(axs) if axs else 'none (every property theorem closed under the global context)'))
    tb.append('extraction: ExtrOcamlBasic only (Extract Inductive bool, option, unit, list, prod, sumbool, sumor), no Extract Constant; OCaml 4.13.1; hand-written hex/decimal glue in driver/hexio*.ml.in')
    tb.append('correspondence harness, generators and canonicalisers under /verif/harness; translators under /verif/harness/t_*.py')
    return tb
