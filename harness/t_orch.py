"""Translator util.sh + canvas -> coq/gen/Gen_Orch.v (C04/C11; vocabulary: coq/theories/Orch/ShapeDefs.v).

What is read, after normalisation (comments, `local` declarations, `info` messages and blank lines dropped,
white space squeezed):
  robsd()          argument loop and set-up pinned as text; the BODY of `steps -o N | while read ...; do ... done` is
                   parsed into a statement list: every statement group is recognised by its text and written down as one
                   constructor, IN THE ORDER IN WHICH IT STANDS IN THE SOURCE (head / parallel branch / synchronous
                   branch / tail).  A reordered, dropped or doubled statement therefore gives another list, and it is
                   Coq (Orch/ShapeSem.v: the meaning of a list; Orch/OrchTie.v: the meaning of the shipped list is
                   main_step) that says whether the loop still is the modelled one - not this file.
  step_exec_job()  the same: statement list after the argument loop (in-flight record with its -e / -d values, the two
                   clock reads, the completion record, the hook, `return 1`)
  trap_exit()      the same (report/mail decision, end hook, lock_release, removal of an empty build directory)
  lock_acquire()   the refusal test;  lock_release(): the ownership test (enum values consumed by RunLockProofs)
  robsd_hook()     whether the hook inherits the loop's standard input (HookStdinInherited) or gets /dev/null
  canvas           from the EXIT trap to the end, as text (build_id / step_next, build_init, lock_acquire, skip records
                   only at step 1, the DETACH block with the re-installed trap, robsd -b .. -s ..)
  pinned as text only (no meaning in Coq; a change is reported as a broken tie): jobs_count, has_steps, lock_alive,
  steps, step_skip, report_receiver's canvas branch is NOT pinned.
A statement group this file does not know raises: the tie is reported as broken rather than guessed.
NOT covered by any translator: step_eval, step_value, step_exec (except C13's pin), report, step_id, robsd-wait.c
(a stub outside OpenBSD - see t_wait below: the stub itself is pinned so that a functional version would be noticed)."""
import os, re
from t_util import func_body, norm


def lines(src, name):
    return [l for l in norm(func_body(src, name)) if not l.startswith('info ')]


ARGLOOP = lambda opts: ['while [ $# -gt 0 ]; do', 'case "$1" in'] + opts + ['*) break;;', 'esac', 'shift', 'done']

ROBSD_HEAD = ARGLOOP(['-b) shift; _builddir="$1";;', '-s) shift; _step="$1";;']) + [
    ': "${_builddir:?}"', ': "${_step:?}"',
    '_ncpu="$(config_value ncpu)"', '_steps="$(step_path "${_builddir}")"',
    'steps -o "${_step}" | while read -r _step _name _parallel; do']

# statement groups of the loop body -> constructor of ShapeDefs.lstmt
LOOP_STMTS = [
    ('LSkipTest', ['if step_eval -n "${_name}" "${_steps}" 2>/dev/null &&', 'step_skip; then', 'continue', 'fi']),
    ('LQueueFull QWKeepStillRunning', ['if [ "$(jobs_count "${_jobs}")" -eq "${_ncpu}" ]; then',
                                       '_jobs="$(echo "${_jobs}" | xargs "${ROBSDWAIT}" | xargs)"', 'fi']),
    ('LQueueFull QWDropOldest', ['if [ "$(jobs_count "${_jobs}")" -eq "${_ncpu}" ]; then',
                                 'echo "${_jobs}" | xargs "${ROBSDWAIT}" >/dev/null', '_jobs="$(jobs_shift "${_jobs}")"', 'fi']),
    ('LForkJob', ['step_exec_job -b "${_builddir}" -s "${_steps}" \\', '-i "${_step}" -n "${_name}" &',
                  '_jobs="${_jobs}${_jobs:+ }${!}"']),
    ('LBarrier', ['if [ -n "${_jobs}" ]; then', 'echo "${_jobs}" | xargs "${ROBSDWAIT}" -a', '_jobs=""', 'fi']),
    ('LEnd', ['if [ "${_name}" = "end" ]; then',
              '_d1="$(duration_total -s "${_steps}")"', '_d0="$(duration_prev "${_name}" || :)"',
              'if [ -n "${_d0}" ]; then', '_delta="$((_d1 - _d0))"', 'else', '_delta=0', 'fi',
              'step_write -t -s "${_step}" -n "${_name}" -e 0 \\', '-d "${_d1}" -a "${_delta}" "${_steps}"',
              'return 0', 'fi']),
    ('LSyncJob', ['step_exec_job -b "${_builddir}" -s "${_steps}" \\', '-i "${_step}" -n "${_name}"']),
    ('LReboot', ['if [ "${_name}" = "reboot" ] &&', '[ "$(config_value reboot)" -eq 1 ]; then', 'return 0', 'fi']),
    ('LLockAlive', ['if ! lock_alive "${ROBSDDIR}" "${_builddir}"; then',
                    '[ -z "${_jobs}" ] || echo "${_jobs}" | xargs "${ROBSDWAIT}" -a', 'return 1', 'fi']),
]
IF_PARALLEL = 'if [ -n "${_parallel}" ]; then'

JOB_HEAD = ARGLOOP(['-b) shift; _builddir="$1";;', '-s) shift; _steps="$1";;', '-i) shift; _id="$1";;', '-n) shift; _name="$1";;']) + [
    ': "${_builddir:?}"', ': "${_id:?}"', ': "${_name:?}"', ': "${_steps:?}"']
JOB_STMTS = [
    ('JLogId', ['_log="$(log_id -b "${_builddir}" -n "${_name}" -s "${_id}")"']),
    ('JT0', ['_t0="$(date \'+%s\')"']),
    ('JExec', ['step_exec -l "${_builddir}/${_log}" -s "${_name}" || _exit="$?"']),
    ('JT1', ['_t1="$(date \'+%s\')"']),
    ('JDuration', ['_d1="$((_t1 - _t0))"']),
    ('JDelta', ['_d0="$(duration_prev "${_name}" || :)"', 'if [ -n "${_d0}" ]; then', '_delta="$((_d1 - _d0))"', 'else', '_delta=0', 'fi']),
    ('JWriteDone', ['step_write -l "${_log}" -s "${_id}" -n "${_name}" -e "${_exit}" -d "${_d1}" \\', '-a "${_delta}" "${_steps}"']),
    ('JHook', ['robsd_hook -v "step-exit=${_exit}" -v "step-name=${_name}"']),
    ('JReturnIfNonzero', ['case "${_MODE}" in', 'robsd-regress)',
                          'regress_step_after -b "${_builddir}" -e "${_exit}" -n "${_name}" || return 1', ';;',
                          '*)', '[ "${_exit}" -eq 0 ] || return 1', ';;', 'esac']),
]
INFLIGHT = re.compile(r'^step_write -t -l "\$\{_log\}" -s "\$\{_id\}" -n "\$\{_name\}" -e (-?\d+) -d (-?\d+) "\$\{_steps\}"$')

EXIT_HEAD = ARGLOOP(['-r) shift; _robsddir="$1";;', '-b) shift; _builddir="$1";;', '-s) shift; _statpid="$1";;']) + [': "${_robsddir:?}"']
EXIT_STMTS = [
    ('XKillStat', ['[ -z "${_statpid}" ] || kill "${_statpid}" || :']),
    ('XReturnIfNoBuilddir', ['[ -n "${_builddir}" ] || return "${_err}"']),
    ('XReportMail', ['if has_steps "${_steps}" &&', '{ [ "${_err}" -ne 0 ] || step_eval -n end "${_steps}" 2>/dev/null; }', 'then',
                     'if report -b "${_builddir}" &&', '[ "${DETACH}" -ne 0 ]; then',
                     '_receiver="$(report_receiver -b "${_builddir}")"', 'sendmail "${_receiver}" <"$(config_value report-path)"',
                     'fi', 'fi']),
    ('XEndHook', ['if step_eval -n end "${_steps}" 2>/dev/null; then', 'robsd_hook -v "step-exit=0" -v "step-name=end"', 'fi']),
    ('XLockRelease', ['lock_release "${_robsddir}" "${_builddir}" || :']),
    ('XRemoveIfEmpty', ['has_steps "${_steps}" || rm -r "${_builddir}"']),
    ('XReturnErr', ['return "${_err}"']),
]
EXIT_SETUP = '_steps="$(step_path "${_builddir}")"'      # no effect of its own; must stand before the first use of $_steps

LOCK_ACQUIRE = ['_rootdir="$1"; : "${_rootdir:?}"', '_builddir="$2"; : "${_builddir:?}"',
                '_owner="$(cat "${_rootdir}/.running" 2>/dev/null || :)"',
                'if [ -n "${_owner}" ] && [ "${_owner}" != "${_builddir}" ]; then',
                'return 1', 'fi',
                'echo "${_builddir}" >"${_rootdir}/.running"']
RELEASE_TESTS = {
    'RelWholeFileEqual': 'if echo "${_builddir}" | cmp -s - "${_rootdir}/.running"; then',
    'RelFixedSubstring': 'if grep -qsF -- "${_builddir}" "${_rootdir}/.running"; then',
}
LOCK_RELEASE = lambda test: ['_rootdir="$1"; : "${_rootdir:?}"', '_builddir="$2"; : "${_builddir:?}"', test,
                             'chflags nouchg "${_rootdir}/.running"', 'rm -f "${_rootdir}/.running"', 'else', 'return 1', 'fi']

HOOK_BODIES = {
    'HookStdinInherited': ['"${ROBSDHOOK}" -m "${_MODE}" -V ${ROBSDCONF:+"-C${ROBSDCONF}"} "$@" || :'],
    'HookStdinNull': ['"${ROBSDHOOK}" -m "${_MODE}" -V ${ROBSDCONF:+"-C${ROBSDCONF}"} "$@" </dev/null || :'],
}

# functions the loop relies on, pinned as text only
TEXT_PINS = {
    'lock_alive': ['_rootdir="$1"; : "${_rootdir:?}"', '_builddir="$2"; : "${_builddir:?}"',
                   'touch "${_rootdir}/.running" 2>/dev/null || return 1', 'echo "${_builddir}" | cmp -s - "${_rootdir}/.running"'],
    'has_steps': ['_file="$1"; : "${_file:?}"', 'while step_eval "${_i}" "${_file}" 2>/dev/null; do', '_i="$((_i + 1))"',
                  'if [ "$(step_value skip)" -eq 1 ]; then', 'continue', 'else', 'return 0', 'fi', 'done', 'return 1'],
    'steps': ['"${ROBSDSTEP}" -L -m "${_MODE}" ${ROBSDCONF:+"-C${ROBSDCONF}"} "$@"'],
    'step_skip': ['_skip="$(step_value skip 2>/dev/null)"', '[ "${_skip}" -eq 1 ]'],
}

# canvas from the EXIT trap / the choice of the build directory to the end (normalised lines)
TRAP_LINE = "trap 'trap_exit -r \"${ROBSDDIR}\" -b \"${BUILDDIR}\" -s \"${_statpid}\"' EXIT"
STEP_NEXT_PLAIN = ['_step="$(step_next "$(step_path "${BUILDDIR}")")"']
STEP_NEXT_CLEARS = ['_step="$(step_next "$(step_path "${BUILDDIR}")")" ||', '{ BUILDDIR=""; exit 1; }']      # /repo d2af489
RESUME_POINT = lambda sn: ['if [ -z "${BUILDDIR}" ]; then', 'BUILDDIR="${ROBSDDIR}/$(build_id "${ROBSDDIR}")"', 'else'] + sn + ['fi']
CANVAS_TAIL = [
    'build_init "${BUILDDIR}"',
    'lock_acquire "${ROBSDDIR}" "${BUILDDIR}"',
    'if [ "${_step}" -eq 1 ]; then',
    'if [ -n "${_comment}" ]; then', 'cat "${_comment}" >"$(config_value comment-path)"', 'fi',
    'if [ -n "${SKIP}" ]; then', 'for _skip in ${SKIP}; do', '_id="$(step_id "${_skip}")"',
    'step_write -S -t -s "${_id}" -n "${_skip}" -e 0 -d 0 -l "" \\', '"$(step_path "${BUILDDIR}")"', 'done', 'fi',
    'if [ -n "${_tags}" ]; then', 'echo "${_tags}" >"$(config_value tags-path)"', 'fi',
    '"${ROBSDSTAT}" -H >"${BUILDDIR}/stat.csv"', 'fi',
    '"${ROBSDCLEAN}" -m "${_MODE}" ${ROBSDCONF:+"-C${ROBSDCONF}"}',
    '"${ROBSDSTAT}" -i "${STATINTERVAL}" -u "$(whoami)" >>"${BUILDDIR}/stat.csv" 2>&1 &', '_statpid="$!"',
    'if [ "${DETACH}" -eq 1 ]; then', 'DETACH=2', 'exec </dev/null >>"${BUILDDIR}/robsd.log" 2>&1',
    "trap '-' EXIT", '{',
    TRAP_LINE,
    'robsd -b "${BUILDDIR}" -s "${_step}"', '} &', 'else', 'robsd -b "${BUILDDIR}" -s "${_step}"', 'fi']


def parse_block(b, pos, table, stop, what):
    """statement groups from b[pos:] until one of the lines in `stop` stands at statement level -> (constructors, position of
    the stop line)"""
    out = []
    while True:
        if pos >= len(b):
            raise ValueError('%s: ran off the end of the function looking for %r' % (what, stop))
        if b[pos] in stop:
            return out, pos
        for name, pat in sorted(table, key=lambda t: -len(t[1])):
            if b[pos:pos + len(pat)] == pat:
                out.append(name)
                pos += len(pat)
                break
        else:
            raise ValueError('%s: statement %d is %r - not a statement group of the modelled function' % (what, pos, b[pos]))


def parse_robsd(b):
    if b[:len(ROBSD_HEAD)] != ROBSD_HEAD:
        d = next((i for i, (x, y) in enumerate(zip(b, ROBSD_HEAD)) if x != y), min(len(b), len(ROBSD_HEAD)))
        raise ValueError('util.sh robsd(): statement %d before the loop changed: %r' % (d, b[d:d + 1]))
    pos = len(ROBSD_HEAD)
    head, pos = parse_block(b, pos, LOOP_STMTS, {IF_PARALLEL}, 'util.sh robsd() loop')
    par, pos = parse_block(b, pos + 1, LOOP_STMTS, {'else'}, 'util.sh robsd() parallel branch')
    syn, pos = parse_block(b, pos + 1, LOOP_STMTS, {'fi'}, 'util.sh robsd() synchronous branch')
    tail, pos = parse_block(b, pos + 1, LOOP_STMTS, {'done'}, 'util.sh robsd() loop tail')
    if b[pos + 1:]:
        raise ValueError('util.sh robsd(): statements after the loop: %r' % b[pos + 1:])
    return head, par, syn, tail


def parse_job(b):
    if b[:len(JOB_HEAD)] != JOB_HEAD:
        raise ValueError('util.sh step_exec_job(): argument handling changed')
    out, pos = [], len(JOB_HEAD)
    while pos < len(b):
        m = INFLIGHT.match(b[pos])
        if m:
            out.append('JWriteInflight (%s) (%s)' % (m.group(1), m.group(2)))
            pos += 1
            continue
        for name, pat in sorted(JOB_STMTS, key=lambda t: -len(t[1])):
            if b[pos:pos + len(pat)] == pat:
                out.append(name)
                pos += len(pat)
                break
        else:
            raise ValueError('util.sh step_exec_job(): statement %d is %r - not a statement group of the modelled function' % (pos, b[pos]))
    return out


def parse_exit(b):
    if b[:len(EXIT_HEAD)] != EXIT_HEAD:
        raise ValueError('util.sh trap_exit(): argument handling changed')
    out, pos, setup = [], len(EXIT_HEAD), None
    while pos < len(b):
        if b[pos] == EXIT_SETUP:
            setup = len(out)
            pos += 1
            continue
        for name, pat in sorted(EXIT_STMTS, key=lambda t: -len(t[1])):
            if b[pos:pos + len(pat)] == pat:
                if setup is None and '_steps' in ' '.join(pat):
                    raise ValueError('util.sh trap_exit(): $_steps used before it is set')
                out.append(name)
                pos += len(pat)
                break
        else:
            raise ValueError('util.sh trap_exit(): statement %d is %r - not a statement group of the modelled function' % (pos, b[pos]))
    return out


def canvas_tail(repo):
    cv = norm(open(os.path.join(repo, 'canvas')).read())
    cv = [l for l in cv if not l.startswith('info ')]
    if 'set -eu' not in cv:
        raise ValueError('canvas: set -eu missing')
    t = next((i for i, l in enumerate(cv) if l == TRAP_LINE), None)
    r = next((i for i, l in enumerate(cv) if l == RESUME_POINT([])[0]), None)
    if t is None or r is None:
        raise ValueError('canvas: the EXIT trap or the choice of the build directory is missing')
    if cv.index('set -eu') > min(t, r):
        raise ValueError('canvas: set -eu after the trap')
    got = cv[min(t, r):]
    for form, want in (('RFTrapOnBuilddir', [TRAP_LINE] + RESUME_POINT(STEP_NEXT_PLAIN) + CANVAS_TAIL),
                       ('RFTrapLater', RESUME_POINT(STEP_NEXT_PLAIN) + [TRAP_LINE] + CANVAS_TAIL),
                       ('RFBuilddirCleared', [TRAP_LINE] + RESUME_POINT(STEP_NEXT_CLEARS) + CANVAS_TAIL)):
        if got == want:
            return form
    want = [TRAP_LINE] + RESUME_POINT(STEP_NEXT_CLEARS) + CANVAS_TAIL
    d = next((i for i, (x, y) in enumerate(zip(got, want)) if x != y), min(len(got), len(want)))
    raise ValueError('canvas: statement %d from the EXIT trap on changed: %r (modelled: %r)' % (d, got[d:d + 1], want[d:d + 1]))


def resume_failure_form(repo):
    """the five entry scripts: what follows a step_next that fails (nothing but skip records, or a step file that cannot be
    read)?  RFTrapOnBuilddir: the EXIT trap is installed first and the plain assignment fails under set -e - trap_exit then runs
    on $BUILDDIR and takes it for an empty build; RFTrapLater: step_next is asked before the trap exists; RFBuilddirCleared:
    `|| { BUILDDIR=""; exit 1; }` - the trap returns on its first test.  All five scripts must have the same form."""
    ans = {}
    for f in ('canvas', 'robsd', 'robsd-cross', 'robsd-ports', 'robsd-regress'):
        src = norm(open(os.path.join(repo, f)).read())
        t = [i for i, l in enumerate(src) if l == TRAP_LINE]
        n = [i for i, l in enumerate(src) if l.startswith('_step="$(step_next ')]
        if not t or len(n) != 1:
            raise ValueError('%s: EXIT trap or the step_next call not found' % f)
        k = n[0]
        if src[k:k + 2] == STEP_NEXT_CLEARS and t[0] < k:
            ans[f] = 'RFBuilddirCleared'
        elif src[k:k + 1] == STEP_NEXT_PLAIN and src[k + 1:k + 2] == ['fi']:
            ans[f] = 'RFTrapOnBuilddir' if t[0] < k else 'RFTrapLater'
        else:
            raise ValueError('%s: the step_next call has an unknown form: %r' % (f, src[k:k + 2]))
    if len(set(ans.values())) != 1:
        raise ValueError('the entry scripts disagree on what follows a failing step_next: %r' % ans)
    return ans['canvas']


WAIT_STUB = ['#else', 'int', 'main(void)', '{', 'return 0;', '}', '#endif']


def wait_stub(repo):
    """robsd-wait.c: everything functional stands under #ifdef __OpenBSD__; elsewhere the program is `return 0`.  No line of
    the functional part is translated (kqueue); what is pinned is that HERE the program is the stub, so that the polling
    stand-in of the harness is the only robsd-wait there is - a functional version for this platform would be noticed."""
    src = [l.strip() for l in open(os.path.join(repo, 'robsd-wait.c')).read().split('\n') if l.strip()]
    if src[0] != '#ifdef __OpenBSD__':
        raise ValueError('robsd-wait.c: no longer starts with #ifdef __OpenBSD__ - it may be functional on this platform: replace the stand-in')
    i = max(k for k, l in enumerate(src) if l == '#else') if '#else' in src else -1
    if i < 0 or src[i:] != WAIT_STUB:
        raise ValueError('robsd-wait.c: the non-OpenBSD part is no longer the stub `int main(void) { return 0; }`: %r' % src[i:][:12])


def pins(repo):
    wait_stub(repo)
    src = open(os.path.join(repo, 'util.sh')).read()
    if not re.search(r'^robsd\(\) \{\n(?:\s*local [^\n]*\n)*?\s*local _jobs=""\n', src, re.M):
        raise ValueError('util.sh robsd(): $_jobs is no longer a local that starts empty')
    head, par, syn, tail = parse_robsd(lines(src, 'robsd'))
    job = parse_job(lines(src, 'step_exec_job'))
    if not re.search(r'^step_exec_job\(\) \{\n(?:\s*local [^\n]*\n)*?\s*local _exit=0\n', src, re.M):
        raise ValueError('util.sh step_exec_job(): $_exit no longer starts as 0')
    xb = parse_exit(lines(src, 'trap_exit'))
    if not re.search(r'^trap_exit\(\) \{\n\s*local _err="\$\?"\n', src, re.M):
        raise ValueError('util.sh trap_exit(): $_err is no longer the status the shell exits with')
    b = lines(src, 'lock_acquire')
    if b != LOCK_ACQUIRE:
        raise ValueError('util.sh lock_acquire(): body changed: %r' % b)
    b = lines(src, 'lock_release')
    rel = next((k for k, t in RELEASE_TESTS.items() if b == LOCK_RELEASE(t)), None)
    if rel is None:
        raise ValueError('util.sh lock_release(): body changed: %r' % b)
    b = lines(src, 'robsd_hook')
    hook = next((k for k, t in HOOK_BODIES.items() if b == t), None)
    if hook is None:
        raise ValueError('util.sh robsd_hook(): body changed: %r' % b)
    if not re.search(r'^jobs_count\(\) \(\n\t# shellcheck disable=SC2068\n\tset -- \$@\n\techo "\$#"\n\)\n', src, re.M):
        raise ValueError('util.sh jobs_count(): body changed (pinned as text)')
    for fn, want in TEXT_PINS.items():
        b = lines(src, fn)
        if b != want:
            raise ValueError('util.sh %s(): body changed (pinned as text): %r' % (fn, b))
    form = canvas_tail(repo)
    if resume_failure_form(repo) != form:
        raise ValueError('canvas: the form of the resume point read two ways')
    return {'resume_failure': form, 'head': head, 'par': par, 'sync': syn, 'tail': tail, 'job': job, 'exit': xb, 'release': rel, 'hook': hook}


def coq_list(l):
    return '[' + '; '.join(l) + ']'


def generate(repo):
    p = pins(repo)
    out = ['(* Gen_Orch.v - GENERATED by harness/t_orch.py from util.sh and canvas; do not edit. *)',
           'From Robsd Require Import Orch.ShapeDefs.',
           'Local Open Scope Z_scope.',
           '',
           '(* robsd(): the body of the loop over the schedule, statement groups in source order *)',
           'Definition robsd_body : loop_body :=',
           '  mkbody %s' % coq_list(p['head']),
           '         %s' % coq_list(p['par']),
           '         %s' % coq_list(p['sync']),
           '         %s.' % coq_list(p['tail']),
           '',
           '(* step_exec_job() *)',
           'Definition step_exec_job_body : list jstmt :=',
           '  %s.' % coq_list(p['job']),
           '',
           '(* trap_exit() *)',
           'Definition trap_exit_body : list xstmt :=',
           '  %s.' % coq_list(p['exit']),
           '',
           '(* lock_acquire() / lock_release() *)',
           'Definition lock_acquire_test : acquire_test := AcqOwnerNonEmptyAndDifferent.',
           'Definition lock_release_test : release_test := %s.' % p['release'],
           '',
           '(* robsd_hook() *)',
           'Definition robsd_hook_stdin : hook_stdin := %s.' % p['hook'],
           '',
           '(* canvas, robsd, robsd-cross, robsd-ports, robsd-regress: what a failing step_next leads to *)',
           'Definition resume_failure_form : resume_failure := %s.' % p['resume_failure'],
           '']
    return {'Gen_Orch.v': '\n'.join(out)}


if __name__ == '__main__':
    import sys
    print(generate(sys.argv[1] if len(sys.argv) > 1 else '/repo')['Gen_Orch.v'])
