"""Translator util.sh + canvas -> coq/gen/Gen_Orch.v: the shape of the shell code the orchestrator models
(C03/C04/C11: Orch/OrchDefs.v, Orch/RunLock.v) transcribe.

Pinned, line by line after normalisation (comments, `local` declarations, `info` messages and blank lines
dropped, white space squeezed):
  robsd()          the loop: skip test first; queue-full test `-eq ncpu` and what is done with $_jobs; the
                   background start and `$!`; where the barrier stands and that it clears $_jobs; end recorded
                   then `return 0`; the synchronous start in the foreground
  step_exec_job()  in-flight record (-e -1), the command's status, completion record, hook, `return 1`
  trap_exit()      report / mail / end hook / lock_release / removal of an empty build directory
  lock_acquire()   the refusal test
  lock_release()   the ownership test
  canvas           `set -eu`, the exit trap, lock_acquire after build_init and before the first step
Known variants of single statements are recognised and reported as such in Gen_Orch.v (the Coq tie
Orch/OrchTie.v then fails, naming the variant); anything else raises: the tie is reported as broken rather
than guessed."""
import os, re
from t_util import func_body, norm


def lines(src, name):
    return [l for l in norm(func_body(src, name)) if not l.startswith('info ')]


ARGLOOP = lambda opts: ['while [ $# -gt 0 ]; do', 'case "$1" in'] + opts + ['*) break;;', 'esac', 'shift', 'done']

ROBSD_HEAD = ARGLOOP(['-b) shift; _builddir="$1";;', '-s) shift; _step="$1";;']) + [
    ': "${_builddir:?}"', ': "${_step:?}"',
    '_ncpu="$(config_value ncpu)"', '_steps="$(step_path "${_builddir}")"',
    'steps -o "${_step}" | while read -r _step _name _parallel; do',
    'if step_eval -n "${_name}" "${_steps}" 2>/dev/null &&', 'step_skip; then', 'continue', 'fi',
    'if [ -n "${_parallel}" ]; then',
    'if [ "$(jobs_count "${_jobs}")" -eq "${_ncpu}" ]; then']
QUEUE = {
    'QWKeepStillRunning': ['_jobs="$(echo "${_jobs}" | xargs "${ROBSDWAIT}" | xargs)"'],
    'QWDropOldest': ['echo "${_jobs}" | xargs "${ROBSDWAIT}" >/dev/null', '_jobs="$(jobs_shift "${_jobs}")"'],
}
ROBSD_PAR = ['fi',
             'step_exec_job -b "${_builddir}" -s "${_steps}" \\', '-i "${_step}" -n "${_name}" &',
             '_jobs="${_jobs}${_jobs:+ }${!}"',
             'else']
BARRIER = ['if [ -n "${_jobs}" ]; then', 'echo "${_jobs}" | xargs "${ROBSDWAIT}" -a', '_jobs=""', 'fi']
END = ['if [ "${_name}" = "end" ]; then',
       '_d1="$(duration_total -s "${_steps}")"', '_d0="$(duration_prev "${_name}" || :)"',
       'if [ -n "${_d0}" ]; then', '_delta="$((_d1 - _d0))"', 'else', '_delta=0', 'fi',
       'step_write -t -s "${_step}" -n "${_name}" -e 0 \\', '-d "${_d1}" -a "${_delta}" "${_steps}"',
       'return 0', 'fi']
SYNC = ['step_exec_job -b "${_builddir}" -s "${_steps}" \\', '-i "${_step}" -n "${_name}"']
ROBSD_TAIL = ['fi',
              'if [ "${_name}" = "reboot" ] &&', '[ "$(config_value reboot)" -eq 1 ]; then', 'return 0', 'fi',
              'if ! lock_alive "${ROBSDDIR}" "${_builddir}"; then',
              '[ -z "${_jobs}" ] || echo "${_jobs}" | xargs "${ROBSDWAIT}" -a', 'return 1', 'fi',
              'done']

STEP_EXEC_JOB = ARGLOOP(['-b) shift; _builddir="$1";;', '-s) shift; _steps="$1";;', '-i) shift; _id="$1";;', '-n) shift; _name="$1";;']) + [
    ': "${_builddir:?}"', ': "${_id:?}"', ': "${_name:?}"', ': "${_steps:?}"',
    '_log="$(log_id -b "${_builddir}" -n "${_name}" -s "${_id}")"',
    '_t0="$(date \'+%s\')"',
    'step_write -t -l "${_log}" -s "${_id}" -n "${_name}" -e -1 -d -1 "${_steps}"',
    'step_exec -l "${_builddir}/${_log}" -s "${_name}" || _exit="$?"',
    '_t1="$(date \'+%s\')"', '_d1="$((_t1 - _t0))"', '_d0="$(duration_prev "${_name}" || :)"',
    'if [ -n "${_d0}" ]; then', '_delta="$((_d1 - _d0))"', 'else', '_delta=0', 'fi',
    'step_write -l "${_log}" -s "${_id}" -n "${_name}" -e "${_exit}" -d "${_d1}" \\', '-a "${_delta}" "${_steps}"',
    'robsd_hook -v "step-exit=${_exit}" -v "step-name=${_name}"',
    'case "${_MODE}" in', 'robsd-regress)',
    'regress_step_after -b "${_builddir}" -e "${_exit}" -n "${_name}" || return 1', ';;',
    '*)', '[ "${_exit}" -eq 0 ] || return 1', ';;', 'esac']

TRAP_EXIT = ARGLOOP(['-r) shift; _robsddir="$1";;', '-b) shift; _builddir="$1";;', '-s) shift; _statpid="$1";;']) + [
    ': "${_robsddir:?}"',
    '[ -z "${_statpid}" ] || kill "${_statpid}" || :',
    '[ -n "${_builddir}" ] || return "${_err}"',
    '_steps="$(step_path "${_builddir}")"',
    'if has_steps "${_steps}" &&', '{ [ "${_err}" -ne 0 ] || step_eval -n end "${_steps}" 2>/dev/null; }', 'then',
    'if report -b "${_builddir}" &&', '[ "${DETACH}" -ne 0 ]; then',
    '_receiver="$(report_receiver -b "${_builddir}")"', 'sendmail "${_receiver}" <"$(config_value report-path)"',
    'fi', 'fi',
    'if step_eval -n end "${_steps}" 2>/dev/null; then', 'robsd_hook -v "step-exit=0" -v "step-name=end"', 'fi',
    'lock_release "${_robsddir}" "${_builddir}" || :',
    'has_steps "${_steps}" || rm -r "${_builddir}"',
    'return "${_err}"']

LOCK_ACQUIRE = ['_rootdir="$1"; : "${_rootdir:?}"', '_builddir="$2"; : "${_builddir:?}"',
                '_owner="$(cat "${_rootdir}/.running" 2>/dev/null || :)"',
                'if [ -n "${_owner}" ] && [ "${_owner}" != "${_builddir}" ]; then',
                'return 1', 'fi',
                'echo "${_builddir}" >"${_rootdir}/.running"']
RELEASE_TESTS = {
    'RelWholeFileEqual': 'if echo "${_builddir}" | cmp -s - "${_rootdir}/.running"; then',
    'RelFixedSubstring': 'if grep -qsF -- "${_builddir}" "${_rootdir}/.running"; then',
}
LOCK_RELEASE = lambda test: ['_rootdir="$1"; : "${_rootdir:?}"', '_builddir="$2"; : "${_builddir:?}"', test,
                             'chflags nouchg "${_rootdir}/.running"', 'rm -f "${_rootdir}/.running"', 'else', 'return 1', 'fi']


def match_robsd(b):
    """-> (queue variant, barrier place)"""
    for q, qlines in QUEUE.items():
        for place in ('BarrierBeforeEverySyncStep', 'BarrierAfterEndCheck'):
            mid = (BARRIER + END + SYNC) if place == 'BarrierBeforeEverySyncStep' else (END + BARRIER + SYNC)
            if b == ROBSD_HEAD + qlines + ROBSD_PAR + mid + ROBSD_TAIL:
                return q, place
    # say where it first departs from the shipped form
    want = ROBSD_HEAD + QUEUE['QWKeepStillRunning'] + ROBSD_PAR + BARRIER + END + SYNC + ROBSD_TAIL
    for i, (x, y) in enumerate(zip(b, want)):
        if x != y:
            raise ValueError('util.sh robsd(): statement %d is %r, the modelled loop has %r' % (i, x, y))
    raise ValueError('util.sh robsd(): %d statements, the modelled loop has %d' % (len(b), len(want)))


def pins(repo):
    src = open(os.path.join(repo, 'util.sh')).read()
    if not re.search(r'^robsd\(\) \{\n(?:\s*local [^\n]*\n)*?\s*local _jobs=""\n', src, re.M):
        raise ValueError('util.sh robsd(): $_jobs is no longer a local that starts empty')
    queue, barrier = match_robsd(lines(src, 'robsd'))
    b = lines(src, 'step_exec_job')
    if b != STEP_EXEC_JOB:
        d = next((i for i, (x, y) in enumerate(zip(b, STEP_EXEC_JOB)) if x != y), min(len(b), len(STEP_EXEC_JOB)))
        raise ValueError('util.sh step_exec_job(): statement %d changed: %r' % (d, b[d:d + 1]))
    if not re.search(r'^step_exec_job\(\) \{\n(?:\s*local [^\n]*\n)*?\s*local _exit=0\n', src, re.M):
        raise ValueError('util.sh step_exec_job(): $_exit no longer starts as 0')
    b = lines(src, 'trap_exit')
    if b != TRAP_EXIT:
        d = next((i for i, (x, y) in enumerate(zip(b, TRAP_EXIT)) if x != y), min(len(b), len(TRAP_EXIT)))
        raise ValueError('util.sh trap_exit(): statement %d changed: %r' % (d, b[d:d + 1]))
    if not re.search(r'^trap_exit\(\) \{\n\s*local _err="\$\?"\n', src, re.M):
        raise ValueError('util.sh trap_exit(): $_err is no longer the status the shell exits with')
    b = lines(src, 'lock_acquire')
    if b != LOCK_ACQUIRE:
        raise ValueError('util.sh lock_acquire(): body changed: %r' % b)
    b = lines(src, 'lock_release')
    rel = next((k for k, t in RELEASE_TESTS.items() if b == LOCK_RELEASE(t)), None)
    if rel is None:
        raise ValueError('util.sh lock_release(): body changed: %r' % b)
    # canvas: set -eu, trap, build_init, lock_acquire before the first step is written or run
    cv = open(os.path.join(repo, 'canvas')).read()
    order = ['\nset -eu\n', "\ntrap 'trap_exit -r \"${ROBSDDIR}\" -b \"${BUILDDIR}\" -s \"${_statpid}\"' EXIT\n",
             '\nbuild_init "${BUILDDIR}"\n', '\nlock_acquire "${ROBSDDIR}" "${BUILDDIR}"\n', 'step_write -S -t -s "${_id}" -n "${_skip}" -e 0 -d 0 -l ""',
             'robsd -b "${BUILDDIR}" -s "${_step}"']
    pos = -1
    for o in order:
        p = cv.find(o, pos + 1)
        if p < 0:
            raise ValueError('canvas: %r missing or out of order' % o.strip())
        pos = p
    return {'queue': queue, 'barrier': barrier, 'release': rel}


def generate(repo):
    p = pins(repo)
    out = ['(* Gen_Orch.v - GENERATED by harness/t_orch.py from util.sh and canvas; do not edit. *)',
           'From Robsd Require Import Orch.ShapeDefs.',
           '',
           '(* robsd(): the loop over the schedule *)',
           'Definition robsd_loop : loop_shape :=',
           '  mkloop true true %s true %s true true true.' % (p['queue'], p['barrier']),
           '',
           '(* step_exec_job() *)',
           'Definition step_exec_job_shape : job_shape := mkjob (-1)%Z true true true.',
           '',
           '(* trap_exit() *)',
           'Definition trap_exit_shape : exit_shape := mkexit true true true true true.',
           '',
           '(* lock_acquire() / lock_release() *)',
           'Definition lock_acquire_test : acquire_test := AcqOwnerNonEmptyAndDifferent.',
           'Definition lock_release_test : release_test := %s.' % p['release'],
           '']
    return {'Gen_Orch.v': '\n'.join(out)}


if __name__ == '__main__':
    import sys
    print(generate(sys.argv[1] if len(sys.argv) > 1 else '/repo')['Gen_Orch.v'])
