/*
 * c06_exitstatus - validates the translation of step-exec.c's exitstatus()
 * (harness/t_exec.py -> coq/gen/Gen_Exec.v) against the compiled function.
 *
 * step-exec.c is #included so that the static function is reachable; the
 * objects of the rebuilt implementation resolve the rest.  Prints one line
 * "<status> <signal> <result>" for every status 0..65535 and a handful of
 * wider ones, for signal 0, SIGALRM and SIGTERM.
 */
#include "step-exec.c"

#include <limits.h>
#include <stdio.h>

int
main(void)
{
	static const int sigs[] = { 0, SIGALRM, SIGTERM };
	static const int wide[] = { -1, -2, -128, -256, -65536, INT_MIN, INT_MIN + 1, INT_MAX, INT_MAX - 1,
	    65536, 65536 + 9, 0x7fff00, 0x10000 | 0x7f, 0x12345600, 0x123456ff, 0x1234567f, -129, -32768 };
	size_t i, j;
	int st;

	for (j = 0; j < sizeof(sigs) / sizeof(sigs[0]); j++) {
		for (st = 0; st < 65536; st++)
			printf("%d %d %d\n", st, sigs[j], exitstatus(st, sigs[j]));
		for (i = 0; i < sizeof(wide) / sizeof(wide[0]); i++)
			printf("%d %d %d\n", wide[i], sigs[j], exitstatus(wide[i], sigs[j]));
	}
	return 0;
}
