/* C12 libFuzzer target: what `robsd-step -R -f <file> -i <id> | -n <name>` does with a step file and
 * a template on standard input (robsd-step.c steps_read): steps_parse, selection of a row,
 * interpolate_file with step_interpolate_lookup - nothing robsd-step -R does not do itself (the readers of
 * the report generator are reached by c12_fuzz_report.c).  The repository's own fuzz-step.c stops after
 * steps_parse.
 * Input: <sel> <template> SEP <step file> [SEP <name>]
 *   sel: signed id as -i takes it; 0 = select by the name part (default "two") */
#include "config.h"

#include "c12_fuzz_common.h"

#include "libks/arena.h"
#include "libks/vector.h"

#include "interpolate.h"
#include "log.h"
#include "step.h"

static struct arena *eternal, *scratch;

int LLVMFuzzerInitialize(int *, char ***);
int LLVMFuzzerTestOneInput(const uint8_t *, size_t);

int
LLVMFuzzerInitialize(int *argc, char ***argv)
{
	(void)argc;
	(void)argv;
	log_disable();
	eternal = arena_alloc();
	scratch = arena_alloc();
	return 0;
}

int
LLVMFuzzerTestOneInput(const uint8_t *data, size_t size)
{
	struct c12_part parts[4];
	struct c12_file fsteps, ftmpl;
	struct step_file *sf;
	struct step *steps, *st = NULL;
	size_t nsteps;
	char *name = NULL;
	int id;

	if (size < 1)
		return 0;
	id = (int8_t)data[0];
	c12_split(data + 1, size - 1, parts, 4);

	arena_scope(eternal, es);

	c12_file_open(&fsteps, &parts[1]);
	sf = steps_parse(fsteps.path, &es);
	if (sf == NULL)
		goto out;

	steps = steps_get(sf);
	nsteps = VECTOR_LENGTH(steps);

	/* the selection of steps_read */
	if (id == 0) {
		name = c12_cstr(&parts[2]);
		st = steps_find_by_name(steps, name[0] != '\0' ? name : "two");
	} else if (id > 0 && (size_t)id - 1 < nsteps) {
		st = &steps[id - 1];
	} else if (id < 0 && (size_t)-id <= nsteps) {
		st = &steps[(int)nsteps + id];
	}
	if (st != NULL) {
		c12_file_open(&ftmpl, &parts[0]);
		(void)interpolate_file(ftmpl.path, &(struct interpolate_arg){
		    .lookup	= step_interpolate_lookup,
		    .arg	= st,
		    .eternal	= &es,
		    .scratch	= scratch,
		});
		c12_file_close(&ftmpl);
	}
	free(name);
	steps_free(sf);

out:
	c12_file_close(&fsteps);
	return 0;
}
