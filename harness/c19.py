"""C19 - arena allocations stay intact until their scope ends (DESIGN.md 7, C19).

Correspondence: seeded operation sequences are executed by an in-process C
harness (harness/arena_harness.c, which #includes the scratch build's
libks/arena.c and links arena-buffer.c / arena-vector.c through tracing
wrappers) in a normal build and in a clang -fsanitize=address build.  The
primitive arena operations the harness reports (including those issued by
arena-backed buffers and vectors) are replayed on the extracted Coq model,
which must predict every (frame index, offset), every cleanup run, the shape
(frames, a->frame->len, a->refs) after every operation, sampled block
contents, and how the sequence ended (done / trap / exit).  The realloc calls
the real buffer.c / vector.c issue are compared with the extracted
buf_reserve / vec_reserve (container lane).
Oracle: the extracted spec_check (ArenaSpec.v) applied to what the
implementation returned, plus the harness' shadow copies of every live block.

Verdicts are never gated: every oracle failure is emitted with its own
signature.  Behaviour outside the property's quantifier is recognised by a
predicate on the CASE only (below, next to each predicate the argument from the
property text) and counted as 'outside: <reason>'.
"""
import glob, hashlib, json, os, subprocess
import common

TRANSLATORS = ['t_arena']
TRUSTED = [
    'C19 modelling assumptions: malloc(3) returns maxalign-aligned chunks that never share addresses and does not fail for the '
    'sizes exercised (<= ~1 MiB, and single never-written requests of 2^31-1 .. 2^32 bytes in the build without ASan: frames of 4 - 8 GiB of '
    'untouched virtual memory); addresses do not wrap; cleanup functions do not use the arena; struct arena_stats and the '
    'diagnostics text of arena_scope_validate are not modelled; vsnprintf is trusted to produce the formatted bytes; the model '
    'keeps frame metadata apart from memory and freed chunks readable: beyond a len = 0 rewind or a frame freed by a leave of a '
    'non-innermost scope it answers "unmodelled" (ArenaDefs.cut_exposed) and only the oracle judges the implementation',
    'C19 tie: sizeof(struct arena_frame), sizeof(struct arena_cleanup), sizeof(struct vector), maxalign, sizeof(void *), POISON_SIZE '
    'are read by compiling and running programs that #include libks/arena.c / libks/vector.c (cc; clang -fsanitize=address): the C '
    'compiler\'s sizeof is trusted; the regular expressions of harness/t_arena.py (switch positions in arena_realloc_fast, realloc call '
    'sites and doubling loops of buffer.c / vector.c, the pass-through callbacks of arena-buffer.c / arena-vector.c)',
    'C19 harness: harness/arena_harness.c (shadow copies, handle bookkeeping, tracing wrappers for arena-buffer.c/arena-vector.c, '
    'reads of arena words and block bytes without ASan instrumentation, liveness after a leave of a non-innermost scope by the '
    'property\'s reading), the trace-driven replay of buffer/vector allocations on the model, and the calling patterns of '
    'buffer_alloc_impl / buffer_puts / arena_vector_init / vector_reserve / vector_alloc transcribed in ArenaClientDefs.buf_op / vec_op '
    '(pinned as text by t_arena.py)',
]

SIGILL = 4
REASONS = {1: 'outer-scope-use-not-detected', 2: 'misaligned-pointer', 3: 'block-outside-frame', 4: 'live-blocks-overlap',
           5: 'live-block-contents-changed', 6: 'realloc-prefix-lost', 7: 'cleanups-wrong', 8: 'unexpected-trap',
           9: 'unexpected-exit', 10: 'crash', 11: 'null-result', 12: 'bad-event', 13: 'frame-len-reset', 14: 'bad-handle',
           15: 'outside-api', 16: 'outer-scope-shrink-not-detected', 17: 'nonlifo-leave-undetected',
           18: 'outer-scope-grow-not-detected'}
SIG_NONLIFO = 'nonlifo-leave-undetected'


# ---------------------------------------------------------------------------------------------
# predicates on the CASE
# ---------------------------------------------------------------------------------------------
def leaves_nonlifo(seq, arena=None):
    """The sequence leaves a scope that is not the innermost one (L k, k > 0).  INSIDE the property: C19 quantifies
    over "all sequences of scope enter/leave" and arena_scope_enter / arena_scope_leave are exported by arena.h next
    to the block-structured macro.  What is outside is only the MODEL's claim beyond the "len = 0" rewind such a
    leave can cause (struct arena_frame then is client memory; ArenaDefs.cut_exposed answers "unmodelled"): there
    the implementation is judged by the oracle alone and the model comparison stops."""
    for o in seq:
        t = o.split()
        if len(t) >= 3 and t[1] == 'L' and int(t[2]) > 0 and (arena is None or int(t[0]) == arena):
            return True
    return False


def names_foreign_pointer(seq):
    """A realloc is handed a pointer into the middle of a block (R with mis != 0).  OUTSIDE the property: C19 speaks
    of blocks "returned by the arena allocator"; a pointer that no call returned names no block.  arena_realloc
    refuses it (NULL, EFAULT) and the oracle goes on judging; should it return something the oracle stops judging
    the pointers (the model comparison, signals and exit codes stay judged)."""
    for o in seq:
        t = o.split()
        if len(t) >= 5 and t[1] == 'R' and t[3] != '-1' and t[4] != '0':
            return True
    return False



def constants():
    # the correspondence still runs when a transcribed expression changed shape (the translator reports that as a
    # broken tie); only the constants are needed here
    import t_arena
    c = t_arena.constants(common.REPO, strict=False)
    c['sizeof_vector'] = t_arena.sizeof_vector(common.REPO)
    return c


# ---------------------------------------------------------------------------------------------
# generator
# ---------------------------------------------------------------------------------------------
class GenArena:
    def __init__(self):
        self.depth = 0
        self.labels = []     # dicts: level, size, live, user
        self.free_called = False
        self.cleanups = 0


SMALL = [0, 0, 1, 2, 7, 8, 9, 15, 16, 17, 24, 31, 32, 33, 40, 63, 64, 100, 255, 256, 1000, 4096]
EDGE = [65536 - 32, 65536 - 40, 65536 - 33, 65536 - 31, 65536 - 48, 65536, 65537, 60000, 70000, 131072 - 32, 131072 - 40,
        131072, 200000, 262144 - 40, 300000, 1 << 20]
HUGE = [1 << 63, (1 << 64) - 1, (1 << 64) - 32, (1 << 64) - 33, (1 << 63) + 5]


def pick_size(rng, big_ok=True):
    r = rng.random()
    if r < 0.70 or not big_ok:
        return rng.choice(SMALL) if rng.random() < 0.7 else rng.randint(0, 300)
    if r < 0.93:
        return rng.choice(EDGE) + rng.choice([0, 0, 0, -8, -1, 1, 8])
    return rng.randint(30000, 140000)


def gen_seq(rng, maxops, two_arenas, allow_misuse=True, shrink_validated=True):
    """One sequence (list of op strings for the C harness) that respects the API, except that with small probability it
    ends in a use of a non-innermost scope (which the arena has to refuse), in a request nothing can satisfy, or in a
    leave of a scope that is not the innermost one followed by a few allocations (inside the property; known finding
    nonlifo-leave-undetected)."""
    A = [GenArena(), GenArena()]
    ops = []
    nobj = [0]
    objs = {}
    fills = [0]

    def live_user(a, maxlevel=None):
        return [i for i, l in enumerate(A[a].labels)
                if l['live'] and (maxlevel is None or l['level'] <= maxlevel)]

    def new_label(a, level, size):
        A[a].labels.append({'level': level, 'size': size, 'live': True})
        return len(A[a].labels) - 1

    def fill(a, lab, off, n):
        if n > 0:
            fills[0] += 1
            ops.append('%d F %d %d %d %d' % (a, lab, off, n, 1 + (fills[0] * 37 + lab) % 255))

    def probes(a):
        ls = live_user(a)
        rng.shuffle(ls)
        for lab in ls[:2]:
            sz = A[a].labels[lab]['size']
            if sz > 0:
                for off in {0, sz - 1, rng.randrange(sz)}:
                    ops.append('%d G %d %d' % (a, lab, off))

    nops = rng.randint(3, maxops)
    ended = False
    for _ in range(nops):
        a = rng.randint(0, 1) if two_arenas else 0
        S = A[a]
        if S.free_called:
            if S.depth > 0:
                ops.append('%d L 0' % a)
                lvl = S.depth
                S.depth -= 1
                for l in S.labels:
                    if l['level'] >= lvl:
                        l['live'] = False
            continue
        r = rng.random()
        if S.depth == 0 or r < 0.10:
            if S.depth < 40:
                ops.append('%d E' % a)
                S.depth += 1
            continue
        if r < 0.19 and S.depth >= 2 and allow_misuse and rng.random() < 0.03:
            # leave a scope that is not the innermost one, then allocate through what is now the innermost scope
            # (it traps: its id no longer matches) or through a fresh scope (it gets the still-open scope's id).
            # Nothing allocated before is touched again by this generator: its frame may have been freed.
            k = rng.randint(1, S.depth - 1)
            ops.append('%d L %d' % (a, k))
            S.depth -= 1
            for l in S.labels:
                l['live'] = False
            if rng.random() < 0.3:
                ops.append('%d L 0' % a)
                S.depth -= 1
            if rng.random() < 0.8:
                ops.append('%d E' % a)
                S.depth += 1
            if S.depth > 0:
                for _ in range(rng.randint(1, 3)):
                    size = rng.choice([8, 16, 16, 32, 100, 4096])
                    lab = new_label(a, S.depth, size)
                    S.labels[lab]['live'] = False
                    ops.append('%d M 0 %d %d' % (a, size, lab))
                    if rng.random() < 0.5:
                        fill(a, lab, 0, size)
            ended = True
            break
        if r < 0.19:
            ops.append('%d L 0' % a)
            lvl = S.depth
            S.depth -= 1
            for l in S.labels:
                if l['level'] >= lvl:
                    l['live'] = False
            for o in list(objs):
                if objs[o]['arena'] == a and objs[o]['level'] >= lvl:
                    del objs[o]
            probes(a)
            continue
        # misuse of an outer scope: must trap; ends the sequence
        misuse = allow_misuse and S.depth >= 2 and rng.random() < 0.035
        k = rng.randint(1, S.depth - 1) if misuse else 0
        level = S.depth - k
        if r < 0.40:
            size = pick_size(rng)
            lab = new_label(a, level, size)
            ops.append('%d M %d %d %d' % (a, k, size, lab))
            if rng.random() < 0.85:
                fill(a, lab, 0, size)
        elif r < 0.47:
            nm = rng.choice([0, 1, 2, 3, 8, 100])
            sz = pick_size(rng, big_ok=False)
            if rng.random() < 0.01:
                nm, sz = 1 << 33, 1 << 33
            lab = new_label(a, level, nm * sz)
            ops.append('%d C %d %d %d %d' % (a, k, nm, sz, lab))
            if rng.random() < 0.5:
                fill(a, lab, 0, nm * sz)
        elif r < 0.70:
            cand = live_user(a)
            if not cand or rng.random() < 0.07:
                size = pick_size(rng)
                lab = new_label(a, level, size)
                ops.append('%d R %d -1 0 %d %d %d' % (a, k, rng.choice([0, 0, 5]), size, lab))
                fill(a, lab, 0, size)
            else:
                # prefer the most recent block (in-place path), sometimes an older one (copying path)
                src = cand[-1] if rng.random() < 0.6 else rng.choice(cand)
                old = S.labels[src]['size']
                q = rng.random()
                if q < 0.30:
                    new = rng.choice([0, old // 2, max(old - 1, 0), old])          # shrink / same
                elif q < 0.85:
                    new = old + rng.choice([1, 7, 8, 9, 16, 100, 1000, 5000])       # grow a little
                else:
                    new = old + pick_size(rng)                                      # grow a lot
                if new <= old and shrink_validated:
                    # the repaired source validates the scope on the shrinking path too: through a scope that is
                    # not the innermost one it has to trap, whatever scope the block belongs to (this includes
                    # the former hole: a block of an inner scope shrunk through an outer scope)
                    if allow_misuse and S.depth >= 2 and rng.random() < 0.12:
                        k = rng.randint(1, S.depth - 1)
                        misuse = True
                    else:
                        k = 0
                        misuse = False
                    level = S.depth - k
                elif new <= old:
                    # a source without that validation: shrinking through scope k is silent; it is within the
                    # narrow API only for a block of that scope or an outer one
                    ks = [kk for kk in range(S.depth) if S.labels[src]['level'] <= S.depth - kk]
                    k = rng.choice(ks)
                    level = S.depth - k
                    misuse = False
                if rng.random() < 0.02 and old > 8:
                    mis = rng.choice([1, 3, 4, 7])
                    lab = new_label(a, 0, 0)
                    S.labels[lab]['live'] = False
                    # a pointer into the middle of a block: outside the API; the arena refuses it (EFAULT, NULL),
                    # nothing has changed and the sequence goes on
                    ops.append('%d R %d %d %d %d %d %d' % (a, 0, src, mis, old - mis, new, lab))
                else:
                    S.labels[src]['live'] = False
                    lab = new_label(a, level, new)
                    ops.append('%d R %d %d 0 %d %d %d' % (a, k, src, old, new, lab))
                    if new > old and rng.random() < 0.8:
                        fill(a, lab, old, new - old)
        elif r < 0.78:
            n = rng.choice([0, 1, 5, 7, 8, 23, 100])
            data = bytes(rng.choice(b'abcxyz0189 _') for _ in range(n))
            kind = rng.choice('SDP')
            if kind == 'S' and n > 2 and rng.random() < 0.3:
                data = data[:n // 2] + b'\x00' + data[n // 2 + 1:]
            if kind == 'D' and n > 2 and rng.random() < 0.3:
                data = data[:n // 2] + b'\x00' + data[n // 2 + 1:]
            size = (len(data) if kind == 'S' else len(data.split(b'\x00')[0])) + 1
            if kind == 'P':
                data = data.split(b'\x00')[0]
                size = len(data) + 1
            lab = new_label(a, level, size)
            ops.append('%d %s %d %s %d' % (a, kind, k, common.hexs(data), lab))
        elif r < 0.86:
            S.cleanups += 1
            ops.append('%d U %d %d' % (a, k, 1000 * (a + 1) + S.cleanups))
        elif r < 0.91:
            cand = [i for i in live_user(a) if S.labels[i]['size'] > 0]
            if cand:
                lab = rng.choice(cand)
                sz = S.labels[lab]['size']
                off = rng.randrange(sz)
                fill(a, lab, off, rng.randint(0, sz - off))
            misuse = False
        elif r < 0.955:
            # arena-backed buffer / vector (innermost scope only; their blocks are traced, not labelled)
            misuse = False
            q = rng.random()
            mine = [o for o in objs if objs[o]['arena'] == a]
            if q < 0.3 or not mine:
                o = nobj[0]
                nobj[0] += 1
                if rng.random() < 0.5:
                    objs[o] = {'arena': a, 'level': S.depth, 'kind': 'B'}
                    ops.append('%d BA 0 %d %d' % (a, rng.choice([0, 1, 16, 100, 1024, 8192]), o))
                else:
                    objs[o] = {'arena': a, 'level': S.depth, 'kind': 'V'}
                    ops.append('%d VI 0 %d %d %d' % (a, rng.choice([1, 4, 8, 24]), rng.choice([0, 0, 1, 20]), o))
            else:
                o = rng.choice(mine)
                if objs[o]['level'] != S.depth and rng.random() < 0.9:
                    continue    # growing it now would go through an outer scope
                if objs[o]['level'] != S.depth:
                    if not allow_misuse:
                        continue
                    misuse = True
                if objs[o]['kind'] == 'B':
                    n = rng.choice([1, 10, 100, 1000, 20000])
                    ops.append('%d BP %d %s' % (a, o, common.hexs(bytes(rng.choice(b'abc') for _ in range(n)))))
                elif rng.random() < 0.3:
                    # vector_reserve with room left but not enough: the old size vector.c names is the used part of
                    # the block (inside the API: ArenaSpec.is_user_at)
                    ops.append('%d VR %d %d' % (a, o, rng.choice([2, 5, 17, 40, 100])))
                else:
                    ops.append('%d VA %d %d' % (a, o, rng.choice([1, 5, 17, 40, 300])))
                if misuse:
                    # may or may not need to grow; if it grows through the outer scope it traps
                    pass
        elif r < 0.958:
            size = rng.choice(HUGE)
            lab = new_label(a, level, size)
            ops.append('%d M %d %d %d' % (a, k, size, lab))
            ended = True
        elif r < 0.972:
            ops.append('%d X' % a)
            S.free_called = True
            if S.depth == 0:
                for l in S.labels:
                    l['live'] = False
            misuse = False
        else:
            size = rng.choice(EDGE) + rng.choice([0, -8, -16, -24, 8])
            lab = new_label(a, level, size)
            ops.append('%d M %d %d %d' % (a, k, size, lab))
            fill(a, lab, 0, size)
        if ended:
            break
        if misuse and k > 0:
            break
        if rng.random() < 0.5:
            probes(a)
    if not ended and rng.random() < 0.4:
        for a in (0, 1):
            S = A[a]
            if not S.labels and S.depth == 0:
                continue
            while S.depth > 0:
                ops.append('%d L 0' % a)
                S.depth -= 1
            if not S.free_called and ops:
                ops.append('%d X' % a)
    return ops


# ---------------------------------------------------------------------------------------------
# boundary SIZE / SHAPE classes
# ---------------------------------------------------------------------------------------------
# Each sub-generator aims one sequence at a size, count or depth next to which an off-by-one (`<` for `<=` in the
# "fits in the frame" test), a fixed array (MAX_SOURCE_LOCATIONS), a narrowed integer or a dropped overflow check
# flips.  The classes are carried in case['cls'] and printed as 'class: ...' into the input distribution when the case
# is evaluated (generated or from corpus/C19/b19_*.json).  The bump arithmetic below is used ONLY to aim sizes at the
# end of a frame (for the normal or the ASan configuration, chosen per case; every case still runs in both builds);
# verdicts come from the model and the oracle.
# Caps: the harness checksums every live block after every operation, so filled blocks stay <= 1 MiB; requests of
# 2^31-1 .. 2^32 bytes are made once, as the last allocation of a sequence, never written to and kept without shadow
# copy (arena_harness.c NOSHADOW_ABOVE), in the build without ASan only (an ASan frame of 4 - 8 GiB costs 0.5 - 1 GiB of
# shadow memory just for frame_poison); nesting depth <= 127 (MAXSCOPE of the harness; arena.c itself has no limit,
# only the MAX_SOURCE_LOCATIONS = 8 diagnostics array); strings <= 128 KiB (buffer of the harness).

DEPTHS = [1, 2, 7, 8, 9, 15, 16, 17, 31, 32, 33, 63, 64, 65]
COUNTS = [0, 1, 15, 16, 17, 63, 64, 65]
STRLENS = [0, 1, 1023, 1024, 1025, 4095, 4096, 4097, 65535, 65536]
U64MAX = (1 << 64) - 1
GIB_SIZES = [(1 << 31) - 1, 1 << 31, (1 << 32) - 1, 1 << 32]
# requests that arena.c itself must refuse by its overflow checks (size + header, frame doubling).  Sizes between 2^32 and
# 2^63 - 32 are NOT generated: there arena.c relies on malloc(3) failing, and the model has no failing malloc (TRUSTED:
# "malloc does not fail for the sizes exercised") - it would hand out a frame of 2^63 bytes
NO_SUCH_SIZES = [(1 << 63) - 1, 1 << 63, U64MAX, U64MAX - 7, U64MAX - 8, U64MAX - 31, U64MAX - 32, U64MAX - 39, U64MAX - 40, (1 << 63) - 31]        # 2^63 - 31 + header > 2^63: the first size the doubling loop refuses
CALLOC_PAIRS = [(1 << 32, 1 << 32), (1 << 63, 2), (2, 1 << 63), (U64MAX, 2), (U64MAX, U64MAX), (3, 0x5555555555555556), (1 << 32, (1 << 32) + 1),
                (1 << 33, 1 << 31), ((1 << 32) - 1, (1 << 32) + 1), (1 << 16, 1 << 48), (1 << 32, (1 << 32) - 1), (U64MAX, 1), (1, U64MAX)]
CALLOC_ZERO = [(0, U64MAX), (U64MAX, 0), (0, 0), (0, 1 << 63)]


class Aim:
    """where the next allocation of arena 0 lands, by the configuration of one build (to aim only)"""

    def __init__(self, consts, pagesize, asan):
        self.F = consts['frame_mult'] * pagesize
        self.H = consts['sizeof_frame']
        self.al = consts['maxalign']
        self.gap = consts['poison_asan'] if asan else consts['poison_normal']
        self.fsize = self.F
        self.len = self.bump(0, self.H)

    def bump(self, at, size):
        new = at + size
        a = (new + self.al - 1) // self.al * self.al
        if self.gap > 0 and a - new < self.gap:
            a += self.gap
        return min(a, self.fsize)

    def room(self):
        return self.fsize - self.len

    def alloc(self, size):
        if self.len + size > self.fsize:
            total = size + self.H + self.gap
            fs = self.F
            while fs < total:
                fs *= 2
            self.fsize = fs
            self.len = self.bump(0, self.H)
        off = self.len
        self.len = self.bump(self.len, size)
        return off


def gen_boundary(rng, consts, pagesize, sub=None):
    asan_aim = rng.random() < 0.5
    aim = Aim(consts, pagesize, asan_aim)
    F, H = aim.F, aim.H
    node = consts['sizeof_cleanup']
    ops, cls = [], []
    nlab = [0]
    fills = [0]
    out = {}

    def lab():
        nlab[0] += 1
        return nlab[0] - 1

    def fill(l, off, n):
        if 0 < n <= (1 << 20):
            fills[0] += 1
            ops.append('0 F %d %d %d %d' % (l, off, n, 1 + (fills[0] * 37 + l) % 255))

    def malloc(size, k=0, dofill=True):
        l = lab()
        ops.append('0 M %d %d %d' % (k, size, l))
        off = aim.alloc(size)
        if dofill:
            fill(l, 0, size)
        return l, off

    def probe(l, size):
        if size > 0:
            for off in sorted({0, size - 1, size // 2}):
                ops.append('0 G %d %d' % (l, off))

    def some_blocks():
        for _ in range(rng.choice([0, 1, 3])):
            malloc(rng.choice(SMALL + [1000, 30000]))

    sub = sub or rng.choice(['fit', 'fit', 'grow', 'grow', 'bigger', 'depth', 'depth', 'frames', 'cleanups', 'blocks', 'strings',
                             'containers', 'containers', 'nosuch', 'nosuch', 'gib', 'realloc01'])
    ops.append('0 E')
    leave = True
    if sub == 'fit':
        # an allocation that ends 8 / 1 byte before the end of the frame, exactly at it, 1 / 8 bytes beyond
        some_blocks()
        first, _ = malloc(24)
        d = rng.choice([-8, -1, 0, 0, 1, 8])
        how = rng.choice(['M', 'M', 'C', 'S', 'D', 'P', 'R', 'U'])
        if how == 'U':
            pad = aim.room() - node - d - 2 * aim.gap
            if pad > 0:
                malloc(pad // aim.al * aim.al)
            ops.append('0 U 0 1001')
            aim.alloc(node)
        else:
            want = max(1, aim.room() + d)
            l = lab()
            if how == 'M':
                ops.append('0 M 0 %d %d' % (want, l))
            elif how == 'C':
                nm = rng.choice([1, 2, 4, 8])
                want = want // nm * nm
                ops.append('0 C 0 %d %d %d' % (nm, want // nm, l))
            elif how == 'R':
                ops.append('0 R 0 -1 0 0 %d %d' % (want, l))
            else:
                ops.append('0 %s 0 %s %d' % (how, common.hexs(bytes(rng.choice(b'abcxyz0189 _') for _ in range(want - 1))), l))
            aim.alloc(want)
            if how in 'MCR':
                fill(l, 0, want)
            probe(l, want)
        for s in rng.choice([[0, 1], [1, 8], [8], [0, 0, 8], [F]]):     # into the last bytes of the frame or into a new one
            malloc(s)
        probe(first, 24)
        cls += ['arena allocation (%s) ends at the frame end%s' % (how, '%+d' % d if d else ' exactly')]
    elif sub == 'grow':
        # realloc of the LAST block so that it ends at the frame end -8 / -1 / exactly / +1 / +8 (in place or moved to a new
        # frame); the same request for a block that is not the last one
        some_blocks()
        old = rng.choice([0, 1, 8, 24, 100, 4096])
        last = rng.random() < 0.75
        src, off = malloc(old)
        if not last:
            malloc(rng.choice([1, 8, 100]))
        d = rng.choice([-8, -1, 0, 0, 1, 8])
        new = max(old + 1, aim.fsize - off + d)
        l = lab()
        ops.append('0 R 0 %d 0 %d %d %d' % (src, old, new, l))
        if last and off + new <= aim.fsize:
            aim.len = aim.bump(off, new)
        else:
            aim.alloc(new)
        fill(l, old, new - old)
        probe(l, new)
        malloc(rng.choice([0, 1, 8]))
        l2 = lab()
        ops.append('0 R 0 %d 0 %d %d %d' % (l, new, new + 1, l2))      # and one byte more
        probe(l2, new + 1)
        cls += ['arena realloc of %s block to the frame end%s' % ('the last' if last else 'a non-last', '%+d' % d if d else ' exactly')]
    elif sub == 'realloc01':
        # grow by exactly 0 / 1 byte, shrink to 0 / 1, for the last block and for one that is not the last
        some_blocks()
        old = rng.choice([0, 1, 7, 8, 9, 16, 100])
        last = rng.random() < 0.6
        src, off = malloc(old)
        if not last:
            malloc(rng.choice([1, 8]))
        how = rng.choice(['grow by 0', 'grow by 1', 'shrink to 0', 'shrink to 1', 'shrink by 1'])
        new = {'grow by 0': old, 'grow by 1': old + 1, 'shrink to 0': 0, 'shrink to 1': min(old, 1), 'shrink by 1': max(0, old - 1)}[how]
        l = lab()
        ops.append('0 R 0 %d 0 %d %d %d' % (src, old, new, l))
        fill(l, old, new - old)
        probe(l, new)
        l3, _ = malloc(8)
        l2 = lab()
        ops.append('0 R 0 %d 0 %d %d %d' % (l, new, new + 9, l2))
        probe(l2, new + 9)
        probe(l3, 8)
        cls += ['arena realloc: %s (%s block)' % (how, 'last' if last else 'non-last')]
    elif sub == 'bigger':
        # larger than a whole frame: m frames minus header (and poison gap) -1 / exactly / +1, m = 1, 2, 4, 8, 16
        some_blocks()
        m = rng.choice([1, 2, 2, 4, 8, 16])
        d = rng.choice([-8, -1, 0, 1, 8])
        first, _ = malloc(24)
        size = m * F - aim.bump(0, H) + d
        l, _ = malloc(size)
        probe(l, size)
        malloc(rng.choice([0, 1, 8]))
        malloc(F)
        probe(first, 24)
        cls += ['arena allocation of %d frame(s) minus the header%s' % (m, '%+d' % d if d else ' exactly')]
    elif sub == 'depth':
        # nesting depth D; at the bottom an allocation, a cleanup and either an orderly unwinding or a use of an outer scope
        D = rng.choice(DEPTHS)
        keep = []
        for i in range(1, D):
            if rng.random() < 0.3 or i in (1, D - 1):
                keep.append(malloc(rng.choice([1, 8, 24]))[0])
            if rng.random() < 0.2:
                ops.append('0 U 0 %d' % (2000 + i))
                aim.alloc(node)
            ops.append('0 E')
        l, _ = malloc(16)
        cls.append('arena nesting depth %d' % D)
        end = rng.random()
        msl = consts.get('max_source_locations', 8)
        if end < 0.35 and D >= 2:
            # through scope k: its id is D - k; ids at the end of the scope_locations array (7, 8, 9) and the outermost
            ids = [i for i in (1, msl - 1, msl, msl + 1, D - 1) if 1 <= i <= D - 1]
            sid = rng.choice(ids)
            k = D - sid
            ops.append(rng.choice(['0 M %d 8 %d' % (k, lab()), '0 U %d 77' % k, '0 C %d 1 8 %d' % (k, lab()), '0 R %d -1 0 0 8 %d' % (k, lab())]))
            cls.append('arena use of outer scope #%d at depth %d (must trap)' % (sid, D))
            leave = False
        elif end < 0.45 and D >= 3:
            k = rng.choice([1, D - 1])
            ops.append('0 L %d' % k)
            ops.append('0 E')
            ops.append('0 M 0 16 %d' % lab())
            cls.append('arena leave of a non-innermost scope at depth %d' % D)
            leave = False
        else:
            for i in range(D - 1):
                ops.append('0 L 0')
            if D >= 2:
                ops.append('0 G %d 0' % keep[0])       # the block of the outermost scope is still live
    elif sub == 'frames':
        # N frames: blocks that each need a frame of their own; a nested scope half way gives its frames back
        N = rng.choice([1, 2, 16, 17, 64, 65])
        size = F - 2 * aim.bump(0, H) - 64
        labs = []
        for i in range(max(0, N - 1)):
            if i == (N - 1) // 2:
                ops.append('0 E')
            labs.append(malloc(size + rng.choice([0, 8, 40]), dofill=(i % 8 == 0))[0])
        for lx in labs[:2] + labs[-1:]:
            ops.append('0 G %d 0' % lx)
        if N >= 2:
            ops.append('0 L 0')
            malloc(size)
            if labs[:1] and (N - 1) // 2 > 0:
                ops.append('0 G %d 0' % labs[0])
        cls.append('arena frames=%d' % N)
    elif sub == 'cleanups':
        N = rng.choice(COUNTS)
        inner = rng.random() < 0.5
        if inner:
            ops.append('0 E')
        for i in range(N):
            ops.append('0 U 0 %d' % (3000 + i))
            aim.alloc(node)
            if rng.random() < 0.2:
                malloc(rng.choice([1, 8, 100]))
        if inner:
            ops.append('0 L 0')
            ops.append('0 U 0 9')
        cls.append('arena cleanups=%d' % N)
    elif sub == 'blocks':
        N = rng.choice([15, 16, 17, 63, 64, 65, 255, 256, 257])
        labs = [(malloc(s)[0], s) for s in (rng.choice([0, 1, 7, 8, 9, 16, 24, 100]) for _ in range(N))]
        for lx, s in rng.sample(labs, min(6, len(labs))):
            probe(lx, s)
        ops.append('0 E')
        malloc(8)
        ops.append('0 L 0')
        for lx, s in labs[:2] + labs[-2:]:
            probe(lx, s)
        cls.append('arena live blocks=%d' % N)
    elif sub == 'strings':
        n = rng.choice(STRLENS)
        kind = rng.choice('SDP')
        some_blocks()
        data = bytes(rng.choice(b'abcxyz0189 _') for _ in range(n))
        if kind in 'SD' and n > 2 and rng.random() < 0.3:
            data = data[:n // 2] + b'\x00' + data[n // 2 + 1:]
            cls.append('arena string with a NUL inside')
        l = lab()
        ops.append('0 %s 0 %s %d' % (kind, common.hexs(data), l))
        size = (len(data) if kind == 'S' else len(data.split(b'\x00')[0])) + 1
        probe(l, size)
        malloc(8)
        probe(l, size)
        cls.append('arena %s of %d bytes' % ({'S': 'strndup', 'D': 'strdup', 'P': 'sprintf'}[kind], n))
    elif sub == 'containers':
        if rng.random() < 0.5:
            init = rng.choice([0, 1, 16, 1024, 8192, 65536])
            ops.append('0 BA 0 %d 0' % init)
            ns = [rng.choice([1023, 1024, 1025, 4095, 4096, 4097, 65535, 65536, 15, 16, 17]) for _ in range(rng.choice([1, 2, 3]))]
            for n in ns:
                ops.append('0 BP 0 %s' % common.hexs(bytes(rng.choice(b'abc') for _ in range(n))))
                if rng.random() < 0.3:
                    malloc(8)
                cls.append('arena buffer append of %d bytes' % n)
            cls.append('arena buffer initial size %d' % init)
        else:
            stride = rng.choice([1, 3, 8, 24, 4096])
            n0 = rng.choice([0, 1, 15, 16, 17])
            ops.append('0 VI 0 %d %d 0' % (stride, n0))
            total = rng.choice([15, 16, 17, 31, 32, 33, 63, 64, 65, 255, 256, 257])
            done = 0
            while done < total:
                step = min(total - done, rng.choice([1, 15, 16, 17, total]))
                ops.append('0 VA 0 %d' % step)
                done += step
                if rng.random() < 0.2:
                    malloc(8)
                if rng.random() < 0.2:
                    ops.append('0 VR 0 %d' % rng.choice([1, 2, 17]))
            cls += ['arena vector of %d elements' % total, 'arena vector stride %d' % stride]
    elif sub == 'nosuch':
        # requests nothing can satisfy: must end in exit(1) with nothing damaged before
        some_blocks()
        first, _ = malloc(24)
        how = rng.choice(['M', 'C', 'C', 'R-null', 'R-grow', 'C-zero'])
        if how == 'M':
            s = rng.choice(NO_SUCH_SIZES)
            ops.append('0 M 0 %d %d' % (s, lab()))
            cls.append('arena malloc of %s' % ('SIZE_MAX%+d' % (s - U64MAX) if s > (1 << 63) + 1 and s != U64MAX else ('SIZE_MAX' if s == U64MAX else '2^63%+d' % (s - (1 << 63)) if s != 1 << 63 else '2^63')))
        elif how == 'C':
            nm, sz = rng.choice(CALLOC_PAIRS)
            ops.append('0 C 0 %d %d %d' % (nm, sz, lab()))
            cls.append('arena calloc whose product overflows or exceeds every frame')
        elif how == 'C-zero':
            nm, sz = rng.choice(CALLOC_ZERO)
            l = lab()
            ops.append('0 C 0 %d %d %d' % (nm, sz, l))
            malloc(8)
            cls.append('arena calloc of 0 x SIZE_MAX (no overflow: an empty block)')
        elif how == 'R-null':
            ops.append('0 R 0 -1 0 0 %d %d' % (rng.choice(NO_SUCH_SIZES), lab()))
            cls.append('arena realloc(NULL) of a size no frame can hold')
        else:
            ops.append('0 R 0 %d 0 24 %d %d' % (first, rng.choice(NO_SUCH_SIZES), lab()))
            cls.append('arena realloc growing a block to a size no frame can hold')
        leave = how == 'C-zero'
    elif sub == 'gib':
        some_blocks()
        first, _ = malloc(24)
        s = rng.choice(GIB_SIZES)
        ops.append('0 M 0 %d %d' % (s, lab()))
        probe(first, 24)
        malloc(8)
        cls.append('arena malloc of %s bytes' % {GIB_SIZES[0]: '2^31-1', GIB_SIZES[1]: '2^31', GIB_SIZES[2]: '2^32-1', GIB_SIZES[3]: '2^32'}[s])
        out['builds'] = ['normal']
    if leave:
        ops.append('0 L 0')
        if rng.random() < 0.5:
            ops.append('0 X')
    cls.append('arena sizes aimed at the %s configuration' % ('ASan' if asan_aim else 'normal')) if sub in ('fit', 'grow', 'bigger') else None
    out.update({'seq': ops, 'cls': cls})
    return out


def expand_case(c):
    """compact corpus form: "rep": {"K": [unit_hex, count]} stands for unit * count; "$K" as a token of an operation is
    replaced by it"""
    rep = c.get('rep')
    if not rep:
        return c
    c = {k: v for k, v in c.items() if k != 'rep'}
    table = {'$' + name: (unit * count) or '-' for name, (unit, count) in rep.items()}
    c['seq'] = [' '.join(table.get(t, t) for t in op.split(' ')) for op in c['seq']]
    return c


# ---------------------------------------------------------------------------------------------
# running
# ---------------------------------------------------------------------------------------------
def build_harness(ctx, impl, asan):
    d = ctx.mkscratch('c19h')
    cc = 'clang' if asan else 'cc'
    flags = ['-O1', '-g', '-w', '-I', impl, '-DROBSD_VERIF'] + (['-fsanitize=address', '-fno-omit-frame-pointer'] if asan else [])
    tr = ['-Darena_malloc=tr_arena_malloc', '-Darena_calloc=tr_arena_calloc', '-Darena_realloc=tr_arena_realloc']
    lk = os.path.join(impl, 'libks')
    steps = [
        [cc] + flags + ['-c', os.path.join(common.VERIF, 'harness', 'arena_harness.c'), '-o', os.path.join(d, 'h.o')],
        [cc] + flags + tr + ['-c', os.path.join(lk, 'arena-buffer.c'), '-o', os.path.join(d, 'ab.o')],
        [cc] + flags + tr + ['-c', os.path.join(lk, 'arena-vector.c'), '-o', os.path.join(d, 'av.o')],
        [cc] + flags + [os.path.join(d, 'h.o'), os.path.join(d, 'ab.o'), os.path.join(d, 'av.o'),
                        os.path.join(lk, 'buffer.c'), os.path.join(lk, 'vector.c'), os.path.join(lk, 'arithmetic.c'),
                        '-o', os.path.join(d, 'arena_harness')],
    ]
    for s in steps:
        r = common.sh(s)
        if r.returncode != 0:
            raise common.BuildFailure('arena harness does not build (%s): %s' % ('asan' if asan else 'normal', r.stdout[-1500:]))
    return os.path.join(d, 'arena_harness')


def run_harness(binary, seqs):
    env = dict(os.environ)
    env['ASAN_OPTIONS'] = 'detect_leaks=0:abort_on_error=1:allocator_may_return_null=1'
    r = subprocess.run([binary], input='\n'.join(' ; '.join(s) for s in seqs) + '\n', stdout=subprocess.PIPE,
                       stderr=subprocess.PIPE, text=True, env=env, timeout=3600)
    blocks = r.stdout.split('BEGIN\n')[1:]
    if len(blocks) != len(seqs):
        raise RuntimeError('arena harness: %d results for %d sequences (rc=%s, stderr=%s)'
                           % (len(blocks), len(seqs), r.returncode, r.stderr[-400:]))
    return [parse_block(b) for b in blocks]


def parse_block(text):
    """-> dict(per arena: list of (optext, result|None)), ending, container-level lines, events in output order)"""
    per = {0: [], 1: []}
    order = []
    events = []     # ('prim', arena, index into per[arena]) | ('high', line)
    ending = ('done', 0)
    high = []
    err = None
    wild = None
    for line in text.split('\n'):
        line = line.strip()
        if not line:
            continue
        if line.startswith('END '):
            t = line.split()
            ending = (t[1], int(t[2]) if len(t) > 2 else 0)
        elif line.startswith('#'):
            high.append(line)
            events.append(('high', line))
        elif line.startswith('HARNESS-ERROR'):
            err = line
        else:
            a = int(line[0])
            body = line[2:]
            if ' => p wild ' in body:
                # the returned pointer lies in no frame: the operation counts as not returned (the harness stops, exit 96)
                op, rest = body.split(' => ', 1)
                wild = (a, len(per[a]), op, int(rest.split()[2]))
                per[a].append((op.strip(), None))
            elif ' => ' in body:
                op, rest = body.split(' => ', 1)
                res, shape, sums = [x.strip() for x in rest.split(' | ')]
                per[a].append((op, {'res': res, 'shape': shape, 'sums': sums}))
            else:
                per[a].append((body.strip(), None))
            order.append(a)
            events.append(('prim', a, len(per[a]) - 1))
    return {'per': per, 'ending': ending, 'high': high, 'error': err, 'order': order, 'events': events, 'wild': wild}


def cfg_toks(consts, asan, pagesize, oracle=False):
    """configuration for the model: everything as the source has it; for the oracle the alignment demanded is the
    platform's pointer size, whatever arena.c uses"""
    gap = consts['poison_asan'] if asan else consts['poison_normal']
    return '%d %d %d %d %d %d %d' % (consts['pointer_size'] if oracle else consts['maxalign'], consts['sizeof_frame'],
                                     consts['sizeof_cleanup'], gap, consts['frame_mult'] * pagesize,
                                     consts['shrink_validated'], consts['grow_validated'])


def ending_word(parsed, a):
    """how the sequence ended from arena a's point of view"""
    per = parsed['per'][a]
    unfinished = per and per[-1][1] is None
    kind, code = parsed['ending']
    if not unfinished:
        return 'done'
    if kind == 'signal' and code == SIGILL:
        return 'trap'
    if kind == 'exit' and code == 1:
        return 'exit'
    return 'crash'


def model_line(cfg, per):
    return 'run %s %s' % (cfg, ' ; '.join(op for op, _ in per))


def oracle_line(cfg, per, ending):
    items = []
    for op, r in per:
        if r is None:
            items.append(op)
            continue
        res = r['res'].split()
        fsize = '0'
        prefix = '1'
        if res[0] == 'p' and res[1] != 'null':
            fsize = res[3]
            if len(res) > 4:
                prefix = res[4]
            res = res[:3]
        sa, ss = r['sums'].split()
        items.append('%s => %s | %s %s %s' % (op, ' '.join(res), fsize, '1' if sa == ss else '0', prefix))
    return 'ok %s %s %s' % (cfg, ending, ' ; '.join(items))


def compare(per, model_ans, ending):
    """model answer vs implementation for one arena; returns (None or a description, unmodelled?).
    When the model answers "unmodelled" (ArenaDefs.cut_exposed: the "len = 0" rewind under ASan, or a block below
    the frame header was handed out) only the operations up to and including that one are compared."""
    parts = [x.strip() for x in model_ans.split(' ; ')]
    if not parts or not parts[-1].startswith('END '):
        return 'model answer malformed: ' + model_ans[:200], False
    mend = parts[-1].split()[1]
    mres = parts[:-1]
    done = [(op, r) for op, r in per if r is not None]
    unmodelled = mend == 'unmodelled'
    if unmodelled:
        if len(done) < len(mres):
            return 'model executed %d operations before it stops being claimed, implementation only %d (%s)' % (
                len(mres), len(done), ending), True
        done = done[:len(mres)]
    elif len(mres) != len(done):
        return 'model executed %d operations, implementation %d (model ending %s, implementation %s)' % (
            len(mres), len(done), mend, ending), False
    for i, ((op, r), m) in enumerate(zip(done, mres)):
        mr, mshape = [x.strip() for x in m.split(' | ')]
        ir = r['res'].split()
        if ir[0] == 'p' and ir[1] != 'null':
            ir = ir[:3]
        if ir[0] == 'b' and mr == 'b ?':
            pass
        elif ' '.join(ir) != mr:
            return 'operation %d (%s): implementation %s, model %s' % (i, op, r['res'], mr), unmodelled
        if r['shape'] != mshape:
            return 'operation %d (%s): shape implementation %s, model %s' % (i, op, r['shape'], mshape), unmodelled
    if not unmodelled and mend != ending:
        return 'ending: implementation %s, model %s' % (ending, mend), False
    return None, unmodelled


# ---------------------------------------------------------------------------------------------
# container lane: the realloc calls buffer.c / vector.c issue vs the extracted buf_reserve / vec_reserve
# ---------------------------------------------------------------------------------------------
def container_ops(p):
    """-> {obj: {'kind', 'stride', 'ops': [(cop text, [(old, new) traced], label)]}} from the begin/end lines"""
    objs = {}
    cur = None
    for ev in p['events']:
        if ev[0] == 'high':
            t = ev[1].split()
            # "# a OP o begin args" / "# a OP o => c ok"
            if len(t) >= 5 and t[4] == 'begin':
                a, op, o = int(t[1]), t[2], int(t[3])
                args = [int(x) for x in t[5:]]
                if op == 'BA':
                    objs[o] = {'kind': 'B', 'arena': a, 'ops': []}
                    cop = 'R %d' % args[0]
                elif op == 'BP':
                    cop = 'P %d' % args[0]
                elif op == 'VI':
                    objs[o] = {'kind': 'V', 'arena': a, 'stride': args[0], 'ops': []}
                    cop = 'R %d' % args[1]
                elif op == 'VA':
                    cop = 'A %d' % args[0]
                elif op == 'VR':
                    cop = 'R %d' % args[0]
                else:
                    raise RuntimeError('arena harness: unknown container operation ' + ev[1])
                if o not in objs:
                    raise RuntimeError('arena harness: container operation on an unknown object: ' + ev[1])
                cur = (o, cop, [], ev[1])
                objs[o]['ops'].append(cur)
            else:
                cur = None
        elif cur is not None and ev[1] == objs[cur[0]]['arena']:
            t = p['per'][ev[1]][ev[2]][0].split()
            if t[0] == 'R':
                cur[2].append((int(t[4]), int(t[5])))
    return objs


def container_lane(drv, parsed, seqs, consts, bname, res):
    qs, idx = [], []
    for si, p in enumerate(parsed):
        for o, ob in sorted(container_ops(p).items()):
            if ob['kind'] == 'B':
                qs.append('bhist ' + ' '.join(c for _, c, _, _ in ob['ops']))
            else:
                qs.append('vhist %d %d %s' % (consts['sizeof_vector'], ob['stride'], ' '.join(c for _, c, _, _ in ob['ops'])))
            idx.append((si, o, ob))
    ans = common.run_driver(drv, qs) if qs else []
    for (si, o, ob), an in zip(idx, ans):
        case = {'seq': seqs[si], 'build': bname}
        groups = an.split('|')
        if an.startswith(('BAD', 'EXN')):
            res.disagreements.append({'case': case, 'what': 'container lane: driver ' + an[:200]})
            continue
        for j, (_, cop, traced, label) in enumerate(ob['ops']):
            res.count('%s:container-op' % bname)
            if j >= len(groups) or groups[j] == 'overflow':
                res.disagreements.append({'case': case, 'what': 'container lane: %s: the model answers overflow, '
                                          'the implementation issued %s' % (label, traced)})
                break
            want = [] if groups[j] == '-' else [tuple(int(x) for x in g.split()) for g in groups[j].split(',')]
            # a trap ends the operation early: what was issued must be a prefix of what the model issues, and the
            # call that trapped is its last element
            ok = traced == want or (ending_is_trap(parsed[si]) and j == len(ob['ops']) - 1 and traced == want[:len(traced)])
            if not ok:
                res.disagreements.append({'case': case, 'what': 'container lane: %s (object %d, %s): buffer.c/vector.c issued '
                                          'realloc (old, new) %s, buf_reserve/vec_reserve %s' % (label, o, cop, traced, want)})
                break
            res.count('%s:container-realloc' % bname, len(traced))


def ending_is_trap(p):
    return p['ending'] == ('signal', SIGILL)


def evaluate(ctx, cases, res, builds, consts, label=''):
    """cases: dicts with 'seq' and optionally 'builds' (the builds the case is meant for)"""
    drv = ctx.build_driver('ar')
    pagesize = os.sysconf('SC_PAGESIZE')
    for asan, binary in builds:
        bname = 'asan' if asan else 'normal'
        cfg = cfg_toks(consts, asan, pagesize)
        ocfg = cfg_toks(consts, asan, pagesize, oracle=True)
        sel = [c for c in cases if bname in c.get('builds', ['normal', 'asan'])]
        seqs = [c['seq'] for c in sel]
        if not seqs:
            continue
        for c in sel:
            # boundary classes: counted once per case (in the first build that runs it)
            if bname == c.get('builds', ['normal', 'asan'])[0]:
                for k in c.get('cls', []):
                    res.count('class: ' + k)
        parsed = run_harness(binary, seqs)
        nonlifo_at = {}     # sequence index -> (arena, operation index) of the first nonlifo-leave-undetected verdict
        qs = []
        idx = []
        for si, p in enumerate(parsed):
            for a in (0, 1):
                if p['per'][a]:
                    e = ending_word(p, a)
                    qs.append(model_line(cfg, p['per'][a]))
                    qs.append(oracle_line(ocfg, p['per'][a], e))
                    idx.append((si, a, e))
        ans = common.run_driver(drv, qs) if qs else []
        for j, (si, a, e) in enumerate(idx):
            p = parsed[si]
            case = {'seq': seqs[si], 'build': bname}
            m, ok = ans[2 * j], ans[2 * j + 1]
            if m.startswith(('BAD', 'EXN')):
                d, unmodelled = 'driver: ' + m, False
            else:
                d, unmodelled = compare(p['per'][a], m, e)
            if unmodelled:
                if leaves_nonlifo(seqs[si], a):
                    res.count('outside: %s: model not claimed beyond a len = 0 rewind or a freed frame after a leave of a non-innermost '
                              'scope (the frame header is client memory; the oracle still judges the implementation)' % bname)
                else:
                    # the model may stop being a model only where the case leaves the LIFO guard
                    res.disagreements.append({'case': case, 'arena': a, 'model': m[:300],
                                              'what': 'the model answers "unmodelled" for a sequence that leaves scopes innermost first'})
            if d is not None:
                res.disagreements.append({'case': case, 'arena': a, 'what': d, 'model': m[:300],
                                          'impl': str(p['per'][a][-3:])[:400]})
            if ok.split()[-1:] == ['15'] and ok.startswith('0 '):
                # the oracle stopped judging pointers at an operation outside the API; model comparison, signals
                # and exit codes stay judged
                if names_foreign_pointer(seqs[si]):
                    res.count('outside: %s: a pointer no call returned was given to realloc and it was not refused' % bname)
                else:
                    res.oracle_failures.append({'case': case, 'signature': 'left-api-unexpectedly',
                                                'what': 'arena %d, %s build: the oracle reports operation %s as outside the API '
                                                        'although the generated sequence respects it' % (a, bname, ok.split()[1])})
            elif ok != '1':
                t = ok.split()
                reason = REASONS.get(int(t[2]), 'unclassified') if len(t) >= 3 and t[0] == '0' else 'oracle-error'
                opi = int(t[1]) if len(t) >= 3 else -1
                optext = p['per'][a][opi][0] if 0 <= opi < len(p['per'][a]) else '?'
                if reason == SIG_NONLIFO:
                    if not leaves_nonlifo(seqs[si], a):
                        reason = 'nonlifo-verdict-without-nonlifo-leave'     # cannot happen by spec_walk; never fold it
                    else:
                        nonlifo_at.setdefault(si, (a, opi))
                res.oracle_failures.append({'case': case, 'signature': reason,
                                            'what': 'arena %d, %s build, operation %d (%s): %s' % (a, bname, opi, optext, reason),
                                            'impl': str(p['per'][a][max(0, opi - 1):opi + 1])[:400]})
        container_lane(drv, parsed, seqs, consts, bname, res)
        for si, p in enumerate(parsed):
            case = {'seq': seqs[si], 'build': bname}
            res.evaluations += 1
            kind, code = p['ending']
            if p['error']:
                res.tie_errors.append('arena harness: %s on %s' % (p['error'], ' ; '.join(seqs[si])[:200]))
            for h in p['high']:
                if h.endswith('=> c 0'):
                    res.oracle_failures.append({'case': case, 'signature': 'arena-backed-container-content',
                                                'what': '%s build: %s' % (bname, h)})
            # no crash, no sanitizer report, no stray exit status - judged for EVERY sequence.  The one attribution:
            # a death AFTER the oracle has reported nonlifo-leave-undetected in this very sequence (a block of a scope
            # still open, or the frame header, was handed out after an L k, k > 0) is that finding's consequence: the
            # arena works on its own overwritten / poisoned header.  It is reported under the same signature, with the
            # operation that was reported first.
            if (kind == 'signal' and code != SIGILL) or (kind == 'exit' and code != 1):
                what = ('the sequence died with signal %d (sanitizer report or memory fault)' % code if kind == 'signal'
                        else 'the sequence exited with status %d' % code)
                sig = '%s-%d' % (kind, code)
                if kind == 'exit' and code == 96 and p['wild']:
                    wa, wi, wop, wmod = p['wild']
                    sig = 'wild-pointer-returned'
                    what = ('operation %d of arena %d (%s) returned a pointer that lies in no frame of the arena; pointer mod 16 = %d'
                            ' (%s)' % (wi, wa, wop, wmod, 'not %d-aligned' % consts['pointer_size'] if wmod % consts['pointer_size'] else 'aligned'))
                if si in nonlifo_at and leaves_nonlifo(seqs[si]):
                    a0, op0 = nonlifo_at[si]
                    res.count('%s:death-after-nonlifo-verdict' % bname)
                    res.oracle_failures.append({'case': case, 'signature': SIG_NONLIFO,
                                                'what': '%s build: %s after the hand-out reported at operation %d of arena %d'
                                                        % (bname, what, op0, a0)})
                else:
                    res.oracle_failures.append({'case': case, 'signature': sig, 'what': '%s build: %s' % (bname, what)})
            # distribution
            nprim = sum(len(p['per'][a]) for a in (0, 1))
            res.count('%s:ending=%s' % (bname, kind if kind == 'done' else '%s%d' % (kind, code)))
            res.count('%s:primitive-ops' % bname, nprim)
            if leaves_nonlifo(seqs[si]):
                res.count('%s:leaves-non-innermost-scope' % bname)
            nfr = 1
            inplace = moved = 0
            for a in (0, 1):
                prev = {}
                hcount = 0
                for op, r in p['per'][a]:
                    if r is None:
                        continue
                    sh = r['shape'].split()
                    nfr = max(nfr, int(sh[0]))
                    t = op.split()
                    rr = r['res'].split()
                    if t[0] in 'MCRSDP' and len(t[0]) == 1:
                        if t[0] == 'R' and t[2] != '-1' and rr[1] != 'null':
                            src = prev.get(int(t[2]))
                            if src == (rr[1], rr[2]):
                                inplace += 1
                            else:
                                moved += 1
                        prev[hcount] = (rr[1], rr[2]) if rr[1] != 'null' else None
                        hcount += 1
                    res.count('%s:op=%s' % (bname, t[0]))
            res.count('%s:max-frames=%d' % (bname, min(nfr, 4)))
            res.count('%s:realloc-in-place' % bname, inplace)
            res.count('%s:realloc-moved' % bname, moved)
            if len(p['per'][0]) and len(p['per'][1]):
                res.count('%s:two-arenas' % bname)
            if nprim >= 6 and (nfr >= 2 or inplace + moved >= 1 or kind != 'done'):
                res.nontrivial.add(hashlib.sha1((' ; '.join(seqs[si])).encode()).hexdigest())
    return res


def findings_needing_corpus():
    """every C19 entry of known_findings.json: the commit id of a `fixed` line, the signature of a `known` entry"""
    k = common.load_known()
    out = []
    for line in k.get('fixed', []):
        t = line.split()
        if 'property=C19' in t:
            out.append(t[t.index('property=C19') + 1])
    for e in k.get('known', []):
        if e.get('property') == 'C19':
            out.append(e['signature'])
    return out


def load_corpus():
    """Corpus cases run first.  A missing or empty directory, an unreadable case, or a C19 entry of known_findings.json
    without a case that names it ("finding": <commit id | signature>) raises: the check reports a broken tie."""
    d = os.path.join(common.VERIF, 'corpus', 'C19')
    paths = sorted(glob.glob(os.path.join(d, '*.json')))
    if not paths:
        raise RuntimeError('C19: corpus directory %s is missing or empty' % d)
    cases = []
    named = set()
    for pth in paths:
        loaded = json.load(open(pth))
        # one case per file, or (the boundary classes, b19_*.json) a list of cases
        for c in (loaded if isinstance(loaded, list) else [loaded]):
            if not c.get('seq'):
                raise RuntimeError('C19: corpus case %s has no sequence' % pth)
            c = expand_case(c)
            dd = {'seq': c['seq']}
            if 'builds' in c:
                dd['builds'] = c['builds']
            if 'cls' in c:
                dd['cls'] = c['cls']
            f = c.get('finding')
            for x in ([f] if isinstance(f, str) else (f or [])):
                named.add(x)
            cases.append((0 if f else 1, dd))
    missing = [x for x in findings_needing_corpus() if x not in named]
    if missing:
        raise RuntimeError('C19: known_findings.json entries without a corpus case under corpus/C19: %s' % ', '.join(missing))
    # the cases of known / fixed findings first
    return [dd for _, dd in sorted(cases, key=lambda x: x[0])]


def make_builds(ctx, want_asan=True):
    impl = ctx.build_impl()
    builds = [(False, build_harness(ctx, impl, False))]
    if want_asan:
        builds.append((True, build_harness(ctx, impl, True)))
    return builds


def run(ctx, n=None, maxops=None):
    res = common.Result()
    res.rule = ('operation sequences that respect the API (LIFO scopes, realloc with the true old size, writes inside '
                'live blocks) over enter/leave/malloc/calloc/realloc/strndup/strdup/sprintf/cleanup/fill/arena_free, sizes 0 .. '
                '1 MiB aimed at alignment and frame boundaries, one or two arenas, arena-backed buffers and vectors '
                '(vector_reserve on vectors that are not full included: the used part of the block is named); a few '
                'sequences contain a realloc of a pointer into the middle of a block (must be refused, the sequence goes on), '
                'end in a use of a non-innermost scope - allocation, cleanup, growing or shrinking realloc of a block '
                'of any scope - (must trap), in a request no frame can hold (must exit), or in a LEAVE of a non-innermost '
                'scope followed by allocations (inside the property; known finding nonlifo-leave-undetected); every realloc '
                'buffer.c / vector.c issue is compared with the extracted buf_reserve / vec_reserve; '
                'non-trivial = at least 6 primitive operations and (a second frame, a reallocation, or a trap/exit); '
                'distinct by sequence hash; every sequence runs in the normal and in the ASan build.  Boundary classes (gen_boundary, '
                'counted as "class: ..."; one case per class in corpus/C19/b19_*.json): allocations by malloc / calloc / realloc(NULL) / '
                'strndup / strdup / sprintf / cleanup ending 8 or 1 byte before the frame end, exactly at it, 1 or 8 beyond (aimed at the '
                'normal or the ASan configuration); realloc of the last / a non-last block to those ends, by 0 / 1 byte, to 0 / 1; blocks of '
                '1, 2, 4, 8, 16 frames minus the header +-1; nesting depths 1, 2, 7, 8, 9 (MAX_SOURCE_LOCATIONS), 15..17, 31..33, 63..65 '
                'with an orderly unwinding, a use of outer scope #1 / #7 / #8 / #9 (must trap) or a leave of a non-innermost scope; '
                '1, 2, 16, 17, 64, 65 frames; 0, 1, 15..17, 63..65 cleanups; 15..257 live blocks; strings of 0, 1, 1023..1025, 4095..4097, '
                '65535, 65536 bytes; arena buffers fed 15..65536 bytes, arena vectors of 15..257 elements with strides 1, 3, 8, 24, 4096; '
                'requests arena.c must refuse by its own overflow checks (2^63-31 .. SIZE_MAX, calloc products like 2^32 x 2^32, 2^63 x 2) '
                'and requests of 2^31-1 .. 2^32 bytes (normal build only, never written)')
    consts = constants()
    n = n or ctx.budget(400, 20000)
    maxops = maxops or ctx.budget(45, 120)
    seqs = load_corpus()
    ncorpus = len(seqs)
    for i in range(n):
        seqs.append({'seq': gen_seq(ctx.rng, maxops if i % 4 else 12, two_arenas=(i % 3 == 0),
                                    shrink_validated=bool(consts['shrink_validated']))})
    res.samples = seqs[ncorpus:ncorpus + 3]
    pagesize = os.sysconf('SC_PAGESIZE')
    nb = max(1, n // 4) if n != ctx.budget(400, 20000) else ctx.budget(120, 4000)
    seqs += [gen_boundary(ctx.rng, consts, pagesize) for _ in range(nb)]
    res.assumptions = ['sequences of at most %d generator operations (boundary sequences up to ~600), sizes up to 1 MiB, single requests of '
                       '2^31-1 .. 2^32 bytes, and requests >= 2^63 - 31 (the theorems have no bound); sizes between 2^32 and 2^63 - 32 would '
                       'need a failing malloc(3), which the model does not have' % maxops]
    builds = make_builds(ctx)
    chunk = 5000
    for i in range(0, len(seqs), chunk):
        evaluate(ctx, seqs[i:i + chunk], res, builds, consts)
    res.traces_validated = res.evaluations
    res.extra['constants_from_source'] = consts
    return res


def extended_search(ctx, res, proof):
    return run(ctx, n=2500, maxops=70)


def replay(ctx, rep):
    case = rep.get('case') or (rep.get('first_disagreements') or [{}])[0].get('case')
    if case is None and 'seq' in rep:
        case = rep                      # a corpus file
    if case is None:
        print(rep)
        return 1
    res = common.Result()
    consts = constants()
    builds = make_builds(ctx)
    if case.get('build') in ('normal', 'asan'):
        builds = [b for b in builds if b[0] == (case['build'] == 'asan')]
    case = dict(case)
    if 'builds' not in case and case.get('build') in ('normal', 'asan'):
        case['builds'] = [case['build']]
    for asan, binary in builds:
        p = run_harness(binary, [case['seq']])[0]
        print('--- %s build: implementation ---' % ('asan' if asan else 'normal'))
        for a in (0, 1):
            for op, r in p['per'][a]:
                print('  arena %d: %s => %s' % (a, op, 'DID NOT RETURN' if r is None else '%s | %s | %s' % (r['res'], r['shape'], r['sums'])))
        print('  ending:', p['ending'], p['high'])
    evaluate(ctx, [case], res, builds, consts)
    print('case:', case)
    print('model vs implementation disagreements:', json.dumps(res.disagreements, indent=1))
    print('oracle failures:', json.dumps(res.oracle_failures, indent=1))
    return 1 if (res.disagreements or res.oracle_failures) else 0
