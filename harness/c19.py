"""C19 - arena allocations stay intact until their scope ends (DESIGN.md 7, C19).

Correspondence: seeded operation sequences are executed by an in-process C
harness (harness/arena_harness.c, which #includes the scratch build's
libks/arena.c and links arena-buffer.c / arena-vector.c through tracing
wrappers) in a normal build and in a clang -fsanitize=address build.  The
primitive arena operations the harness reports (including those issued by
arena-backed buffers and vectors) are replayed on the extracted Coq model,
which must predict every (frame index, offset), every cleanup run, the shape
(frames, a->frame->len, a->refs) after every operation, sampled block
contents, and how the sequence ended (done / trap / exit).
Oracle: the extracted spec_check (ArenaSpec.v) applied to what the
implementation returned, plus the harness' shadow copies of every live block.
"""
import glob, hashlib, json, os, subprocess
import common

TRANSLATORS = ['t_arena']
TRUSTED = [
    'C19 modelling assumptions: malloc(3) returns maxalign-aligned chunks that never share addresses and does not fail for the '
    'sizes exercised (<= ~1 MiB); addresses do not wrap; cleanup functions do not use the arena; struct arena_stats and the '
    'diagnostics text of arena_scope_validate are not modelled; vsnprintf is trusted to produce the formatted bytes',
    'C19 tie: sizeof(struct arena_frame), sizeof(struct arena_cleanup), maxalign, sizeof(void *), POISON_SIZE are read by compiling '
    'and running a program that #includes libks/arena.c (cc; clang -fsanitize=address): the C compiler\'s sizeof is trusted',
    'C19 harness: harness/arena_harness.c (shadow copies, handle bookkeeping, tracing wrappers for arena-buffer.c/arena-vector.c) '
    'and the trace-driven replay of buffer/vector allocations on the model',
]

SIGILL = 4
REASONS = {1: 'outer-scope-use-not-detected', 2: 'misaligned-pointer', 3: 'block-outside-frame', 4: 'live-blocks-overlap',
           5: 'live-block-contents-changed', 6: 'realloc-prefix-lost', 7: 'cleanups-wrong', 8: 'unexpected-trap',
           9: 'unexpected-exit', 10: 'crash', 11: 'null-result', 12: 'bad-event', 13: 'frame-len-reset', 14: 'bad-handle',
           15: 'outside-api', 16: 'outer-scope-shrink-not-detected'}


def constants():
    # the correspondence still runs when a transcribed expression changed shape (the translator reports that as a
    # broken tie); only the constants are needed here
    import t_arena
    return t_arena.constants(common.REPO, strict=False)


# ---------------------------------------------------------------------------------------------
# generator
# ---------------------------------------------------------------------------------------------
class GenArena:
    def __init__(self):
        self.depth = 0
        self.labels = []     # dicts: level, size, live, user
        self.free_called = False
        self.cleanups = 0


SMALL = [0, 0, 1, 2, 7, 8, 9, 15, 16, 17, 24, 31, 32, 33, 40, 63, 64, 100, 255, 256, 1000, 4096]
EDGE = [65536 - 32, 65536 - 40, 65536 - 33, 65536 - 31, 65536 - 48, 65536, 65537, 60000, 70000, 131072 - 32, 131072 - 40,
        131072, 200000, 262144 - 40, 300000, 1 << 20]
HUGE = [1 << 63, (1 << 64) - 1, (1 << 64) - 32, (1 << 64) - 33, (1 << 63) + 5]


def pick_size(rng, big_ok=True):
    r = rng.random()
    if r < 0.70 or not big_ok:
        return rng.choice(SMALL) if rng.random() < 0.7 else rng.randint(0, 300)
    if r < 0.93:
        return rng.choice(EDGE) + rng.choice([0, 0, 0, -8, -1, 1, 8])
    return rng.randint(30000, 140000)


def gen_seq(rng, maxops, two_arenas, allow_misuse=True, shrink_validated=True):
    """One sequence (list of op strings for the C harness) that respects the API, except that with small probability it
    ends in a use of a non-innermost scope (which the arena has to refuse) or in a request nothing can satisfy."""
    A = [GenArena(), GenArena()]
    ops = []
    nobj = [0]
    objs = {}
    fills = [0]

    def live_user(a, maxlevel=None):
        return [i for i, l in enumerate(A[a].labels)
                if l['live'] and (maxlevel is None or l['level'] <= maxlevel)]

    def new_label(a, level, size):
        A[a].labels.append({'level': level, 'size': size, 'live': True})
        return len(A[a].labels) - 1

    def fill(a, lab, off, n):
        if n > 0:
            fills[0] += 1
            ops.append('%d F %d %d %d %d' % (a, lab, off, n, 1 + (fills[0] * 37 + lab) % 255))

    def probes(a):
        ls = live_user(a)
        rng.shuffle(ls)
        for lab in ls[:2]:
            sz = A[a].labels[lab]['size']
            if sz > 0:
                for off in {0, sz - 1, rng.randrange(sz)}:
                    ops.append('%d G %d %d' % (a, lab, off))

    nops = rng.randint(3, maxops)
    ended = False
    for _ in range(nops):
        a = rng.randint(0, 1) if two_arenas else 0
        S = A[a]
        if S.free_called:
            if S.depth > 0:
                ops.append('%d L 0' % a)
                lvl = S.depth
                S.depth -= 1
                for l in S.labels:
                    if l['level'] >= lvl:
                        l['live'] = False
            continue
        r = rng.random()
        if S.depth == 0 or r < 0.10:
            if S.depth < 40:
                ops.append('%d E' % a)
                S.depth += 1
            continue
        if r < 0.19:
            ops.append('%d L 0' % a)
            lvl = S.depth
            S.depth -= 1
            for l in S.labels:
                if l['level'] >= lvl:
                    l['live'] = False
            for o in list(objs):
                if objs[o]['arena'] == a and objs[o]['level'] >= lvl:
                    del objs[o]
            probes(a)
            continue
        # misuse of an outer scope: must trap; ends the sequence
        misuse = allow_misuse and S.depth >= 2 and rng.random() < 0.035
        k = rng.randint(1, S.depth - 1) if misuse else 0
        level = S.depth - k
        if r < 0.40:
            size = pick_size(rng)
            lab = new_label(a, level, size)
            ops.append('%d M %d %d %d' % (a, k, size, lab))
            if rng.random() < 0.85:
                fill(a, lab, 0, size)
        elif r < 0.47:
            nm = rng.choice([0, 1, 2, 3, 8, 100])
            sz = pick_size(rng, big_ok=False)
            if rng.random() < 0.01:
                nm, sz = 1 << 33, 1 << 33
            lab = new_label(a, level, nm * sz)
            ops.append('%d C %d %d %d %d' % (a, k, nm, sz, lab))
            if rng.random() < 0.5:
                fill(a, lab, 0, nm * sz)
        elif r < 0.70:
            cand = live_user(a)
            if not cand or rng.random() < 0.07:
                size = pick_size(rng)
                lab = new_label(a, level, size)
                ops.append('%d R %d -1 0 %d %d %d' % (a, k, rng.choice([0, 0, 5]), size, lab))
                fill(a, lab, 0, size)
            else:
                # prefer the most recent block (in-place path), sometimes an older one (copying path)
                src = cand[-1] if rng.random() < 0.6 else rng.choice(cand)
                old = S.labels[src]['size']
                q = rng.random()
                if q < 0.30:
                    new = rng.choice([0, old // 2, max(old - 1, 0), old])          # shrink / same
                elif q < 0.85:
                    new = old + rng.choice([1, 7, 8, 9, 16, 100, 1000, 5000])       # grow a little
                else:
                    new = old + pick_size(rng)                                      # grow a lot
                if new <= old and shrink_validated:
                    # the repaired source validates the scope on the shrinking path too: through a scope that is
                    # not the innermost one it has to trap, whatever scope the block belongs to (this includes
                    # the former hole: a block of an inner scope shrunk through an outer scope)
                    if allow_misuse and S.depth >= 2 and rng.random() < 0.12:
                        k = rng.randint(1, S.depth - 1)
                        misuse = True
                    else:
                        k = 0
                        misuse = False
                    level = S.depth - k
                elif new <= old:
                    # a source without that validation: shrinking through scope k is silent; it is within the
                    # narrow API only for a block of that scope or an outer one
                    ks = [kk for kk in range(S.depth) if S.labels[src]['level'] <= S.depth - kk]
                    k = rng.choice(ks)
                    level = S.depth - k
                    misuse = False
                if rng.random() < 0.02 and old > 8:
                    mis = rng.choice([1, 3, 4, 7])
                    lab = new_label(a, 0, 0)
                    S.labels[lab]['live'] = False
                    # a pointer into the middle of a block: outside the API (EFAULT, NULL); nothing after it is judged
                    ops.append('%d R %d %d %d %d %d %d' % (a, 0, src, mis, old - mis, new, lab))
                    ended = True
                else:
                    S.labels[src]['live'] = False
                    lab = new_label(a, level, new)
                    ops.append('%d R %d %d 0 %d %d %d' % (a, k, src, old, new, lab))
                    if new > old and rng.random() < 0.8:
                        fill(a, lab, old, new - old)
        elif r < 0.78:
            n = rng.choice([0, 1, 5, 7, 8, 23, 100])
            data = bytes(rng.choice(b'abcxyz0189 _') for _ in range(n))
            kind = rng.choice('SDP')
            if kind == 'S' and n > 2 and rng.random() < 0.3:
                data = data[:n // 2] + b'\x00' + data[n // 2 + 1:]
            if kind == 'D' and n > 2 and rng.random() < 0.3:
                data = data[:n // 2] + b'\x00' + data[n // 2 + 1:]
            size = (len(data) if kind == 'S' else len(data.split(b'\x00')[0])) + 1
            if kind == 'P':
                data = data.split(b'\x00')[0]
                size = len(data) + 1
            lab = new_label(a, level, size)
            ops.append('%d %s %d %s %d' % (a, kind, k, common.hexs(data), lab))
        elif r < 0.86:
            S.cleanups += 1
            ops.append('%d U %d %d' % (a, k, 1000 * (a + 1) + S.cleanups))
        elif r < 0.91:
            cand = [i for i in live_user(a) if S.labels[i]['size'] > 0]
            if cand:
                lab = rng.choice(cand)
                sz = S.labels[lab]['size']
                off = rng.randrange(sz)
                fill(a, lab, off, rng.randint(0, sz - off))
            misuse = False
        elif r < 0.955:
            # arena-backed buffer / vector (innermost scope only; their blocks are traced, not labelled)
            misuse = False
            q = rng.random()
            mine = [o for o in objs if objs[o]['arena'] == a]
            if q < 0.3 or not mine:
                o = nobj[0]
                nobj[0] += 1
                if rng.random() < 0.5:
                    objs[o] = {'arena': a, 'level': S.depth, 'kind': 'B'}
                    ops.append('%d BA 0 %d %d' % (a, rng.choice([0, 1, 16, 100, 1024, 8192]), o))
                else:
                    objs[o] = {'arena': a, 'level': S.depth, 'kind': 'V'}
                    ops.append('%d VI 0 %d %d %d' % (a, rng.choice([1, 4, 8, 24]), rng.choice([0, 0, 1, 20]), o))
            else:
                o = rng.choice(mine)
                if objs[o]['level'] != S.depth and rng.random() < 0.9:
                    continue    # growing it now would go through an outer scope
                if objs[o]['level'] != S.depth:
                    if not allow_misuse:
                        continue
                    misuse = True
                if objs[o]['kind'] == 'B':
                    n = rng.choice([1, 10, 100, 1000, 20000])
                    ops.append('%d BP %d %s' % (a, o, common.hexs(bytes(rng.choice(b'abc') for _ in range(n)))))
                elif rng.random() < 0.3:
                    # vector_reserve with room left but not enough: the old size vector.c names is smaller than the
                    # block (outside the API the theorems assume: the oracle stops judging there, the model is still
                    # compared with the implementation)
                    ops.append('%d VR %d %d' % (a, o, rng.choice([2, 5, 17, 40, 100])))
                else:
                    ops.append('%d VA %d %d' % (a, o, rng.choice([1, 5, 17, 40, 300])))
                if misuse:
                    # may or may not need to grow; if it grows through the outer scope it traps
                    pass
        elif r < 0.958:
            size = rng.choice(HUGE)
            lab = new_label(a, level, size)
            ops.append('%d M %d %d %d' % (a, k, size, lab))
            ended = True
        elif r < 0.972:
            ops.append('%d X' % a)
            S.free_called = True
            if S.depth == 0:
                for l in S.labels:
                    l['live'] = False
            misuse = False
        else:
            size = rng.choice(EDGE) + rng.choice([0, -8, -16, -24, 8])
            lab = new_label(a, level, size)
            ops.append('%d M %d %d %d' % (a, k, size, lab))
            fill(a, lab, 0, size)
        if ended:
            break
        if misuse and k > 0:
            break
        if rng.random() < 0.5:
            probes(a)
    if not ended and rng.random() < 0.4:
        for a in (0, 1):
            S = A[a]
            if not S.labels and S.depth == 0:
                continue
            while S.depth > 0:
                ops.append('%d L 0' % a)
                S.depth -= 1
            if not S.free_called and ops:
                ops.append('%d X' % a)
    return ops


# ---------------------------------------------------------------------------------------------
# running
# ---------------------------------------------------------------------------------------------
def build_harness(ctx, impl, asan):
    d = ctx.mkscratch('c19h')
    cc = 'clang' if asan else 'cc'
    flags = ['-O1', '-g', '-w', '-I', impl, '-DROBSD_VERIF'] + (['-fsanitize=address', '-fno-omit-frame-pointer'] if asan else [])
    tr = ['-Darena_malloc=tr_arena_malloc', '-Darena_calloc=tr_arena_calloc', '-Darena_realloc=tr_arena_realloc']
    lk = os.path.join(impl, 'libks')
    steps = [
        [cc] + flags + ['-c', os.path.join(common.VERIF, 'harness', 'arena_harness.c'), '-o', os.path.join(d, 'h.o')],
        [cc] + flags + tr + ['-c', os.path.join(lk, 'arena-buffer.c'), '-o', os.path.join(d, 'ab.o')],
        [cc] + flags + tr + ['-c', os.path.join(lk, 'arena-vector.c'), '-o', os.path.join(d, 'av.o')],
        [cc] + flags + [os.path.join(d, 'h.o'), os.path.join(d, 'ab.o'), os.path.join(d, 'av.o'),
                        os.path.join(lk, 'buffer.c'), os.path.join(lk, 'vector.c'), os.path.join(lk, 'arithmetic.c'),
                        '-o', os.path.join(d, 'arena_harness')],
    ]
    for s in steps:
        r = common.sh(s)
        if r.returncode != 0:
            raise common.BuildFailure('arena harness does not build (%s): %s' % ('asan' if asan else 'normal', r.stdout[-1500:]))
    return os.path.join(d, 'arena_harness')


def run_harness(binary, seqs):
    env = dict(os.environ)
    env['ASAN_OPTIONS'] = 'detect_leaks=0:abort_on_error=1:allocator_may_return_null=1'
    r = subprocess.run([binary], input='\n'.join(' ; '.join(s) for s in seqs) + '\n', stdout=subprocess.PIPE,
                       stderr=subprocess.PIPE, text=True, env=env, timeout=3600)
    blocks = r.stdout.split('BEGIN\n')[1:]
    if len(blocks) != len(seqs):
        raise RuntimeError('arena harness: %d results for %d sequences (rc=%s, stderr=%s)'
                           % (len(blocks), len(seqs), r.returncode, r.stderr[-400:]))
    return [parse_block(b) for b in blocks]


def parse_block(text):
    """-> dict(per arena: list of (optext, result|None)), ending, highlevel flags)"""
    per = {0: [], 1: []}
    order = []
    ending = ('done', 0)
    high = []
    err = None
    for line in text.split('\n'):
        line = line.strip()
        if not line:
            continue
        if line.startswith('END '):
            t = line.split()
            ending = (t[1], int(t[2]) if len(t) > 2 else 0)
        elif line.startswith('#'):
            high.append(line)
        elif line.startswith('HARNESS-ERROR'):
            err = line
        else:
            a = int(line[0])
            body = line[2:]
            if ' => ' in body:
                op, rest = body.split(' => ', 1)
                res, shape, sums = [x.strip() for x in rest.split(' | ')]
                per[a].append((op, {'res': res, 'shape': shape, 'sums': sums}))
            else:
                per[a].append((body.strip(), None))
            order.append(a)
    return {'per': per, 'ending': ending, 'high': high, 'error': err, 'order': order}


def cfg_toks(consts, asan, pagesize, oracle=False):
    """configuration for the model: everything as the source has it; for the oracle the alignment demanded is the
    platform's pointer size, whatever arena.c uses"""
    gap = consts['poison_asan'] if asan else consts['poison_normal']
    return '%d %d %d %d %d %d' % (consts['pointer_size'] if oracle else consts['maxalign'], consts['sizeof_frame'],
                                  consts['sizeof_cleanup'], gap, consts['frame_mult'] * pagesize,
                                  consts['shrink_validated'])


def ending_word(parsed, a):
    """how the sequence ended from arena a's point of view"""
    per = parsed['per'][a]
    unfinished = per and per[-1][1] is None
    kind, code = parsed['ending']
    if not unfinished:
        return 'done'
    if kind == 'signal' and code == SIGILL:
        return 'trap'
    if kind == 'exit' and code == 1:
        return 'exit'
    return 'crash'


def model_line(cfg, per):
    return 'run %s %s' % (cfg, ' ; '.join(op for op, _ in per))


def oracle_line(cfg, per, ending):
    items = []
    for op, r in per:
        if r is None:
            items.append(op)
            continue
        res = r['res'].split()
        fsize = '0'
        prefix = '1'
        if res[0] == 'p' and res[1] != 'null':
            fsize = res[3]
            if len(res) > 4:
                prefix = res[4]
            res = res[:3]
        sa, ss = r['sums'].split()
        items.append('%s => %s | %s %s %s' % (op, ' '.join(res), fsize, '1' if sa == ss else '0', prefix))
    return 'ok %s %s %s' % (cfg, ending, ' ; '.join(items))


def compare(per, model_ans, ending):
    """model answer vs implementation for one arena; returns None or a description"""
    parts = [x.strip() for x in model_ans.split(' ; ')]
    if not parts or not parts[-1].startswith('END '):
        return 'model answer malformed: ' + model_ans[:200]
    mend = parts[-1].split()[1]
    mres = parts[:-1]
    done = [(op, r) for op, r in per if r is not None]
    if len(mres) != len(done):
        return 'model executed %d operations, implementation %d (model ending %s, implementation %s)' % (
            len(mres), len(done), mend, ending)
    for i, ((op, r), m) in enumerate(zip(done, mres)):
        mr, mshape = [x.strip() for x in m.split(' | ')]
        ir = r['res'].split()
        if ir[0] == 'p' and ir[1] != 'null':
            ir = ir[:3]
        if ir[0] == 'b' and mr == 'b ?':
            pass
        elif ' '.join(ir) != mr:
            return 'operation %d (%s): implementation %s, model %s' % (i, op, r['res'], mr)
        if r['shape'] != mshape:
            return 'operation %d (%s): shape implementation %s, model %s' % (i, op, r['shape'], mshape)
    if mend != ending:
        return 'ending: implementation %s, model %s' % (ending, mend)
    return None


def classify(seq):
    """key parameters of a failing case for the signature"""
    return ''


def evaluate(ctx, cases, res, builds, consts, label=''):
    """cases: dicts with 'seq' and optionally 'builds' (the builds the case is meant for)"""
    drv = ctx.build_driver('ar')
    pagesize = os.sysconf('SC_PAGESIZE')
    for asan, binary in builds:
        bname = 'asan' if asan else 'normal'
        cfg = cfg_toks(consts, asan, pagesize)
        ocfg = cfg_toks(consts, asan, pagesize, oracle=True)
        seqs = [c['seq'] for c in cases if bname in c.get('builds', ['normal', 'asan'])]
        if not seqs:
            continue
        parsed = run_harness(binary, seqs)
        outside = set()
        qs = []
        idx = []
        for si, p in enumerate(parsed):
            for a in (0, 1):
                if p['per'][a]:
                    e = ending_word(p, a)
                    qs.append(model_line(cfg, p['per'][a]))
                    qs.append(oracle_line(ocfg, p['per'][a], e))
                    idx.append((si, a, e))
        ans = common.run_driver(drv, qs) if qs else []
        for j, (si, a, e) in enumerate(idx):
            p = parsed[si]
            case = {'seq': seqs[si], 'build': bname}
            m, ok = ans[2 * j], ans[2 * j + 1]
            d = compare(p['per'][a], m, e) if not m.startswith(('BAD', 'EXN')) else ('driver: ' + m)
            if d is not None:
                res.disagreements.append({'case': case, 'arena': a, 'what': d, 'model': m[:300],
                                          'impl': str(p['per'][a][-3:])[:400]})
            if ok.split()[-1:] == ['15'] and ok.startswith('0 '):
                outside.add(si)     # the sequence leaves the API: not judged from there on
                res.count('%s:outside-api' % bname)
            elif ok != '1':
                t = ok.split()
                reason = REASONS.get(int(t[2]), 'unclassified') if len(t) >= 3 and t[0] == '0' else 'oracle-error'
                opi = int(t[1]) if len(t) >= 3 else -1
                optext = p['per'][a][opi][0] if 0 <= opi < len(p['per'][a]) else '?'
                res.oracle_failures.append({'case': case, 'signature': reason,
                                            'what': 'arena %d, %s build, operation %d (%s): %s' % (a, bname, opi, optext, reason),
                                            'impl': str(p['per'][a][max(0, opi - 1):opi + 1])[:400]})
        for si, p in enumerate(parsed):
            case = {'seq': seqs[si], 'build': bname}
            res.evaluations += 1
            kind, code = p['ending']
            if p['error']:
                res.tie_errors.append('arena harness: %s on %s' % (p['error'], ' ; '.join(seqs[si])[:200]))
            for h in p['high']:
                if h.endswith('=> c 0'):
                    res.oracle_failures.append({'case': case, 'signature': 'arena-backed-container-content',
                                                'what': '%s build: %s' % (bname, h)})
            if si in outside:
                pass
            elif kind == 'signal' and code != SIGILL:
                res.oracle_failures.append({'case': case, 'signature': 'signal-%d' % code,
                                            'what': '%s build: the sequence died with signal %d (sanitizer report or memory fault)' % (bname, code)})
            if si not in outside and kind == 'exit' and code != 1:
                res.oracle_failures.append({'case': case, 'signature': 'exit-%d' % code,
                                            'what': '%s build: the sequence exited with status %d' % (bname, code)})
            # distribution
            nprim = sum(len(p['per'][a]) for a in (0, 1))
            res.count('%s:ending=%s' % (bname, kind if kind == 'done' else '%s%d' % (kind, code)))
            res.count('%s:primitive-ops' % bname, nprim)
            nfr = 1
            inplace = moved = 0
            for a in (0, 1):
                prev = {}
                hcount = 0
                for op, r in p['per'][a]:
                    if r is None:
                        continue
                    sh = r['shape'].split()
                    nfr = max(nfr, int(sh[0]))
                    t = op.split()
                    rr = r['res'].split()
                    if t[0] in 'MCRSDP' and len(t[0]) == 1:
                        if t[0] == 'R' and t[2] != '-1' and rr[1] != 'null':
                            src = prev.get(int(t[2]))
                            if src == (rr[1], rr[2]):
                                inplace += 1
                            else:
                                moved += 1
                        prev[hcount] = (rr[1], rr[2]) if rr[1] != 'null' else None
                        hcount += 1
                    res.count('%s:op=%s' % (bname, t[0]))
            res.count('%s:max-frames=%d' % (bname, min(nfr, 4)))
            res.count('%s:realloc-in-place' % bname, inplace)
            res.count('%s:realloc-moved' % bname, moved)
            if len(p['per'][0]) and len(p['per'][1]):
                res.count('%s:two-arenas' % bname)
            if nprim >= 6 and (nfr >= 2 or inplace + moved >= 1 or kind != 'done'):
                res.nontrivial.add(hashlib.sha1((' ; '.join(seqs[si])).encode()).hexdigest())
    return res


def load_corpus():
    cases = []
    for pth in sorted(glob.glob(os.path.join(common.VERIF, 'corpus', 'C19', '*.json'))):
        c = json.load(open(pth))
        d = {'seq': c['seq']}
        if 'builds' in c:
            d['builds'] = c['builds']
        cases.append(d)
    return cases


def make_builds(ctx, want_asan=True):
    impl = ctx.build_impl()
    builds = [(False, build_harness(ctx, impl, False))]
    if want_asan:
        builds.append((True, build_harness(ctx, impl, True)))
    return builds


def run(ctx, n=None, maxops=None):
    res = common.Result()
    res.rule = ('operation sequences that respect the API (strictly LIFO scopes, realloc with the true old size, writes inside '
                'live blocks) over enter/leave/malloc/calloc/realloc/strndup/strdup/sprintf/cleanup/fill/arena_free, sizes 0 .. '
                '1 MiB aimed at alignment and frame boundaries, one or two arenas, arena-backed buffers and vectors; a few '
                'sequences end in a use of a non-innermost scope - allocation, cleanup, growing or shrinking realloc of a block '
                'of any scope - (must trap) or in a request no frame can hold (must exit); vector_reserve on a vector that is '
                'not full (names less than the block size: model compared, oracle stops judging); '
                'non-trivial = at least 6 primitive operations and (a second frame, a reallocation, or a trap/exit); '
                'distinct by sequence hash; every sequence runs in the normal and in the ASan build')
    consts = constants()
    n = n or ctx.budget(400, 20000)
    maxops = maxops or ctx.budget(45, 120)
    seqs = load_corpus()
    ncorpus = len(seqs)
    for i in range(n):
        seqs.append({'seq': gen_seq(ctx.rng, maxops if i % 4 else 12, two_arenas=(i % 3 == 0),
                                    shrink_validated=bool(consts['shrink_validated']))})
    res.samples = seqs[ncorpus:ncorpus + 3]
    res.assumptions = ['sequences of at most %d generator operations, sizes up to 1 MiB plus requests >= 2^63 '
                       '(the theorems have no bound)' % maxops]
    builds = make_builds(ctx)
    chunk = 5000
    for i in range(0, len(seqs), chunk):
        evaluate(ctx, seqs[i:i + chunk], res, builds, consts)
    res.traces_validated = res.evaluations
    res.extra['constants_from_source'] = consts
    return res


def extended_search(ctx, res, proof):
    return run(ctx, n=2500, maxops=70)


def replay(ctx, rep):
    case = rep.get('case') or (rep.get('first_disagreements') or [{}])[0].get('case')
    if case is None and 'seq' in rep:
        case = rep                      # a corpus file
    if case is None:
        print(rep)
        return 1
    res = common.Result()
    consts = constants()
    builds = make_builds(ctx)
    if case.get('build') in ('normal', 'asan'):
        builds = [b for b in builds if b[0] == (case['build'] == 'asan')]
    case = dict(case)
    if 'builds' not in case and case.get('build') in ('normal', 'asan'):
        case['builds'] = [case['build']]
    for asan, binary in builds:
        p = run_harness(binary, [case['seq']])[0]
        print('--- %s build: implementation ---' % ('asan' if asan else 'normal'))
        for a in (0, 1):
            for op, r in p['per'][a]:
                print('  arena %d: %s => %s' % (a, op, 'DID NOT RETURN' if r is None else '%s | %s | %s' % (r['res'], r['shape'], r['sums'])))
        print('  ending:', p['ending'], p['high'])
    evaluate(ctx, [case], res, builds, consts)
    print('case:', case)
    print('model vs implementation disagreements:', json.dumps(res.disagreements, indent=1))
    print('oracle failures:', json.dumps(res.oracle_failures, indent=1))
    return 1 if (res.disagreements or res.oracle_failures) else 0
