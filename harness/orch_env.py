"""Shared end-to-end environment for the orchestrator properties (C03, C04, C11): runs the real canvas
script under bash with the rebuilt helpers, a robsd-wait stand-in, probe step commands whose completion
order and exit codes the harness controls through gate files, a recording hook and a fake sendmail."""
import os, re, signal, subprocess, time
import common

TOOLS = os.path.join(common.VERIF, 'tools', 'orch')
SHIMS = os.path.join(common.VERIF, 'tools', 'shims')

SHIMS_USED = ['tools/orch/robsd-wait (polling stand-in for the kqueue robsd-wait; its contract is READ OFF robsd-wait.c, of which no line is '
              'executed or modelled: outside OpenBSD the program is the stub `int main(void) { return 0; }` - pinned by t_orch.py and run by the '
              'robsd-wait lane of C04 so that a functional version appearing would be noticed)',
              'tools/shims/{logname,sendmail,chflags,stat,find,date,robsd-clean} (BSD userland / missing session stand-ins)',
              'bash in place of ksh; probe step commands gated by files; hook ROBSD_VERIF_NCPU']


SAFE_KEY = re.compile(r'[A-Za-z0-9_.=-]{1,64}')


class Canvas:
    """One canvas root with a configuration of probe steps.
    steps: list of dicts {name, parallel(bool), exit(int)}; skip: list of names; ncpu: int"""

    def __init__(self, ctx, impl, work, steps, skip=(), ncpu=2, keep=0, hook=None, hook_args=(), root_slash=False):
        self.ctx, self.impl, self.work = ctx, impl, work
        self.steps, self.skip, self.ncpu = steps, list(skip), ncpu
        self.root = os.path.join(work, 'root')
        self.orch = os.path.join(work, 'orch')
        self.tmp = os.path.join(work, 'tmp')
        for d in (self.root, self.orch, os.path.join(self.orch, 'gate'), self.tmp):
            os.makedirs(d, exist_ok=True)
        self.conf = os.path.join(work, 'canvas.conf')
        # the probe of a step is told a KEY, not the name: the key names its gate file and its trace lines.  It is the name
        # itself when that is a short word of file-name-safe characters (all cases older than the boundary classes), else
        # '@<position>' - names with '/', blanks, of NAME_MAX length ... cannot be file names or words of a trace line.
        # Steps that share a name share the key of the first of them (one gate per name, as before).
        self.key, self.unkey = {}, {}
        for i, s in enumerate(steps):
            if s['name'] not in self.key:
                k = s['name'] if SAFE_KEY.fullmatch(s['name']) else '@%d' % (i + 1)
                self.key[s['name']] = k
                self.unkey[k] = s['name']
        # root_slash: the configuration spells the root with a trailing slash (the lock then names <root>//DATE.n)
        lines = ['canvas-name "t"', 'canvas-dir "%s%s"' % (self.root, '/' if root_slash else ''),
                 'hook { "%s" "${step-name}" "${step-exit}"%s }' % (hook or os.path.join(TOOLS, 'hook'), ''.join(' "%s"' % a for a in hook_args))]
        if self.skip:
            lines.append('skip { %s }' % ' '.join('"%s"' % s for s in self.skip))
        if keep:
            lines.append('keep %d' % keep)
        for s in steps:
            lines.append('step "%s" command { "sh" "%s" "%s" }%s' % (s['name'], os.path.join(TOOLS, 'probe'), self.key[s['name']],
                                                                     ' parallel' if s.get('parallel') else ''))
        open(self.conf, 'w').write('\n'.join(lines) + '\n')
        self.mailbox = os.path.join(self.orch, 'mailbox')

    def env(self):
        e = dict(os.environ)
        e['PATH'] = SHIMS + ':' + e.get('PATH', '/usr/bin:/bin')
        e.update({'EXECDIR': self.impl, 'ROBSDCLEAN': os.path.join(SHIMS, 'robsd-clean'),
                  'ROBSDWAIT': os.path.join(TOOLS, 'robsd-wait'), 'TMPDIR': self.tmp,
                  'ORCH_DIR': self.orch, 'ROBSD_VERIF_NCPU': str(self.ncpu), 'VERIF_MAILBOX': self.mailbox})
        e.pop('DETACH', None)
        e.pop('BUILDDIR', None)
        return e

    def start(self, args, env=None):
        """start canvas in its own session; returns Popen"""
        return subprocess.Popen(['bash', os.path.join(self.impl, 'canvas'), '-C', self.conf] + args, env=env or self.env(), cwd=self.work,
                                stdout=subprocess.PIPE, stderr=subprocess.STDOUT, start_new_session=True)

    def trace(self):
        """what the probes wrote, in the order they wrote it - except that ADJACENT start lines of parallel steps are put
        in configuration order: the loop forks such steps back to back and which probe gets to write its line first is the
        scheduler's choice, not the loop's (seen once in ~4000 runs: 'start f' before 'start e').  The order in which the
        loop launches parallel steps is therefore not observed; that each of them starts, when, and before or after every
        end and every synchronous start, is."""
        try:
            tr = [l.split() for l in open(os.path.join(self.orch, 'trace')).read().splitlines() if l.strip()]
        except OSError:
            return []
        for t in tr:
            if len(t) > 1:
                t[1] = self.unkey.get(t[1], t[1])
        idx = {st['name']: i for i, st in enumerate(self.steps)}
        par = {st['name'] for st in self.steps if st.get('parallel')}
        out, i = [], 0
        while i < len(tr):
            j = i
            while j < len(tr) and tr[j][0] == 'start' and len(tr[j]) > 1 and tr[j][1] in par:
                j += 1
            if j - i > 1:
                out += sorted(tr[i:j], key=lambda t: idx.get(t[1], 0))
                i = j
            else:
                out.append(tr[i])
                i += 1
        return out

    def open_gate(self, name, code):
        p = os.path.join(self.orch, 'gate', self.key.get(name, name))
        open(p + '.tmp', 'w').write('%s\n' % code)       # a number, or 'x<number>': exit with it even if it is 128 + n
        os.rename(p + '.tmp', p)

    def forget_trace(self):
        """drop the probe trace and the hook log (between two invocations of one case)"""
        for n in ('trace', 'hooklog'):
            try:
                os.unlink(os.path.join(self.orch, n))
            except OSError:
                pass

    def close_gates(self):
        g = os.path.join(self.orch, 'gate')
        for n in os.listdir(g):
            os.unlink(os.path.join(g, n))

    def builddirs(self):
        return sorted(os.path.join(self.root, n) for n in os.listdir(self.root)
                      if not n.startswith('.') and n != 'attic' and os.path.isdir(os.path.join(self.root, n)))

    def stepfile(self, bd):
        try:
            return open(os.path.join(bd, 'step.csv'), 'rb').read()
        except OSError:
            return None

    def rows(self, bd):
        data = self.stepfile(bd)
        rows = []
        if not data:
            return rows
        lines = data.decode('latin1').split('\n')
        hdr = lines[0].split(',')
        for l in lines[1:]:
            if l:
                rows.append(dict(zip(hdr, l.split(','))))
        return rows

    def lockfile(self):
        try:
            return open(os.path.join(self.root, '.running')).read()
        except OSError:
            return None

    def hooklog(self):
        try:
            return open(os.path.join(self.orch, 'hooklog')).read().splitlines()
        except OSError:
            return []

    def mails(self):
        try:
            return open(self.mailbox).read().count('--end--')
        except OSError:
            return 0

    def kill_all(self, proc):
        """kill the whole session of a canvas invocation (crash)"""
        try:
            os.killpg(proc.pid, signal.SIGKILL)
        except OSError:
            pass
        try:
            proc.wait(timeout=5)
        except Exception:
            pass

    def reap_strays(self):
        """after a crash: make sure no probe of this root keeps polling"""
        me = self.orch
        for pid in os.listdir('/proc'):
            if not pid.isdigit():
                continue
            try:
                env = open('/proc/%s/environ' % pid, 'rb').read()
            except OSError:
                continue
            if ('ORCH_DIR=%s' % me).encode() in env:
                try:
                    os.kill(int(pid), signal.SIGKILL)
                except OSError:
                    pass


def wait_for(pred, timeout=10.0, step=0.002):
    t = time.time() + timeout
    while time.time() < t:
        if pred():
            return True
        time.sleep(step)
    return pred()
