"""Translator for C02: the ORDER of the file-system calls of a robsd-step command, read from
step.c (steps_parse, steps_write, steps_free) and robsd-step.c (main, action_write)
-> coq/gen/Gen_Lock.v  (module RobsdGen.Gen_Lock).

Per function the calls that touch the step file or its lock, and the VERIF_POINT sync points, are
emitted in textual order as a list of constructors of Lock/LockOps.fsop.  A call to another function
of step.c that (transitively) performs such calls is expanded in place, so factoring the unlock out
into a helper and calling it early is seen as what it is.  The error exits `if (error) { ... }` are
not part of the path.  Any call of the families open/fopen/flock/fwrite/fflush/fsync/fclose/close/
ftruncate/rename/unlink that is not one of the expected shapes makes the translation fail.
The Coq side (Lock/LockTie.v) proves the generated lists equal to the order the transition system
of LockDefs.v assumes, and that they pass the lock-discipline checker."""
import os, re

POINTS = ['after_open', 'after_lock', 'after_read', 'before_truncate', 'after_truncate', 'after_write', 'after_unlock']

TOKENS = [
    ('FOpenRd', r'\bopen\s*\(\s*path\s*,\s*O_RDONLY\s*\|\s*O_CLOEXEC\s*\)'),
    ('FLockEx', r'\bflock\s*\(\s*sf->flock\s*,\s*LOCK_EX\s*\)'),
    ('FLockSh', r'\bflock\s*\(\s*sf->flock\s*,\s*LOCK_SH\s*\)'),
    ('FUnlock', r'\bflock\s*\(\s*sf->flock\s*,\s*LOCK_UN\s*\)'),
    ('FReadAll', r'\blexer_alloc\s*\('),
    ('FParse', r'\bsteps_parse_(?:header|row)\s*\('),
    ('FSerialize', r'\b(?:steps_sort|step_serialize)\s*\('),
    ('FTruncate', r'\bfopen\s*\(\s*sf->path\s*,\s*"we"\s*\)'),
    ('FWrite', r'\bfwrite\s*\('),
    ('FFlushClose', r'\bfclose\s*\(\s*fh\s*\)'),
    ('FCloseFd', r'\bclose\s*\(\s*sf->flock\s*\)'),
    ('FPoint', r'\bVERIF_POINT\s*\(\s*"step\.(\w+)"\s*\)'),
]
# anything of these families that is not one of the shapes above is not understood
FAMILY = r'\b(open|openat|fopen|freopen|fdopen|flock|lockf|fcntl|fwrite|fputs|fprintf|write|pwrite|fflush|fsync|fdatasync|fclose|close|ftruncate|truncate|rename|unlink|dup|dup2)\s*\('


def strip_comments(src):
    return re.sub(r'/\*.*?\*/', lambda m: re.sub(r'[^\n]', ' ', m.group(0)), src, flags=re.S)


def functions(src):
    """name -> body of every function defined at top level (K&R placement: name at the start of a line)"""
    out = {}
    for m in re.finditer(r'^(\w+)\(([^;{]*?)\)\n\{\n(.*?)^\}\n', src, re.M | re.S):
        out[m.group(1)] = m.group(3)
    return out


def drop_error_exits(body):
    return re.sub(r'if\s*\(\s*error\s*\)\s*\{[^{}]*\}', ';', body)


# Where a call must stand (gap report 2, C02 critical check: the order was read textually, so `if (cond) flock(...)`, a
# `nolock` parameter or an `#ifdef __OpenBSD__` around the flock gave the same list).  Brace depth inside its function and the
# exact text of the statement that holds the call; anything else raises.
PLACE = {
    'FOpenRd': (0, r'sf->flock = open\(path, O_RDONLY \| O_CLOEXEC\);'),
    'FLockEx': (0, r'if \(flock\(sf->flock, LOCK_EX\) == -1\) \{'),
    'FTruncate': (0, r'fh = fopen\(sf->path, "we"\);'),
    'FWrite': (0, r'n = fwrite\([^;]*\);'),
    'FFlushClose': (0, r'if \(fh != NULL && fclose\(fh\) == EOF && !error\) \{|if \(fh != NULL\) fclose\(fh\);'),
    'FUnlock': (1, r'flock\(sf->flock, LOCK_UN\);'),
    'FCloseFd': (1, r'close\(sf->flock\);'),
}
# the only block the unlock / close of the lock descriptor may stand in
UNLOCK_GUARD = r'if \(sf->flock != -1\) \{\s*flock\(sf->flock, LOCK_UN\);\s*close\(sf->flock\);\s*\}'


def statement_around(body, start, end):
    a = max(body.rfind(';', 0, start), body.rfind('{', 0, start), body.rfind('}', 0, start), body.rfind('\n#', 0, start))
    if body.startswith('\n#', a):           # a preprocessor line ends at its newline
        a = body.find('\n', a + 1)
    b = end
    depth = 0
    while b < len(body):
        c = body[b]
        if c == '(':
            depth += 1
        elif c == ')':
            depth -= 1
        elif c in ';{' and depth <= 0:
            break
        b += 1
    return re.sub(r'^(?:\w+: )+', '', re.sub(r'\s+', ' ', body[a + 1:b + 1]).strip())    # labels dropped


def check_place(name, body, ctor, start, end):
    if ctor not in PLACE:
        return
    depth, pat = PLACE[ctor]
    d = body.count('{', 0, start) - body.count('}', 0, start)
    stmt = statement_around(body, start, end)
    if ctor == 'FFlushClose' and stmt.startswith('if (fh != NULL) fclose'):
        pass
    elif d != depth:
        raise ValueError('%s: %s stands at brace depth %d, expected %d (a conditional lock/unlock/truncate is not the modelled order)' % (name, ctor, d, depth))
    if not re.fullmatch(pat, stmt):
        raise ValueError('%s: the statement holding %s is not the expected one: %r' % (name, ctor, stmt))
    if ctor in ('FUnlock', 'FCloseFd') and not re.search(UNLOCK_GUARD, body):
        raise ValueError('%s: %s is not inside `if (sf->flock != -1) { flock(LOCK_UN); close(); }`' % (name, ctor))


def check_preprocessor(name, body):
    for line in body.split('\n'):
        t = line.strip()
        if t.startswith('#') and t not in ('#ifdef ROBSD_VERIF', '#endif'):
            raise ValueError('%s: preprocessor line %r inside a function on the lock path (only the ROBSD_VERIF points are expected)' % (name, t))


def path_of(fns, name, stack=()):
    if name in stack:
        raise ValueError('recursion through %s' % name)
    check_preprocessor(name, fns[name])
    body = drop_error_exits(fns[name])
    found = []
    for ctor, pat in TOKENS:
        for m in re.finditer(pat, body):
            check_place(name, body, ctor, m.start(), m.end())
            found.append((m.start(), m.end(), ctor, m.groups()))
    for other in fns:
        if other == name:
            continue
        for m in re.finditer(r'\b%s\s*\(' % re.escape(other), body):
            if any(s <= m.start() < e for s, e, _, _ in found):
                continue
            sub = path_of(fns, other, stack + (name,))
            if sub:
                found.append((m.start(), m.end(), 'CALL', tuple(sub)))
    found.sort()
    covered = [(s, e) for s, e, _, _ in found]
    for m in re.finditer(FAMILY, body):
        if m.group(1) in ('fprintf', 'write') and 'VERIF' not in name:
            # diagnostics go through warn/warnx; a bare write()/fprintf() in these functions is not expected
            pass
        if not any(s <= m.start() < e for s, e in covered):
            raise ValueError('%s: call %s(...) at offset %d is not one of the understood shapes' % (name, m.group(1), m.start()))
    out = []
    for _, _, ctor, groups in found:
        if ctor == 'CALL':
            out.extend(groups)
        elif ctor == 'FPoint':
            if groups[0] not in POINTS:
                raise ValueError('%s: unknown sync point step.%s' % (name, groups[0]))
            out.append('FPoint %d' % POINTS.index(groups[0]))
        elif ctor in ('FParse', 'FSerialize') and out and out[-1] == ctor:
            continue
        else:
            out.append(ctor)
    return out


def order_of(body, names, where):
    pos = []
    for n in names:
        m = re.search(r'\b%s\s*\(' % re.escape(n), body)
        if not m:
            raise ValueError('%s: call to %s not found' % (where, n))
        pos.append((m.start(), n))
    return [n for _, n in sorted(pos)]


def coq_list(xs):
    return '[' + '; '.join(xs) + ']'


def generate(repo):
    src = strip_comments(open(os.path.join(repo, 'step.c')).read())
    fns = functions(src)
    for need in ('steps_parse', 'steps_write', 'steps_free'):
        if need not in fns:
            raise ValueError('step.c: function %s not found' % need)
    # steps_parse frees (and unlocks) only on its error exit
    parse = path_of(fns, 'steps_parse')
    write = path_of(fns, 'steps_write')
    free = path_of(fns, 'steps_free')
    rs = strip_comments(open(os.path.join(repo, 'robsd-step.c')).read())
    rfns = functions(rs)
    if 'main' not in rfns or 'action_write' not in rfns or 'steps_read' not in rfns:
        raise ValueError('robsd-step.c: main/action_write/steps_read not found')
    mw = re.search(r'case ACTION_WRITE:(.*?)break;', rfns['main'], re.S)
    mr = re.search(r'case ACTION_READ:(.*?)break;', rfns['main'], re.S)
    mo = re.search(r'\nout:\n(.*)', rfns['main'], re.S)
    if not (mw and mr and mo):
        raise ValueError('robsd-step.c: main: ACTION_WRITE / ACTION_READ / out: not found')
    w_calls = order_of(mw.group(1), ['steps_parse', 'action_write'], 'main/ACTION_WRITE')
    r_calls = order_of(mr.group(1), ['steps_parse', 'steps_read'], 'main/ACTION_READ')
    if not re.match(r'\s*steps_free\s*\(\s*c\.step_file\s*\)', mo.group(1)):
        raise ValueError('robsd-step.c: main: steps_free(c.step_file) is not the first statement after out:')
    if re.search(r'\bsteps_free\s*\(', mw.group(1) + mr.group(1)) or re.search(r'\bsteps_(?:free|parse)\s*\(', rfns['action_write'] + rfns['steps_read']):
        raise ValueError('robsd-step.c: steps_free/steps_parse called from an unexpected place')
    aw = order_of(rfns['action_write'], ['steps_find_by_id', 'step_set_keyval', 'steps_write'], 'action_write')
    if len(re.findall(r'\bsteps_write\s*\(', rfns['action_write'])) != 1 or not re.search(r'return\s+steps_write\s*\(', rfns['action_write']):
        raise ValueError('robsd-step.c: action_write: steps_write is not the single, final call')
    cname = {'steps_parse': 'CParse', 'action_write': 'CActionWrite', 'steps_read': 'CRead', 'steps_find_by_id': 'CFind',
             'step_set_keyval': 'CSetKeyval', 'steps_write': 'CWrite'}
    out = ['(* generated from step.c / robsd-step.c by harness/t_lock.py - do not edit *)',
           'From Robsd Require Import Lock.LockOps.',
           'From Coq Require Import List.', 'Import ListNotations.',
           '(* file-system calls and sync points, in textual order, error exits left out *)',
           'Definition parse_path : list fsop := %s.' % coq_list(parse),
           'Definition write_path : list fsop := %s.' % coq_list(write),
           'Definition free_path : list fsop := %s.' % coq_list(free),
           '(* robsd-step.c: what main does for -W and -R before the common exit (steps_free first), and action_write *)',
           'Definition main_write_calls : list call := %s.' % coq_list([cname[n] for n in w_calls] + ['CFree']),
           'Definition main_read_calls : list call := %s.' % coq_list([cname[n] for n in r_calls] + ['CFree']),
           'Definition action_write_calls : list call := %s.' % coq_list([cname[n] for n in aw]), '']
    return {'Gen_Lock.v': '\n'.join(out)}
