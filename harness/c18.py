"""C18 - report durations, deltas and size changes: model/spec vs the Duration:/Size: lines of robsd-report and vs
duration_total / regress_duration_total run from the working tree's util.sh under bash (DESIGN.md 7, C18; shares
model, extraction and fixtures with C05 through rp_common)."""
import json, os
import common, rp_common

TRANSLATORS = ['t_report', 't_step', 't_interp', 't_shell']
TRUSTED = ['modelled, not verified: int64_t arithmetic is written with unbounded integers; C18_no_overflow / C18_no_overflow_wall prove that every partial sum (C and shell) and the regress difference stay strictly inside int64_t for fewer than 2^22 rows with durations within +-2^40 and times below 2^62, '
           'the conversion size_t -> double and the division by 2^10 / 2^20 (exact below 2^53), glibc printf("%.01f") printing the correctly '
           'rounded decimal of the exact binary value with ties to even in round-to-nearest mode, "%02d" of an int, stat(2) st_size, '
           'readdir of <builddir>/rel and of robsddir, qsort on the Size: lines (total order on distinct lines), fnmatch("*.diff.[[:digit:]]*") in '
           'the C locale; bash standing in for ksh when running duration_total / regress_duration_total, with the rebuilt robsd-step '
           'behind step_eval (C01 models that helper); shell arithmetic is 64 bit like the C code; the guards of duration_total / regress_duration_total are read from '
           'util.sh / util-regress.sh by harness/t_shell.py (Gen_Shell.v) and the hand-written shell model is proved equal to the one assembled from them (C18_shell_translated)',
           'environment assumed: as for C05 (lock file names the directory given on the command line); the verdict on the report is '
           'spec_ok_bytes_numbers on exit status and standard output (C18_bytes_oracle_accepts_model) - the Duration: and Size: lines are judged where '
           'they stand, the harness\'s parser only names the clause of a failed verdict; durations outside 0..2^40 or deltas beyond +-2^40 '
           '(in-flight -1 rows) are only compared with the model, not judged by the oracle, as the property says',
           '"the previous invocation" is judged by CREATION ORDER: the harness records the order in which it made the entries of robsddir '
           '(case field created) and hands it to the oracle (fixture field x_age); known finding previous-is-name-order-not-age is recognised only when '
           'the printed Size: lines are exactly the ones against the greatest other name and name order differs from creation order in that case',
           'outside the property by the same predicate on the case as for C05 (rp_common.outside_reason): a file that is a directory, a missing lock '
           'file, a passing dpb row without packages.diff, a regress row without log name']

MIB, KIB = 2 ** 20, 2 ** 10


def gen_duration_case(rng):
    """rows aimed at the threshold and unit boundaries of the duration lines"""
    mode = rng.choice(rp_common.MODES)
    c = rp_common.gen_case(rng, mode=mode)
    rows = c['rows']
    B = [0, 1, 59, 60, 61, 99, 100, 3599, 3600, 3601, 35999, 36000, 359999, 360000, 86399, 86400, 2 ** 31 - 1, 2 ** 31, 2 ** 32 - 1, 2 ** 32, 2 ** 40 - 1, 2 ** 40]
    D = [0, 1, -1, 59, -59, 60, -60, 61, -61, 3599, -3600, 2 ** 40, -(2 ** 40), 2 ** 40 - 1, 2 ** 31 - 1, 2 ** 31, -(2 ** 31), -(2 ** 31) - 1, 2 ** 32, -(2 ** 32),
         2 ** 32 + 60, 2 ** 32 + 61, -(2 ** 32 + 61)]
    for r in rows:
        if r['duration'] != -1 or rng.random() < 0.5:
            r['duration'] = rng.choice(B)
        r['delta'] = rng.choice(D)
        if r['exit'] == 0 and r['skip'] == 0 and rng.random() < 0.3 and r['name'] not in ('end',):
            r['exit'] = 1 if mode in ('robsd-regress', 'canvas') else r['exit']
    ends = [r for r in rows if r['name'] == 'end']
    k = rng.random()
    if ends and k < 0.5:
        ends[0]['duration'] = rng.choice(B)
        ends[0]['delta'] = rng.choice(D)
    elif ends and k < 0.75:
        rows.remove(ends[0])
    elif not ends and rows and k < 0.9:
        rows.append({'step': len(rows) + 1, 'name': 'end', 'exit': 0, 'duration': rng.choice(B), 'delta': rng.choice(D), 'log': '',
                     'user': 'root', 'time': rows[-1]['time'] + 1, 'skip': 0})
    for i, r in enumerate(rows):
        r['step'] = i + 1
    return c


def gen_age_case(rng):
    """robsd builds whose invocation names stress "previous": the tenth and later builds of a day (unpadded numbers), a name that is a
    prefix of another, this invocation not the newest, a name issued again after cleaning; release files differ in every invocation"""
    c = rp_common.gen_case(rng, focus='sizes')
    day = '2024-01-0%d' % rng.choice([2, 5])
    kind = rng.choice(['tenth', 'eleventh', 'first-and-tenth', 'below-ten', 'reissued', 'two-days'])
    if kind == 'tenth':
        names, me = [day + '.8', day + '.9'], day + '.10'
    elif kind == 'eleventh':
        names, me = [day + '.9', day + '.10'], day + '.11'
    elif kind == 'first-and-tenth':
        names, me = [day + '.10'], day + '.1'
    elif kind == 'below-ten':
        k = rng.choice([2, 5, 9])
        names, me = [day + '.%d' % i for i in range(max(1, k - 2), k)], day + '.%d' % k
    elif kind == 'reissued':
        # .1 and .2 were cleaned away, .3 stayed; the next build of the day was issued .1 again
        names, me = [day + '.3'], day + '.1'
    else:
        names, me = ['2024-01-01.9', '2024-01-01.10'], day + '.1'
    created = sorted(names, key=rp_common.natural_key) + [me]
    if kind == 'first-and-tenth':
        created = [me] + names
    c['builddir'] = me
    c['others'] = [[n, 'dir'] for n in names] + ([['attic', 'dir']] if rng.random() < 0.5 else [])
    c['created'] = [o[0] for o in c['others'] if o[0] == 'attic'] + created
    cur = c['rel'] if c['rel'] else [['bsd', 6 * MIB], ['bsd.rd', 9 * KIB]]
    c['rel'] = cur
    c['prevrel'] = {n: [[nm, max(0, size + rng.choice([-3, -2, 2, 3, 5]) * (KIB if nm == 'bsd.rd' else MIB) * (i + 1))] for nm, size in cur]
                    for i, n in enumerate(names)}
    c['age_kind'] = kind
    return c


def stats(res, c, rc, rep):
    rows = c['rows']
    if c.get('age_kind'):
        res.count('invocation names=%s' % c['age_kind'])
    res.count('end_row=%s' % ('yes' if any(r['name'] == 'end' for r in rows) else 'no'))
    for r in rows:
        d = r['duration']
        if d in (59, 60, 61):
            res.count('duration=59..61')
        elif d >= 2 ** 31:
            res.count('duration>=2^31')
        elif d >= 360000:
            res.count('duration>=100h')
        elif d < 0:
            res.count('duration=-1')
        a = abs(r['delta'])
        if a in (59, 60, 61):
            res.count('delta=+-59..61')
        elif a == 1:
            res.count('delta=+-1')
        elif a >= 2 ** 40 - 1:
            res.count('delta=+-2^40')
    if rep is not None:
        if b' (+' in rep['duration'] or b' (-' in rep['duration']:
            res.count('total_with_delta')
        res.count('size_lines=%s' % (len(rep['sizes']) if len(rep['sizes']) < 3 else '3+'))
    for nm, size in (c['rel'] or []):
        for p in c['prevrel'].values():
            for n2, s2 in p:
                if n2 == nm:
                    dd = abs(size - s2)
                    thr = KIB if nm == 'bsd.rd' else MIB
                    if dd in (thr - 1, thr, thr + 1):
                        res.count('size_delta=threshold+-1')
                    if size % 2 ** 18 == 0 and (size // 2 ** 18) % 2 == 1 and size >= MIB:
                        res.count('size=decimal_tie')
                    if size >= 2 ** 31:
                        res.count('size>=2GiB')


def run_cases(ctx, cases, res, with_shell):
    impl = ctx.build_impl()
    drv = rp_common.build_rp_driver(ctx)
    chunk = 1500
    for i in range(0, len(cases), chunk):
        for c, rc, out, rep, verdict in rp_common.evaluate(ctx, 'C18', cases[i:i + chunk], res, impl, drv, with_shell=with_shell):
            stats(res, c, rc, rep)
            if rc == 0 and rep is not None and (rep['sizes'] or b'(' in rep['duration'] or any(b'(' in s['duration'] for s in rep['sections'])):
                res.nontrivial.add(rp_common.case_key(c))
    return res


def gen_cases(rng, n):
    cases = []
    for i in range(n):
        k = i % 3
        if i % 12 == 9:
            cases.append(gen_age_case(rng))
        elif i % 12 == 5:
            # the boundary size / shape classes of the numbers (rp_common: durations, deltas, sums, sizes, counts, invocation names)
            cases.append(rp_common.boundary_case(rng, rp_common.FAMILIES_C18))
        elif k == 0:
            cases.append(rp_common.gen_case(rng, focus='sizes'))
        elif k == 1:
            cases.append(gen_duration_case(rng))
        else:
            cases.append(rp_common.gen_case(rng))
    return cases


def run(ctx, n=None):
    res = common.Result()
    res.rule = ('a third of the cases robsd builds with release directories in this and in previous invocations (sparse files; sizes at 2^10+-1, '
                '2^20+-1, deltas at the thresholds +-1 for bsd.rd and other files, decimal ties 2^18*odd and 2^8*odd, up to 5.5 GiB, files present on '
                'one side only, CHANGELOG, numbered diffs and look-alikes, hidden files), a third rows with durations/deltas at 59/60/61 s, the '
                'two-digit and int boundaries and 2^40, with and without an end row, a third the general C05 generator; one case in twelve has invocation names of the '
                'tenth/eleventh build of a day, a name that is a prefix of another, or a reissued name, with the creation order recorded; the shell totals are run for '
                'a sample of the cases; one case in twelve (and corpus/C18/b18_*.json, one family per file) comes from the boundary classes of rp_common '
                '("class: ..." in the input distribution): durations / deltas / sums / wall times at 59..61, 3599..3601, 86399/86400, 2^31, 2^32, 2^63-1, sizes and size '
                'differences at 2^31 / 2^32 / the K and M unit boundaries up to 2^43, 0..65 release files, the 1st..101st invocation of a day, 15..256 entries in '
                'robsddir, prefix-related invocation names, names next to "end", names with blanks or shell syntax, 16..256 rows - duration_total runs on every one of '
                'them; non-trivial = a report with a Size: line or a delta suffix; distinct by content hash')
    n = n or ctx.budget(330, 9000)
    cases = rp_common.load_corpus('C18') + gen_cases(ctx.rng, n)
    res.samples = [{'mode': c['mode'], 'rows': c['rows'][:2], 'rel': (c['rel'] or [])[:3]} for c in cases[:3]]
    res.assumptions = ['durations 0..2^40 and deltas within +-2^40 judged by the oracle (in-flight -1 rows and larger values only compared with the model; no delta of -2^63: '
                       'its negation is undefined in C); sizes 0..2^43 (ext4 refuses larger sparse files)']
    run_cases(ctx, cases, res, with_shell=ctx.budget(0.35, 0.08))
    res.traces_validated = res.evaluations
    return res


def extended_search(ctx, res, proof):
    more = common.Result()
    return run_cases(ctx, gen_cases(ctx.rng, 4500), more, with_shell=0.05)


def replay(ctx, rep):
    return rp_common.replay(ctx, 'C18', rep)
