"""C07 - termination and timeout take down the whole step process group.

Correspondence: the real robsd-exec (rebuilt with -DROBSD_VERIF, sync points of
hooks/step-exec-syncpoints.diff) is driven by tools/kl_sched.py through the
same scheduler script the extracted Coq model (Exec/KillDefs.v, `interp`)
interprets; the step is tools/proctree.c building a process tree from a
description.  Observation = (how the runner ended, main reaped?, who is alive
in the step's group per /proc, which signals the runner sent).  Oracle = the
extracted `spec_okb` (Exec/KillSpec.v) applied to what the implementation did.

The handshake (waiteof) and its "process group failure" path are driven too:
tools/kl_hold.c, an LD_PRELOAD shim, stops the forked child of robsd-exec
before setsid(2) with the protocol of VERIF_POINT (script ops H / U), so the
runner's 1000 ms handshake expires; op E lets the configured timeout pass.
"""
import hashlib, json, os, re, subprocess, sys
from concurrent.futures import ThreadPoolExecutor
import common

TRANSLATORS = ['t_kill']
TRUSTED = [
    'ASSUMED, not verified (kernel model of Exec/KillDefs.v): kill(-pgid) reaches exactly the live members of the '
    'step\'s group, SIGKILL kills, SIGTERM kills default-disposition members, waitpid reaps only the main process, '
    'a handled signal interrupts a blocking waitpid (no SA_RESTART) and otherwise only sets gotsig, the default '
    'action of SIGTERM ends the runner; delivery latency, PID reuse, members that leave the group (setsid/setpgid), '
    'members forking during the kill and uninterruptible processes are not modelled',
    'the waiteof() handshake is modelled (hpolls reads, then the "process group failure" path); the child being slow is '
    'an environment choice (label LUp); a child that dies before closing the pipe (setsid failure) is not modelled',
    'sync-point hook verif.h/step-exec.c (ROBSD_VERIF), tools/kl_sched.py (scheduler, /proc scanner), tools/proctree.c (probe), '
    'tools/kl_hold.c (LD_PRELOAD shim: sync point in the forked child before setsid; log of the kill(2) calls)',
    'which signals the runner sent to the group is read from its kill(2) calls (interposed by tools/kl_hold.c), which waitpid it is '
    'blocked in from /proc/<pid>/syscall (first argument of wait4: -pid = step_exec, pid = the failure path of step_fork); the runner\'s '
    'words on stderr are recorded and compared but decide nothing, except "process group failure" for a runner that was never '
    'seen blocked on the failure path',
    'BOUNDARY CLASSES: SIGPIPE deliveries are taken out of the history before the model and the oracle see it (the claim "an ignored '
    'signal is no event" is the harness\'s); a stopped member is given to the model as a TERM-ignoring one, a member that called setsid() '
    'and its subtree are pruned from the tree (c07.model_tree) - both shapes are outside the kernel model above; tools/kl_sched.py counts a '
    'pid as a process of the step only while it descends from the scheduler (pid reuse on a loaded machine); death of the main process '
    'from a signal other than SIGTERM / SIGKILL during the takedown, a non-main zombie and a direct SIGALRM before alarm() is armed '
    'have no counterpart in the model and are not generated',
    'exitstatus(): KillDefs.exitstatus is proved equal to C06\'s clang-translated Gen_Exec.exitstatus for all integers '
    '(C07_exit_mapping); the translation itself is C06\'s',
]

PRE_HANDLER = ('exec.after_fork', 'exec.after_sigpipe')
PRE_WAIT = ('exec.after_sigterm', 'exec.after_sigalrm', 'exec.before_waitpid')
GROUP_FAIL = ('blocked.groupfail',)

QUICK_TREES = ['d()', 'i()', 'd(d()i())', 'ie5(d(d())de0())', 'de0(d()de7())', 'de3(d(d(i()))ie0()d())']


def count_nodes(tree):
    return tree.count('(')


def early_nodes(tree):
    """indices (preorder) of nodes with an e<code>, and of nodes ignoring SIGTERM"""
    early, ign, idx, i = [], [], -1, 0
    while i < len(tree):
        ch = tree[i]
        if ch in 'di':
            idx += 1
            if ch == 'i':
                ign.append(idx)
            if i + 1 < len(tree) and tree[i + 1] == 'e':
                early.append(idx)
        i += 1
    return early, ign


def gen_tree(rng, maxnodes=10):
    budget = [rng.randint(1, maxnodes)]

    def node(depth):
        budget[0] -= 1
        s = rng.choice('ddi')
        if rng.random() < 0.4:
            s += 'e%d' % rng.choice([0, 0, 1, 3, 7, 255, 256, 300])
        kids = ''
        while budget[0] > 0 and depth < 4 and rng.random() < (0.75 if depth < 2 else 0.4) and kids.count('(') < 9:
            kids += node(depth + 1)
        return s + '(' + kids + ')'
    return node(0)


def scripts_for(tree, rng, full):
    """(mode, timeout, script) triples aimed at the case splits of the proofs: every sync
    point x {TERM, ALRM}, second signals inside the kill phase, members exiting on their own
    before / during the kill, no event at all, events after the step has ended."""
    early, ign = early_nodes(tree)
    main_early = 0 in early
    kid_early = [i for i in early if i > 0]
    main_ign = 0 in ign
    out = []

    def add(mode, timeout, script):
        out.append((mode, timeout, [list(x) for x in script]))
    tail = [('F', '')] + ([('X', 0), ('F', '')] if main_early else [])
    # --- SIGTERM at every point --------------------------------------------------
    for mode, to in (('canvas', 0), ('regress', 3600)):
        pts = ['exec.after_fork', 'exec.after_sigpipe', 'exec.after_sigterm', 'exec.before_waitpid']
        if to > 0:
            pts.insert(3, 'exec.after_sigalrm')
        if not full and mode == 'regress':
            pts = ['exec.after_sigalrm']
        for p in pts:
            add(mode, to, [('R', p), ('S', 'TERM')] + tail)
    add('canvas', 0, [('B', ''), ('S', 'TERM'), ('F', '')])
    add('regress', 3600, [('B', ''), ('S', 'TERM'), ('F', '')])
    # --- SIGALRM: the runner's own alarm(1) and a directly delivered one -----------
    add('regress', 1, [('B', ''), ('S', 'ALRMREAL'), ('F', '')])
    add('regress', 3600, [('B', ''), ('S', 'ALRM'), ('F', '')])
    add('regress', 1, [('R', 'exec.before_waitpid'), ('S', 'ALRMREAL')] + tail)
    add('regress', 3600, [('R', 'exec.before_waitpid'), ('S', 'ALRM')] + tail)
    # --- second signal inside the kill phase -------------------------------------------
    kpts = ['exec.wait_interrupted', 'kill.before_term', 'kill.after_term']
    if main_ign:
        kpts += ['kill.before_kill', 'kill.after_kill']
    for p in (kpts if full else [rng.choice(kpts)]):
        add('regress', 3600, [('B', ''), ('S', 'TERM'), ('R', p), ('S', 'ALRM'), ('F', '')])
        add('regress', 3600, [('B', ''), ('S', 'ALRM'), ('R', p), ('S', 'TERM'), ('F', '')])
    # --- repeated termination requests: robsd-kill's `while pkill -f "^robsd-exec ..."; do sleep .1; done` sends SIGTERM
    #     again and again until the runner is gone; the runner must go on waiting / escalating all the same -----------
    add('canvas', 0, [('B', ''), ('S', 'TERM'), ('R', 'kill.after_term'), ('S', 'TERM'), ('F', '')])
    add('canvas', 0, [('R', 'exec.after_sigterm'), ('S', 'TERM'), ('B', ''), ('S', 'TERM'), ('F', '')])   # the resend heals window 2
    if full or main_ign:
        add('regress', 3600, [('B', ''), ('S', 'TERM'), ('R', 'exec.wait_interrupted'), ('S', 'TERM'), ('R', 'kill.after_term'),
                              ('S', 'TERM'), ('F', '')])
    if main_ign:
        add('canvas', 0, [('B', ''), ('S', 'TERM'), ('R', 'kill.before_kill'), ('S', 'TERM'), ('F', '')])
    # --- members exiting on their own ------------------------------------------------------
    if main_early:
        add('canvas', 0, [('B', ''), ('X', 0), ('F', '')])                       # no event
        add('canvas', 0, [('R', 'exec.before_waitpid'), ('X', 0), ('F', '')])    # dead before the wait
        add('regress', 3600, [('R', 'exec.after_fork'), ('X', 0), ('F', '')])
        add('canvas', 0, [('B', ''), ('S', 'TERM'), ('R', 'exec.wait_interrupted'), ('X', 0), ('F', '')])
        add('canvas', 0, [('B', ''), ('S', 'TERM'), ('R', 'kill.after_term'), ('X', 0), ('F', '')])
        add('regress', 3600, [('B', ''), ('S', 'ALRM'), ('R', 'kill.before_term'), ('X', 0), ('F', '')])
        add('canvas', 0, [('R', 'exec.before_waitpid'), ('X', 0), ('S', 'TERM'), ('F', '')])
        # after the step has ended
        add('canvas', 0, [('B', ''), ('X', 0), ('R', 'exec.after_wait'), ('S', 'TERM'), ('F', '')])
        add('regress', 3600, [('B', ''), ('X', 0), ('R', 'exec.after_wait'), ('S', 'ALRM'), ('F', '')])
        if main_ign:
            add('canvas', 0, [('B', ''), ('S', 'TERM'), ('R', 'kill.before_kill'), ('X', 0), ('F', '')])
    if kid_early:
        k = rng.choice(kid_early)
        add('canvas', 0, [('B', ''), ('X', k), ('S', 'TERM'), ('F', '')])
        add('canvas', 0, [('B', ''), ('S', 'TERM'), ('R', 'kill.after_term'), ('X', k), ('F', '')])
        if main_early:
            add('canvas', 0, [('B', ''), ('X', k), ('X', 0), ('F', '')])
    if not main_early:
        add('canvas', 0, [('B', ''), ('F', '')])                                  # nothing happens: hang, no kill
    # --- the handshake fails: the child is held before setsid for longer than waiteof's 1000 ms -----
    lanes = []
    lanes.append(('canvas', 0, [('H', ''), ('B', ''), ('S', 'TERM'), ('F', ''), ('U', '')]))       # W3, group never up
    lanes.append(('canvas', 0, [('H', ''), ('B', ''), ('U', ''), ('S', 'TERM'), ('F', '')]))       # W3, step running
    lanes.append(('regress', 1, [('H', ''), ('B', ''), ('U', ''), ('E', ''), ('F', '')]))          # timeout never armed
    lanes.append(('regress', 3600, [('H', ''), ('R', 'exec.after_sigterm'), ('S', 'TERM'), ('F', ''), ('U', ''), ('F', '')]))
    lanes.append(('canvas', 0, [('H', ''), ('R', 'exec.after_fork'), ('S', 'TERM'), ('F', ''), ('U', '')]))
    lanes.append(('regress', 3600, [('H', ''), ('R', 'exec.after_sigalrm'), ('U', ''), ('F', '')]))  # point never reached
    if main_early:
        lanes.append(('canvas', 0, [('H', ''), ('B', ''), ('U', ''), ('X', 0), ('F', '')]))        # no event: code or 1
        lanes.append(('canvas', 0, [('H', ''), ('B', ''), ('U', ''), ('X', 0), ('R', 'exec.after_wait'), ('F', '')]))
        lanes.append(('canvas', 0, [('H', ''), ('B', ''), ('U', ''), ('S', 'TERM'), ('F', ''), ('X', 0)]))
    else:
        lanes.append(('canvas', 0, [('H', ''), ('B', ''), ('U', ''), ('F', '')]))                  # no event: hang
    # the child is held, but released before the handshake expires: nothing special happens
    lanes.append(('canvas', 0, [('H', ''), ('R', 'exec.after_sigterm'), ('U', ''), ('B', ''), ('S', 'TERM'), ('F', '')]))
    for mode, to, script in (lanes if full else lanes[:3] + [rng.choice(lanes[3:])]):
        add(mode, to, script)
    return out


def make_cases(ctx, trees, full):
    cases = []
    for t in trees:
        for mode, to, script in scripts_for(t, ctx.rng, full):
            cases.append({'tree': t, 'nodes': count_nodes(t), 'mode': mode, 'timeout': to, 'script': script})
    return cases


def race_cases(ctx, n):
    """undriven: SIGTERM after a short real delay, nothing stopped"""
    cases = []
    trees = ['d()', 'd(d()d())', 'd(d(d())i())', 'd(d()d()d(d()))']
    for i in range(n):
        t = trees[i % len(trees)]
        us = ctx.rng.randint(0, 4000)       # the runner forks ~1 ms after it is started
        cases.append({'tree': t, 'nodes': count_nodes(t), 'mode': 'canvas', 'timeout': 0, 'race': True,
                      'script': [['D', us / 1000.0], ['S', 'TERM'], ['F', '']]})
    return cases


# ---- boundary SIZE / SHAPE classes ------------------------------------------------------------------------
# The runner itself signals the GROUP (one kill(2)), so member counts do not flow into a buffer of step-exec.c; they flow
# into the harness's own bookkeeping (ready file, /proc scan, alive bits, model tokens), which must scale, and they guard
# against a runner that starts to enumerate processes.  What does flow into the runner: the NUMBER of signals it receives
# (sighandler runs once per delivery), WHICH signal (SIGTERM / SIGALRM handled, SIGPIPE ignored - siginstall), WHEN
# (every sync point), the wait status of the main process (every exit code; gotsig decides between code and 124), the
# configured timeout (0 = no alarm), and the 50 x 100 ms poll before the escalation to SIGKILL.
KIDS_B = [0, 1, 2, 15, 16, 17, 31, 32, 33, 63, 64, 65]


def wide(nkids, ign_mod=0, main='d'):
    """main + nkids children; every ign_mod-th child ignores SIGTERM"""
    return main + '(' + ''.join('i()' if ign_mod and i % ign_mod == 0 else 'd()' for i in range(nkids)) + ')'


def grand(nkids, main='d'):
    """main - one child - nkids grandchildren"""
    return main + '(d(' + 'd()' * nkids + '))'


def chain(depth, leaf='d()'):
    """a chain of `depth` generations below the main process"""
    t = leaf
    for _ in range(depth - 1):
        t = 'd(' + t + ')'
    return 'd(' + t + ')' if depth > 0 else 'd()'


def bcase(tree, mode, timeout, script, cls, **kw):
    c = {'tree': tree, 'nodes': count_nodes(tree), 'mode': mode, 'timeout': timeout, 'script': [list(x) for x in script], 'classes': [cls]}
    c.update(kw)
    return c


TERM_AT_BLOCKED = [('B', ''), ('S', 'TERM'), ('F', '')]
ALRM_AT_BLOCKED = [('B', ''), ('S', 'ALRM'), ('F', '')]


def b_members(nkids, shape='wide', ign_mod=0, main='d', alarm=False):
    tree = wide(nkids, ign_mod, main) if shape == 'wide' else grand(nkids, main)
    cls = 'group members: main + %d %s%s%s' % (nkids, 'children' if shape == 'wide' else 'grandchildren',
                                               ', every %d. ignores SIGTERM' % ign_mod if ign_mod else '',
                                               ', main ignores SIGTERM' if main == 'i' else '')
    if alarm:
        return bcase(tree, 'regress', 3600, ALRM_AT_BLOCKED, cls)
    return bcase(tree, 'canvas', 0, TERM_AT_BLOCKED, cls)


def b_depth(depth, leaf='d()'):
    return bcase(chain(depth, leaf), 'canvas', 0, TERM_AT_BLOCKED, 'tree depth %d%s' % (depth, ', leaf ignores SIGTERM' if leaf[0] == 'i' else ''))


def b_terms(n, main='d', spaced=False):
    """n SIGTERMs reach the runner: spread over the stop points of the takedown (several at the last one), or - spaced -
    really one after the other while the runner polls for a TERM-ignoring main process (undriven, oracle only)"""
    tree = main + '(d()i())'
    if spaced:
        script = [('D', 400), ('S', 'TERM')]
        for _ in range(n - 1):
            script += [('D', 120), ('S', 'TERM')]
        return bcase('i(d()i())', 'canvas', 0, script + [('F', '')], 'SIGTERM x %d, 120 ms apart while the runner polls' % n, race=True)
    pts = ['exec.wait_interrupted', 'kill.before_term', 'kill.after_term'] + (['kill.before_kill', 'kill.after_kill'] if main == 'i' else [])
    script = [('B', ''), ('S', 'TERM')]
    for i in range(1, n):
        if i <= len(pts):
            script.append(('R', pts[i - 1]))
        script.append(('S', 'TERM'))
    return bcase(tree, 'canvas', 0, script + [('F', '')], 'SIGTERM x %d at the stop points of the takedown%s' % (n, ' (main ignores SIGTERM)' if main == 'i' else ''))


def b_sigpipe(point, mode='canvas'):
    """SIGPIPE - which the runner ignores from exec.after_sigpipe on - at a sync point / while blocked / inside the kill
    phase: no effect; the SIGTERM that follows takes the group down as if nothing had happened"""
    to = 3600 if mode == 'regress' else 0
    if point == 'blocked':
        script = [('B', ''), ('S', 'PIPE'), ('S', 'TERM'), ('F', '')]
    elif point.startswith('kill.') or point == 'exec.wait_interrupted':
        script = [('B', ''), ('S', 'TERM'), ('R', point), ('S', 'PIPE'), ('F', '')]
    else:
        script = [('R', point), ('S', 'PIPE'), ('B', ''), ('S', 'TERM'), ('F', '')]
    tree = 'i(d())' if point in ('kill.before_kill', 'kill.after_kill') else 'd(d()i())'
    return bcase(tree, mode, to, script, 'SIGPIPE (ignored by the runner) at %s' % point)


def b_selfexit_between(member, point):
    """a TERM-ignoring member (0 = the main process) exits on its own between the group's SIGTERM and its SIGKILL"""
    tree = 'ie4(ie3()d()i())'
    return bcase(tree, 'canvas', 0, [('B', ''), ('S', 'TERM'), ('R', point), ('X', member), ('F', '')],
                 'TERM-ignoring %s exits on its own at %s' % ('main process' if member == 0 else 'member', point))


def b_main_status(code, point):
    """the main process exits with `code` during the takedown"""
    ign = point in ('kill.after_term', 'kill.before_kill')
    tree = '%se%d(d()i())' % ('i' if ign else 'd', code)
    return bcase(tree, 'canvas', 0, [('B', ''), ('S', 'TERM'), ('R', point), ('X', 0), ('F', '')],
                 'main process exits %d at %s' % (code, point))


def b_timeout(to, script, what):
    return bcase('d(d()i())', 'regress', to, script, 'regress-timeout %d: %s' % (to, what))


def b_escalation(rel_ms):
    """undriven: SIGTERM at 300 ms; the TERM-ignoring main process exits 3 on its own rel_ms before (-) / after (+) the
    moment the runner escalates to SIGKILL (kill timeout read from the source when the case runs)"""
    return bcase('ie3t{T}(d())', 'canvas', 0, [('D', 300), ('S', 'TERM'), ('F', '')],
                 'main process exits on its own %d ms %s the escalation to SIGKILL' % (abs(rel_ms), 'before' if rel_ms < 0 else 'after'),
                 race=True, timed={'rel_ms': rel_ms})


def model_tree(tree):
    """(the tree in the model's vocabulary, keep mask per node of the real tree).  Two member shapes are OUTSIDE the kernel
    model of Exec/KillDefs.v (TRUSTED: "SIGTERM kills default-disposition members", "members that leave the group are not
    modelled") and are translated before the model and the oracle see the tree:
      S  a stopped member does not act on SIGTERM before it is continued, SIGKILL kills it: until then it behaves as a member
         that ignores SIGTERM - it is handed to the model as 'i';
      N  a member that called setsid() is no member of the group any more: it and its subtree are pruned (kept False)."""
    out, keep, pos = [], [], [0]

    def node(dropped):
        d = tree[pos[0]]
        pos[0] += 1
        flag = ''
        if tree[pos[0]] in 'SN':
            flag = tree[pos[0]]
            pos[0] += 1
        dropped = dropped or flag == 'N'
        keep.append(not dropped)
        st = pos[0]
        while tree[pos[0]] != '(':
            pos[0] += 1
        if not dropped:
            out.append(('i' if flag == 'S' else d) + tree[st:pos[0]] + '(')
        pos[0] += 1
        while tree[pos[0]] != ')':
            node(dropped)
        pos[0] += 1
        if not dropped:
            out.append(')')
    node(False)
    return ''.join(out), keep


def model_view(c, o):
    """case and observation as the model / the oracle / the signature predicates see them"""
    if 'S' not in c['tree'] and 'N' not in c['tree']:
        return c, o
    mt, keep = model_tree(c['tree'])
    idx = [i for i, k in enumerate(keep) if k]
    back = {i: j for j, i in enumerate(idx)}
    cm = dict(c, tree=mt, nodes=len(idx))
    om = dict(o)
    for k in ('alive', 'alive_at_exit'):
        om[k] = [o[k][i] for i in idx]
    om['selfexit'] = [back[i] for i in o['selfexit'] if i in back]
    return cm, om


def b_shape(tree, script, cls, mode='canvas', to=0):
    return bcase(tree, mode, to, script, cls)


def shape_cases():
    """members the kernel model does not have: stopped when the signal arrives, gone to a session of their own"""
    return [
        b_shape('d(dS()d())', TERM_AT_BLOCKED, 'a default-disposition member is STOPPED when SIGTERM reaches the group'),
        b_shape('dS(d()i())', TERM_AT_BLOCKED, 'the main process is STOPPED when SIGTERM reaches the group (SIGKILL after the poll)'),
        b_shape('d(iS(d()))', ALRM_AT_BLOCKED, 'a TERM-ignoring member is STOPPED, timeout', 'regress', 3600),
        b_shape('d(dN(d()i())d())', TERM_AT_BLOCKED, 'OUTSIDE (kernel model): a member and its subtree left the group with setsid()'),
        b_shape('i(dN()d())', TERM_AT_BLOCKED, 'OUTSIDE (kernel model): a member left the group with setsid(), main ignores SIGTERM'),
    ]


SYNC_POINTS_PIPE = ['exec.after_sigpipe', 'exec.after_sigterm', 'exec.before_waitpid', 'blocked', 'exec.wait_interrupted',
                    'kill.before_term', 'kill.after_term', 'kill.before_kill', 'kill.after_kill']


def boundary_corpus_cases():
    """one deterministic case per class value (written to corpus/C07/b07_*.json)"""
    out = {}
    out['members'] = [b_members(k) for k in KIDS_B] + [b_members(k, 'grand') for k in KIDS_B[1:]] \
        + [b_members(16, 'wide', 3), b_members(64, 'wide', 2), b_members(65, 'wide', 0, 'd', True), b_members(17, 'grand', 0, 'd', True)]
    out['depth'] = [b_depth(d) for d in (1, 2, 8)] + [b_depth(8, 'i()')]
    out['sigterm_count'] = [b_terms(n) for n in (1, 2, 3, 16)] + [b_terms(3, 'i'), b_terms(16, 'i'), b_terms(3, 'i', True), b_terms(16, 'i', True)]
    out['sigpipe'] = [b_sigpipe(p) for p in SYNC_POINTS_PIPE] + [b_sigpipe('exec.after_sigalrm', 'regress'), b_sigpipe('blocked', 'regress')]
    out['selfexit_between'] = [b_selfexit_between(m, p) for m in (0, 1) for p in ('kill.after_term', 'kill.before_kill')]
    out['main_status'] = [b_main_status(c, p) for c in (0, 1, 255) for p in ('exec.wait_interrupted', 'kill.before_term', 'kill.after_term')] \
        + [b_main_status(255, 'kill.before_kill')]
    out['timeout'] = [b_timeout(0, TERM_AT_BLOCKED, 'no alarm, SIGTERM while blocked'),
                      b_timeout(0, [('R', 'exec.after_sigalrm'), ('S', 'TERM'), ('F', '')], 'the sync point after siginstall(SIGALRM) is never reached'),
                      b_timeout(0, [('B', ''), ('E', ''), ('S', 'TERM'), ('F', '')], 'nothing expires'),
                      b_timeout(1, [('B', ''), ('E', ''), ('F', '')], 'expires while blocked'),
                      b_timeout(1, [('R', 'exec.after_sigalrm'), ('S', 'TERM'), ('F', '')], 'SIGTERM before alarm(1) is armed')]
    out['escalation'] = [b_escalation(-1200), b_escalation(1500)]
    out['member_shapes'] = shape_cases()
    return out


def gen_boundary_cases(rng, n):
    """the same classes with random parameters (small share of the run)"""
    out = []
    for _ in range(n):
        r = rng.random()
        if r < 0.3:
            out.append(b_members(rng.choice(KIDS_B), rng.choice(['wide', 'grand']), rng.choice([0, 0, 2, 3]) if r < 0.15 else 0, 'd', rng.random() < 0.3))
        elif r < 0.4:
            out.append(b_depth(rng.choice([1, 2, 8]), rng.choice(['d()', 'i()'])))
        elif r < 0.55:
            out.append(b_terms(rng.choice([2, 3, 16]), 'd'))
        elif r < 0.75:
            p = rng.choice(SYNC_POINTS_PIPE[:7] + ['exec.after_sigalrm'])
            out.append(b_sigpipe(p, 'regress' if p == 'exec.after_sigalrm' or rng.random() < 0.3 else 'canvas'))
        elif r < 0.85:
            out.append(b_main_status(rng.choice([0, 1, 2, 255]), rng.choice(['exec.wait_interrupted', 'kill.before_term', 'kill.after_term'])))
        elif r < 0.90:
            out.append(b_selfexit_between(rng.choice([0, 1]), 'kill.after_term'))
        elif r < 0.95:
            out.append(rng.choice(shape_cases()[:1] + shape_cases()[3:]))
        else:
            out.append(rng.choice(boundary_corpus_cases()['timeout']))
    return out


# ---- running -----------------------------------------------------------------------------

def build_probe(ctx):
    d = ctx.mkscratch('c07probe')
    exe = os.path.join(d, 'proctree')
    r = common.sh(['cc', '-O1', '-o', exe, os.path.join(common.VERIF, 'tools', 'proctree.c')])
    if r.returncode != 0:
        raise common.BuildFailure('proctree does not build: ' + r.stdout[-500:])
    hold = os.path.join(d, 'kl_hold.so')
    r = common.sh(['cc', '-O1', '-shared', '-fPIC', '-o', hold, os.path.join(common.VERIF, 'tools', 'kl_hold.c'), '-ldl'])
    if r.returncode != 0:
        raise common.BuildFailure('kl_hold.so does not build: ' + r.stdout[-500:])
    return exe, hold


def run_impl(impl, probe, hold, work, idx, case):
    d = os.path.join(work, 'c%d' % idx)
    os.makedirs(d)
    c = dict(case)
    c.update({'impl': impl, 'probe': probe, 'hold': hold, 'work': d})
    try:
        r = subprocess.run([sys.executable, os.path.join(common.VERIF, 'tools', 'kl_sched.py')], input=json.dumps(c),
                           stdout=subprocess.PIPE, stderr=subprocess.PIPE, text=True, timeout=120)
        out = json.loads(r.stdout) if r.stdout.strip() else {'error': 'no output: ' + r.stderr[-300:]}
    except subprocess.TimeoutExpired:
        out = {'error': 'scheduler timeout'}
    except ValueError as e:
        out = {'error': 'bad scheduler output: %s' % e}
    common.sh(['rm', '-rf', d])
    return out


def bits(l):
    return ''.join('1' if x else '0' for x in l) or '-'


def signame(s):
    return s if s else '-'


def history_of_obs(case, o):
    """what happened to the step, from the scheduler's delivery log (independent of the model)"""
    event = late = None
    first_where = None
    for sig, where in o['deliveries']:
        if where == 'exited':
            continue
        if where == 'exec.after_wait':
            late = sig
        else:
            event = sig
            if first_where is None:
                first_where = where
    self_ = [0] * case['nodes']
    for i in o['selfexit']:
        if i < len(self_):
            self_[i] = 1
    return event, late, self_, first_where


BEFORE_HANDSHAKE = ('exec.after_fork', 'exec.after_sigpipe', 'exec.after_sigterm')


def expected_slow(case):
    """from the script alone: was the child held while the runner was let past the handshake"""
    sc = case['script']
    if not sc or sc[0][0] != 'H':
        return False
    for op, arg in sc[1:]:
        if op == 'U':
            return False
        if op in ('B', 'F') or (op == 'R' and arg not in BEFORE_HANDSHAKE):
            return True
    return False


def slow_of_obs(o):
    """the step's group was not there within the handshake timeout (the runner said so)"""
    return 'slow' if o.get('slow') else 'intime'


def canon_obs(case, o):
    event, late, self_, _ = history_of_obs(case, o)
    res = o['result']
    result = 'hang' if res[0] == 'hang' else '%s:%d' % (res[0], res[1])
    kills = ','.join(str(k) for k in o['kills']) or '-'
    reached = ','.join('fuel' if r == 'timeout' else r for r in o['reached']) or '-'
    return ' '.join([result, o['main'], bits(o['alive']), kills, signame(event), signame(late), bits(self_), 'det', reached,
                     slow_of_obs(o)])


def model_line(case):
    toks = []
    for op, arg in case['script']:
        if op in ('B', 'F', 'H', 'U', 'E'):
            toks.append(op)
        elif op == 'S' and arg == 'ALRMREAL':
            toks.append('E')
        elif op == 'S' and arg == 'PIPE':
            continue                    # ignored by the runner (siginstall(SIGPIPE, SIG_IGN)): no transition of the model
        elif op == 'S':
            toks.append('S:' + arg)
        elif op in ('R', 'X'):
            toks.append('%s:%s' % (op, arg))
    return ' '.join(['run', str(case['timeout']), case['tree']] + toks)


def oracle_line(case, o):
    c = canon_obs(case, o).split()
    # ok <tree> <event> <late> <self> <slow> <result> <main> <alive> <kills>
    return ' '.join(['ok', case['tree'], c[4], c[5], c[6], c[9], c[0], c[1], c[2], c[3]])


def main_code(tree):
    """exit code (mod 256) with which the main process exits on its own, None if it cannot"""
    m = re.match(r'[di][SN]?e(\d+)', tree)
    return int(m.group(1)) % 256 if m else None


def untouched(case, o):
    """nobody was signalled by the runner: no kill(2) at all, and exactly the members that exited on their own are dead"""
    return (not o['kills'] and not o.get('kills_other')
            and all(o['alive'][i] == (0 if i in o['selfexit'] else 1) for i in range(case['nodes'])))


def shape_before_handler(case, o):
    """what C07_sigterm_before_handler_refuted predicts for EVERY tree and schedule: the runner is killed by the SIGTERM,
    the main process is never reaped, nothing is sent, exactly the members that do not exit on their own stay alive"""
    return o['result'] == ['killed', 15] and o['main'] != 'reaped' and untouched(case, o)


def shape_before_wait(case, o, last_sig):
    """what C07_signal_before_waitpid_refuted predicts: the signal only sets gotsig - nothing is sent, nobody touched, the
    runner is not killed; it ends only after the main process exited on its own, with exitstatus(status, gotsig) (124 for
    the alarm), or - after a failed handshake - with that code or 1; else it hangs (the event is lost)"""
    if not untouched(case, o) or o['result'][0] == 'killed':
        return False
    if o['result'][0] == 'hang':
        return True
    c, k = o['result'][1], main_code(case['tree'])
    if o.get('slow'):
        return ((o['main'] == 'reaped' and 0 in o['selfexit'] and k is not None and c == (k or 1))
                or (o['main'] != 'reaped' and c == 1))
    return o['main'] == 'reaped' and 0 in o['selfexit'] and k is not None and c == (124 if last_sig == 'ALRM' else k)


def shape_group_failure(case, o, sig):
    """what C07_signal_during_group_failure_refuted predicts: SIGTERM -> exit 1 at once, main not reaped, nothing sent;
    expiry of the timeout -> not noticed at all (the runner goes on as if nothing had happened)"""
    if not untouched(case, o) or not o.get('slow'):
        return False
    if sig == 'TERM':
        return o['result'] == ['exit', 1] and o['main'] != 'reaped'
    if o['result'][0] == 'hang':
        return True
    k = main_code(case['tree'])
    return o['result'][0] == 'exit' and o['main'] == 'reaped' and 0 in o['selfexit'] and k is not None and o['result'][1] == (k or 1)


def signature(case, o):
    """An oracle failure is one of the three KNOWN windows only when (1) the RECORDED places of the deliveries put it
    there - the first event reached the runner at a sync point of that window and no later one found it blocked in
    waitpid(-pid) - and (2) the observation has exactly the shape the window theorem predicts.  Everything else keeps a
    signature of its own."""
    event, late, self_, where = history_of_obs(case, o)
    live = [(s, w) for s, w in o['deliveries'] if w not in ('exited', 'exec.after_wait')]
    last_sig = live[-1][0] if live else None
    if event is None:
        return 'no-event-' + ('cut' if o['kills'] else 'status-or-survivors')
    # undriven runs: the scheduler only knows whether the runner sat in waitpid when the signal was sent
    pre_handler = PRE_HANDLER + (('running',) if case.get('race') else ())
    pre_wait = PRE_WAIT + (('running',) if case.get('race') else ())
    if live and live[0][0] == 'TERM' and live[0][1] in pre_handler and shape_before_handler(case, o):
        return 'sigterm-before-handler'
    if live and all(w in pre_wait for _, w in live) and shape_before_wait(case, o, last_sig):
        return 'signal-before-waitpid'
    if live and live[0][1] in GROUP_FAIL and all(w in GROUP_FAIL + ('exec.after_wait', 'exited') for _, w in o['deliveries']) \
            and shape_group_failure(case, o, live[0][0]):
        return 'signal-during-group-failure'
    tag = 'race-' if case.get('race') else ''
    if o['result'][0] != 'exit':
        return '%srunner-%s-after-event-at-%s' % (tag, o['result'][0], where)
    if o['main'] != 'reaped':
        return '%smain-not-reaped-after-event-at-%s' % (tag, where)
    if o['kills'][:1] != [15]:
        return '%sno-group-sigterm-after-event-at-%s' % (tag, where)
    return '%ssurvivor-or-status-after-event-at-%s' % (tag, where)


def literal_readings(case, o):
    """(signature, what) for every clause of the property text that this run - accepted by spec_okb - contradicts when the
    text is read literally.  Theorems C07_survivors_literal_refuted, C07_status_nonzero_literal_refuted,
    C07_timeout_status_literal_refuted state that the faithful model does the same."""
    out = []
    event, late, self_, where = history_of_obs(case, o)
    _, ign = early_nodes(case['tree'])
    gone = o['result'][0] in ('exit', 'killed')
    survivors = [i for i in range(case['nodes']) if o['alive'][i] and i not in ign]
    if event is None and gone and survivors:
        # (a) "No process of the step that keeps the default signal disposition outlives the step runner" - unconditional
        out.append(('default-member-outlives-runner-after-normal-end',
                    'no event: the step\'s main process ended by itself, the runner exited %s and left member(s) %r with the '
                    'default disposition running' % (o['result'][1], survivors)))
    if event is not None and o['result'] == ['exit', 0]:
        # (b) "... and only then exits, with a non-zero status"
        out.append(('status-zero-after-termination-request',
                    'a %s reached the runner while the step was running, the group was signalled %r and the runner exited 0 '
                    '(the main process had exited 0 by itself)' % (event, o['kills'])))
    hits = [sg for sg, w in o['deliveries'] if w == 'blocked']
    if hits and o['result'][0] == 'exit':
        # (c) "... that is 124 for a timeout": the event that found the runner in waitpid(-pid) is what takes the group down
        c124 = o['result'][1] == 124
        if hits[0] == 'ALRM' and not c124:
            out.append(('status-follows-last-signal', 'the timeout took the group down, a later SIGTERM turned the status into %d' % o['result'][1]))
        if hits[0] == 'TERM' and c124:
            out.append(('status-follows-last-signal', 'a termination request took the group down, a later alarm turned the status into 124'))
    return out


def describe(case, o):
    event, late, self_, where = history_of_obs(case, o)
    return ('tree %s, %s mode, script %s: runner %s, main %s, alive %s, runner sent %s (event %s at %s)'
            % (case['tree'], case['mode'], ' '.join('%s:%s' % (a, b) if b != '' else a for a, b in case['script']),
               o['result'], o['main'], bits(o['alive']), o['kills'], event, where))


def evaluate(ctx, cases, res, env=None):
    env = env or {}
    if 'impl' not in env:
        env['impl'] = ctx.build_impl()
        env['probe'], env['hold'] = build_probe(ctx)
        env['drv'] = ctx.build_driver('kl', withz=True)
        env['work'] = ctx.mkscratch('c07work')
        env['n'] = 0
        # how long killwaitpg1 polls before the escalation: killwaitpg(pid, <ms>, &status)
        mm = re.search(r'killwaitpg\(pid,\s*(\d+),', open(os.path.join(common.REPO, 'step-exec.c')).read())
        if not mm:
            raise common.BuildFailure('step-exec.c: killwaitpg(pid, <ms>, &status) was not found')
        env['kill_ms'] = int(mm.group(1))
    cases = [dict(c, tree=c['tree'].replace('{T}', str(300 + env['kill_ms'] + c['timed']['rel_ms']))) if c.get('timed') else c
             for c in cases]
    base = env['n']
    env['n'] += len(cases)
    with ThreadPoolExecutor(24) as ex:
        obs = list(ex.map(lambda ic: run_impl(env['impl'], env['probe'], env['hold'], env['work'], base + ic[0], ic[1]),
                          enumerate(cases)))
    # OUTSIDE the driven schedule: the real 1000 ms handshake expired although the script did not hold the child (24
    # cases run at once: the forked child was not scheduled in time - C06's finding handshake-timeout-masks-exit-zero seen
    # live).  Such a run is not the scripted schedule; it is repeated on its own, and only a repetition that shows the same
    # is judged.
    for i, (c, o) in enumerate(zip(cases, obs)):
        if 'error' not in o and not c.get('race') and o.get('slow') and not expected_slow(c):
            res.count('outside: handshake expired without the shim (machine load), case repeated')
            obs[i] = run_impl(env['impl'], env['probe'], env['hold'], env['work'], 10 ** 6 + base + i, c)
    for c, o in zip(cases, obs):
        if 'error' not in o:
            # SIGPIPE deliveries (boundary class "signal the runner ignores") are no events: they are taken out of the
            # history here and counted; everything below sees only SIGTERM / SIGALRM
            o['deliveries_pipe'] = [d for d in o['deliveries'] if d[0] == 'PIPE']
            o['deliveries'] = [d for d in o['deliveries'] if d[0] != 'PIPE']
    views = [model_view(c, o) if 'error' not in o else (c, o) for c, o in zip(cases, obs)]
    qs = []
    for c, o in views:
        if 'error' in o:
            qs += ['bad', 'bad']
            continue
        qs.append(model_line(c) if not c.get('race') else 'bad')
        qs.append(oracle_line(c, o))
    ans = common.run_driver(env['drv'], qs)
    for i, ((c, o), c0, o0) in enumerate(zip(views, cases, obs)):
        res.evaluations += 1
        if 'error' in o:
            res.tie_errors.append('scheduler: %s on %s' % (o['error'][-300:], json.dumps(c0)))
            continue
        if c is not c0:
            # members outside the kernel model, recorded for what they are
            _, keep = model_tree(c0['tree'])
            gone = [i_ for i_, k in enumerate(keep) if not k]
            if gone:
                res.count('outside (kernel model): %d member(s) left the group with setsid(): %s after the runner ended'
                          % (len(gone), 'all alive' if all(o0['alive'][i_] for i_ in gone) else 'NOT all alive'))
            if 'S' in c0['tree']:
                res.count('stopped member(s) handed to the model as TERM-ignoring; alive (stopped, SIGTERM pending) after the runner '
                          'ended: %d' % sum(1 for i_, ch in enumerate(re.findall(r'[di]([SN]?)', c0['tree'])) if ch == 'S' and o0['alive'][i_]))
        m, ok = ans[2 * i], ans[2 * i + 1]
        impl_s = canon_obs(c, o)
        event, late, self_, where = history_of_obs(c, o)
        key = hashlib.sha1(json.dumps([c['tree'], c['mode'], c['script']]).encode()).hexdigest()
        env['last'] = {'model': m, 'implementation': impl_s, 'oracle_ok': ok == '1', 'stderr': o.get('stderr', '')[-300:]}
        res.count('nodes=%d' % c['nodes'])
        for k in c.get('classes', []):
            res.count('class: ' + k)
        for sg, w in o.get('deliveries_pipe', []):
            res.count('SIGPIPE delivered while the runner was at %s' % w)
        if c.get('timed'):
            # not part of the verdict (the property names no duration): did the escalation come when the source says
            want = ([15], ['exit', 3]) if c['timed']['rel_ms'] < 0 else ([15, 9], ['exit', 137])
            res.count('class: escalation boundary (%+d ms): kills %r, runner %r - %s' % (
                c['timed']['rel_ms'], o['kills'], o['result'], 'as the source\'s %d ms say' % env['kill_ms']
                if (o['kills'], o['result']) == want else 'NOT as the source\'s %d ms say' % env['kill_ms']))
        res.count('result=%s' % (o['result'][0] if o['result'][0] != 'exit' else 'exit:%d' % o['result'][1]))
        res.count('event=%s@%s' % (event, where) if event else ('late=%s' % late if late else 'no-event'))
        res.count('kills=%s' % (','.join(map(str, o['kills'])) or 'none'))
        if o.get('slow'):
            res.count('handshake timed out ("process group failure")')
        if o.get('held') and not o.get('slow'):
            res.count('child held, released before the handshake expired')
        if o['alive'] != o['alive_at_exit']:
            res.count('members still dying when the runner had exited')
        if c.get('race'):
            res.count('race: delivered while %s' % (o['deliveries'][0][1] if o['deliveries'] else '?'))
        if event or late or o['selfexit'] or o.get('slow'):
            res.nontrivial.add(key)
        if o.get('kills_other'):
            res.oracle_failures.append({'case': c0, 'signature': 'runner-signals-something-else',
                                        'what': 'the runner called kill(2) on %r (target, signal), not on the step\'s process group: %s'
                                                % (o['kills_other'][:4], describe(c, o)), 'impl': impl_s})
        if o.get('kills_text') != o['kills']:
            res.count('the runner\'s words ("sending ... signal") differ from its kill(2) calls')
        if not c.get('race') and bool(o.get('slow')) != expected_slow(c) and o['result'][0] != 'killed':
            res.oracle_failures.append({'case': c0, 'signature': 'handshake-outcome',
                                        'what': 'the runner %s "process group failure" although the child was %sheld beyond '
                                        'the handshake timeout: %s' % ('reported' if o.get('slow') else 'did not report',
                                                                       '' if expected_slow(c) else 'not ', describe(c, o)),
                                        'impl': impl_s})
        if o['strangers']:
            res.oracle_failures.append({'case': c0, 'signature': 'unknown-process-in-group',
                                        'what': '%d live process(es) in the step\'s group that the probe did not report: %s'
                                        % (o['strangers'], describe(c, o)), 'impl': impl_s})
        if c.get('race'):
            if not o['ready'] and o['result'][0] == 'killed' and not any(o['alive']):
                res.count('race: runner killed before the step existed')
                continue
        elif m != impl_s:
            res.disagreements.append({'case': c0, 'model': m, 'impl': impl_s, 'stderr': o.get('stderr', '')[-300:]})
        if ok != '1':
            if c.get('race'):
                res.count('race: real (undriven) hit of ' + signature(c, o))
            res.oracle_failures.append({'case': c0, 'signature': signature(c, o), 'what': describe(c, o), 'impl': impl_s})
        else:
            # THE LETTER OF THE PROPERTY where the specification [spec] is more lenient (Exec/KillLiteral.v): runs the
            # oracle accepts are judged once more against the literal reading of three clauses
            for lit in literal_readings(c, o):
                res.oracle_failures.append({'case': c0, 'signature': lit[0], 'what': lit[1] + ': ' + describe(c, o), 'impl': impl_s})
    return env


def load_corpus():
    import glob
    files = sorted(glob.glob(os.path.join(common.VERIF, 'corpus', 'C07', '*.json')))
    if not files:
        raise common.BuildFailure('corpus/C07 is missing or empty: the cases of the known findings would not run')
    out = []
    for p in files:
        x = json.load(open(p))
        out += x if isinstance(x, list) else [x]          # b07_<class>.json: one list per class family
    return out


def run(ctx, thorough=None):
    res = common.Result()
    thorough = (ctx.tier == 'thorough') if thorough is None else thorough
    res.rule = ('process trees (depth <= 4, fan-out <= 3, TERM-ignoring and self-exiting members, main included) x scheduler '
                'scripts: SIGTERM / SIGALRM (the runner\'s own alarm(1) and a direct one) at every sync point of step_fork, '
                'step_exec and killwaitpg1 and while blocked in waitpid, second signals inside the kill phase, members '
                'exiting before / during the kill, no event, events after the step ended; the forked child held before '
                'setsid beyond the handshake timeout (SIGTERM / expiry of the timeout / nothing on the "process group '
                'failure" path) or released in time; non-trivial = a signal was delivered, the timeout passed, a member '
                'exited on its own or the handshake failed; distinct by (tree, mode, script).  BOUNDARY CLASSES (corpus b07_*.json + '
                'a small generated share, counted as "class: ..."): main + 0, 1, 2, 15-17, 31-33, 63-65 children / grandchildren '
                '(also with every 2nd / 3rd ignoring SIGTERM), depth 1, 2, 8; 1, 2, 3, 16 SIGTERMs at the stop points of the takedown and '
                '120 ms apart while the runner polls; SIGPIPE (ignored by the runner) at every sync point from exec.after_sigpipe on, '
                'while blocked and inside the kill phase; TERM-ignoring members / main exiting on their own between the SIGTERM and '
                'the SIGKILL; the main process exiting 0 / 1 / 255 at every stop point of the takedown; regress-timeout 0 and 1; the '
                'main process exiting on its own 1.2 s before / 1.5 s after the escalation to SIGKILL; members STOPPED when the signal '
                'arrives (handed to the model as TERM-ignoring) and members that left the group with setsid() (pruned: outside the '
                'kernel model)')
    trees = list(QUICK_TREES)
    if thorough:
        seen = set(trees)
        while len(trees) < 40:
            t = gen_tree(ctx.rng)
            if t not in seen:
                seen.add(t)
                trees.append(t)
    cases = load_corpus() + make_cases(ctx, trees, full=thorough)
    if not thorough:
        # the quick tier keeps every tree but thins the scripts of the slow (TERM-ignoring main) trees
        pass
    cases += race_cases(ctx, 400 if thorough else 24)
    # boundary size / shape classes: one deterministic case per class value is in corpus/C07/b07_*.json
    cases += gen_boundary_cases(ctx.rng, 200 if thorough else 12)
    res.samples = cases[:2] + cases[-1:]
    res.assumptions = ['correspondence bounds: trees of <= 10 processes, one or two signals per run; the theorems have none']
    env = {}
    chunk = 600
    for i in range(0, len(cases), chunk):
        evaluate(ctx, cases[i:i + chunk], res, env)
    res.traces_validated = res.evaluations
    res.extra['trees'] = len(trees)
    return res


def extended_search(ctx, res, proof):
    return run(ctx, thorough=True)


def replay(ctx, rep):
    if isinstance(rep, list):          # a corpus file with one case per class value
        res = common.Result()
        evaluate(ctx, rep, res)
        print('cases: %d' % len(rep))
        print('disagreements:', json.dumps(res.disagreements, indent=1)[:3000])
        print('oracle failures:', json.dumps([(f['signature'], f['what']) for f in res.oracle_failures], indent=1)[:4000])
        print('tie errors:', res.tie_errors)
        print('classes:', json.dumps({k: v for k, v in res.distribution.items() if k.startswith('class: ')}, indent=1))
        return 1 if (res.disagreements or res.tie_errors or
                     [f for f in res.oracle_failures if not common.match_known(ctx.pid, f.get('signature'))]) else 0
    case = rep.get('case') or (rep.get('first_disagreements') or [{}])[0].get('case')
    if case is None and 'tree' in rep and 'script' in rep:
        case = rep                      # a bare case (corpus file)
    if case is None:
        print(json.dumps(rep, indent=1))
        return 1
    res = common.Result()
    env = evaluate(ctx, [case], res)
    print('case:', json.dumps(case))
    last = env.get('last', {})
    print('format: <runner> <main> <alive per member> <signals sent to the group> <event> <late> <self-exits> det <outcomes> <handshake>')
    print('model says:          ', last.get('model'))
    print('implementation did:  ', last.get('implementation'))
    print('oracle (spec_okb) on the implementation:', 'ok' if last.get('oracle_ok') else 'VIOLATED')
    print('disagreements:', res.disagreements)
    print('oracle failures:', res.oracle_failures)
    print('tie errors:', res.tie_errors)
    bad = res.disagreements or res.tie_errors or [f for f in res.oracle_failures
                                                 if not common.match_known(ctx.pid, f.get('signature'))]
    for f in res.oracle_failures:
        k = common.match_known(ctx.pid, f.get('signature'))
        if k:
            print('KNOWN-FINDING: property=%s %s' % (ctx.pid, k['what']))
    return 1 if bad else 0
